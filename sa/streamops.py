"""Shared checks for streaming loops in base.py: role binding of kernel arguments,
overlap-save offsets, accumulator discipline, range-derived sizes."""
from __future__ import annotations

import ast

from .dataflow import flow_of
from .effects import written_params
from .model import AnalysisError, FuncInfo, Program, body_walk, calls_in_body, dotted, norm, parent
from .poly import Poly, PolyEnv
from .props import transparent_casts
from .stream import PlanLoop, plan_loops, with_range_len

KMOD = "sigpyproc.core.kernels"


class StreamOp:
    def __init__(self, prog: Program, fn: FuncInfo):
        self.prog = prog
        self.fn = fn
        self.flow = flow_of(fn, prog)
        self.cfg = self.flow.cfg
        self.loops = plan_loops(fn)

    # -- expressions -------------------------------------------------------------
    def poly(self, expr: ast.AST, at: ast.AST | None = None, stop: set[str] | None = None, names=None) -> Poly:
        atn = self.cfg.node_for(at if at is not None else expr)
        ex = self.flow.expand(expr, atn, stop=stop or set())
        ex = with_range_len(ex)
        return PolyEnv(names or {}, atom_hook=transparent_casts).poly(ex)

    def gulp_name(self, loop: PlanLoop) -> str | None:
        g = loop.kw("gulp")
        return g.id if isinstance(g, ast.Name) else None

    def stride(self, loop: PlanLoop) -> tuple[Poly, Poly, Poly]:
        """(G, S, G - S): G is the gulp handed to read_plan - the symbol of the local variable when a name is passed,
        otherwise the canonical form of the expression (so a later use of a different `gulp` does not match it)."""
        g = self.gulp_name(loop)
        gexpr = loop.kw("gulp")
        if gexpr is None:
            raise AnalysisError(f"{self.fn.ident}: read_plan is called without gulp=")
        G = Poly.sym(g) if g is not None else self.poly(gexpr, loop.call)
        sb = loop.kw("skipback")
        S = self.poly(sb, loop.call, stop={g} if g else set()) if sb is not None else Poly.const(0)
        return G, S, G - S

    def kernel_calls(self, loop: PlanLoop) -> list[tuple[ast.Call, FuncInfo]]:
        out = []
        for c in calls_in_body(self.fn.node):
            if not loop.in_body(c):
                continue
            d = dotted(c.func) or ""
            if d.startswith("kernels."):
                name = d.split(".", 1)[1]
                if self.prog.has_func(KMOD, name):
                    out.append((c, self.prog.func(KMOD, name)))
                elif name in self.prog.module(KMOD).njit_twins:
                    of = self.prog.module(KMOD).njit_twins[name]["of"]
                    out.append((c, self.prog.func(KMOD, of)))
        return out

    def allocation(self, name: str, at: ast.AST) -> ast.Call | None:
        """The np.zeros/np.empty/... call that the local array `name` was created by (unique assign def)."""
        ds = [d for d in self.flow.origin_defs(name, self.cfg.node_for(at)) if d.kind == "assign"]
        if len(ds) != 1 or not isinstance(ds[0].value, ast.Call):
            return None
        return ds[0].value

    # -- role checks ----------------------------------------------------------------
    def check_roles(self, res, rule: str, loop: PlanLoop, call: ast.Call, kernel: FuncInfo, roles: dict[str, str]) -> None:
        """roles: kernel parameter name -> expected role in
        {data, count, nchans, index, maxdelay, zero, nsamples_total}."""
        bound = self.prog.bind_args(call, kernel)
        G, S, stride = self.stride(loop)
        g = self.gulp_name(loop)
        for param, role in roles.items():
            key = f"{self.fn.qualname}:{kernel.name}:{param}"
            if param not in kernel.params:
                raise AnalysisError(f"kernel {kernel.name} has no parameter {param}")
            arg = bound.get(param)
            if arg is None:
                res.bad(rule, self.fn, call, f"kernel parameter {param} receives no argument", key=key)
                continue
            ok, want = True, ""
            if role == "data":
                ok, want = norm(arg) == loop.data, f"this iteration's block '{loop.data}'"
            elif role == "count":
                ok, want = norm(arg) == loop.count, f"the yielded sample count '{loop.count}'"
            elif role == "nchans":
                ok, want = norm(arg) == "self.header.nchans", "self.header.nchans"
            elif role == "nsamples_total":
                ok, want = norm(arg) == "self.header.nsamples", "self.header.nsamples"
            elif role == "maxdelay":
                p = self.poly(arg, call, stop={g} if g else set())
                ok, want = p == S, f"the plan's skipback ({S.canon()})"
            elif role == "index":
                p = self.poly(arg, call, stop=({g} if g else set()) | {loop.index})
                w = Poly.sym(loop.index) * stride
                ok, want = p == w, f"block index * (gulp - skipback) = {w.canon()}"
            elif role == "zero":
                ok, want = isinstance(arg, ast.Constant) and arg.value == 0, "0"
            else:
                raise AnalysisError(f"unknown role {role}")
            if ok:
                res.ok(rule, self.fn, call, f"{kernel.name}({param}=...) receives {want}", construct=f"{param}={norm(arg)}", key=key)
            else:
                res.bad(rule, self.fn, call, f"{kernel.name} parameter '{param}' receives `{norm(arg)}`, expected {want}",
                        construct=f"{param}={norm(arg)}", key=key)

    def check_accumulators(self, res, rule: str, loop: PlanLoop, call: ast.Call, kernel: FuncInfo, *,
                           consumed_in_loop: bool) -> None:
        """Buffers the kernel updates with += (without assigning the same elements first) must start from zero."""
        from .affine import Kernel
        k = Kernel(kernel)
        bound = self.prog.bind_args(call, kernel)
        acc_params = []
        for p in kernel.params:
            ws = [a for a in k.writes(p)]
            if ws and all(a.aug for a in ws):
                acc_params.append(p)
        for p in acc_params:
            arg = bound.get(p)
            key = f"{self.fn.qualname}:{kernel.name}:{p}:zero"
            if not isinstance(arg, ast.Name):
                res.bad(rule, self.fn, call, f"accumulator argument for {p} is not a local array", key=key)
                continue
            alloc = self.allocation(arg.id, call)
            zero_alloc = alloc is not None and dotted(alloc.func) in ("np.zeros", "np.zeros_like")
            if consumed_in_loop:
                # must be re-zeroed in the loop body before the kernel call on every iteration
                zs = [c for c in calls_in_body(self.fn.node) if loop.in_body(c) and isinstance(c.func, ast.Attribute)
                      and c.func.attr == "fill" and dotted(c.func.value) == arg.id and c.args
                      and isinstance(c.args[0], ast.Constant) and c.args[0].value == 0]
                zs += [s.value for s in body_walk(self.fn.node) if isinstance(s, ast.Assign) and loop.in_body(s)
                       and isinstance(s.targets[0], ast.Subscript) and dotted(s.targets[0].value) == arg.id
                       and isinstance(s.targets[0].slice, ast.Slice) and s.targets[0].slice.lower is None
                       and s.targets[0].slice.upper is None and isinstance(s.value, ast.Constant) and s.value.value == 0]
                fresh = [s for s in body_walk(self.fn.node) if isinstance(s, ast.Assign) and loop.in_body(s)
                         and any(dotted(t) == arg.id for t in s.targets) and isinstance(s.value, ast.Call)
                         and dotted(s.value.func) in ("np.zeros", "np.zeros_like")]
                cn = self.cfg.node_for(call)
                heads = {self.cfg.node_for(loop.node)}
                ok = any(self.cfg.must_pass(self.cfg.node_for(loop.node), cn, {self.cfg.node_for(z)}) for z in zs + fresh)
                if ok:
                    res.ok(rule, self.fn, call, f"'{arg.id}' (+= in {kernel.name}) is zeroed in every iteration before the kernel runs", key=key)
                else:
                    res.bad(rule, self.fn, call, f"{kernel.name} accumulates into '{arg.id}' with += and the block is consumed "
                            f"inside the loop, but the buffer is not reset to zero in each iteration"
                            + ("" if zero_alloc else " (and it is allocated uninitialised)"), key=key)
            else:
                if zero_alloc:
                    res.ok(rule, self.fn, call, f"'{arg.id}' (+= in {kernel.name}) is allocated with np.zeros", key=key)
                else:
                    res.bad(rule, self.fn, call, f"{kernel.name} accumulates into '{arg.id}' with +=, but it is created by "
                            f"`{norm(alloc) if alloc is not None else '?'}`, not np.zeros", key=key)
