"""Statement-level control-flow graph with dominators, for one function.

Nodes are small ints.  Node kinds:
  entry, exit (normal return / fall off the end / generator exhaustion), raise
  (uncaught raise), stmt (a simple statement), test (If/While test), for (For
  header: evaluates the iterator and binds the target), with (With header),
  try (Try header), handler (except clause header), match is unsupported.
Expressions are not split: a statement containing `yield` is one node.
"""
from __future__ import annotations

import ast

from .model import AnalysisError, parent

SIMPLE = (ast.Assign, ast.AugAssign, ast.AnnAssign, ast.Expr, ast.Return, ast.Raise, ast.Pass,
          ast.Delete, ast.Assert, ast.Import, ast.ImportFrom, ast.Global, ast.Nonlocal,
          ast.Break, ast.Continue, ast.FunctionDef, ast.ClassDef)


class CFG:
    def __init__(self, fn: ast.FunctionDef):
        self.fn = fn
        self.kind: list[str] = []
        self.ast: list[ast.AST | None] = []
        self.succ: list[set[int]] = []
        self.pred: list[set[int]] = []
        self.label: dict[tuple[int, int], str] = {}  # edge labels: 'true'/'false'/'iter'/'done'/'exc'
        self.entry = self._new("entry", None)
        self.exit = self._new("exit", None)
        self.raise_ = self._new("raise", None)
        self.node_of: dict[int, int] = {}  # id(ast stmt/header) -> node
        self._loop_stack: list[tuple[int, list[int]]] = []  # (continue target, break sources)
        self._handler_stack: list[list[int]] = []
        ends = self._block(fn.body, [self.entry])
        for e in ends:
            self._edge(e, self.exit)
        self._dom: dict[int, set[int]] | None = None
        self._pdom: dict[int, set[int]] | None = None

    # -- construction -------------------------------------------------------
    def _new(self, kind: str, node: ast.AST | None) -> int:
        self.kind.append(kind)
        self.ast.append(node)
        self.succ.append(set())
        self.pred.append(set())
        n = len(self.kind) - 1
        if node is not None:
            self.node_of[id(node)] = n
        return n

    def _edge(self, a: int, b: int, label: str | None = None) -> None:
        self.succ[a].add(b)
        self.pred[b].add(a)
        if label:
            self.label[(a, b)] = label

    def _link(self, preds: list[int], n: int, labels: dict[int, str] | None = None) -> None:
        for p in preds:
            self._edge(p, n, (labels or {}).get(p))

    def _exc_targets(self) -> list[int]:
        return self._handler_stack[-1] if self._handler_stack else []

    def _block(self, stmts: list[ast.stmt], preds: list[int], first_labels: dict[int, str] | None = None) -> list[int]:
        cur = preds
        labels = first_labels
        for st in stmts:
            cur = self._stmt(st, cur, labels)
            labels = None
        return cur

    def _stmt(self, st: ast.stmt, preds: list[int], labels: dict[int, str] | None) -> list[int]:
        if isinstance(st, SIMPLE):
            n = self._new("stmt", st)
            self._link(preds, n, labels)
            for h in self._exc_targets():
                self._edge(n, h, "exc")
            if isinstance(st, ast.Return):
                self._edge(n, self.exit)
                return []
            if isinstance(st, ast.Raise):
                if not self._exc_targets():
                    self._edge(n, self.raise_)
                return []
            if isinstance(st, ast.Break):
                if not self._loop_stack:
                    raise AnalysisError("break outside loop")
                self._loop_stack[-1][1].append(n)
                return []
            if isinstance(st, ast.Continue):
                self._edge(n, self._loop_stack[-1][0])
                return []
            return [n]
        if isinstance(st, ast.If):
            t = self._new("test", st)
            self._link(preds, t, labels)
            for h in self._exc_targets():
                self._edge(t, h, "exc")
            a = self._block(st.body, [t], {t: "true"})
            if st.orelse:
                b = self._block(st.orelse, [t], {t: "false"})
            else:
                b = [t]
            # the fall-through 'false' edge of a test with no else is labelled lazily
            self._pending_false = getattr(self, "_pending_false", set())
            if not st.orelse:
                self._pending_false.add(t)
            return a + b
        if isinstance(st, (ast.For, ast.AsyncFor)):
            h = self._new("for", st)
            self._link(preds, h, labels)
            for hh in self._exc_targets():
                self._edge(h, hh, "exc")
            self._loop_stack.append((h, []))
            body_end = self._block(st.body, [h], {h: "iter"})
            for e in body_end:
                self._edge(e, h)
            _, breaks = self._loop_stack.pop()
            out = [h]
            if st.orelse:
                out = self._block(st.orelse, [h], {h: "done"})
            else:
                self._pending_false = getattr(self, "_pending_false", set())
                self._pending_false.add(h)
            return out + breaks
        if isinstance(st, ast.While):
            t = self._new("test", st)
            self._link(preds, t, labels)
            self._loop_stack.append((t, []))
            body_end = self._block(st.body, [t], {t: "true"})
            for e in body_end:
                self._edge(e, t)
            _, breaks = self._loop_stack.pop()
            infinite = isinstance(st.test, ast.Constant) and bool(st.test.value)
            out = [] if infinite else [t]
            if st.orelse and not infinite:
                out = self._block(st.orelse, [t], {t: "false"})
            elif not infinite:
                self._pending_false = getattr(self, "_pending_false", set())
                self._pending_false.add(t)
            return out + breaks
        if isinstance(st, (ast.With, ast.AsyncWith)):
            w = self._new("with", st)
            self._link(preds, w, labels)
            for h in self._exc_targets():
                self._edge(w, h, "exc")
            return self._block(st.body, [w])
        if isinstance(st, ast.Try):
            t = self._new("try", st)
            self._link(preds, t, labels)
            handler_nodes = [self._new("handler", h) for h in st.handlers]
            self._handler_stack.append(handler_nodes)
            body_end = self._block(st.body, [t])
            self._handler_stack.pop()
            if st.orelse:
                body_end = self._block(st.orelse, body_end)
            ends = list(body_end)
            for hn, h in zip(handler_nodes, st.handlers):
                ends += self._block(h.body, [hn])
            if st.finalbody:
                ends = self._block(st.finalbody, ends)
            return ends
        raise AnalysisError(f"unsupported statement kind {type(st).__name__} at line {st.lineno}")

    # -- queries --------------------------------------------------------------
    def nodes(self):
        return range(len(self.kind))

    def node_for(self, node: ast.AST) -> int:
        """CFG node whose statement/header contains the AST node."""
        cur: ast.AST | None = node
        while cur is not None:
            if id(cur) in self.node_of:
                n = self.node_of[id(cur)]
                # an expression inside the *body* of a compound statement is found
                # via its own statement first, so reaching a header here means the
                # expression belongs to the header (test / iter / with-items)
                return n
            if cur is self.fn:
                break
            cur = parent(cur)
        raise AnalysisError(f"no CFG node for {type(node).__name__} at line {getattr(node, 'lineno', '?')}")

    def edge_label(self, a: int, b: int) -> str | None:
        lab = self.label.get((a, b))
        if lab is None and a in getattr(self, "_pending_false", set()):
            return "done" if self.kind[a] == "for" else "false"
        return lab

    def reachable(self, src: int, avoid: set[int] | frozenset[int] = frozenset(), *, include_src: bool = False) -> set[int]:
        seen: set[int] = set()
        stack = [s for s in self.succ[src]]
        if include_src:
            seen.add(src)
        while stack:
            n = stack.pop()
            if n in seen or n in avoid:
                continue
            seen.add(n)
            stack.extend(self.succ[n])
        return seen

    def reachable_from_entry(self) -> set[int]:
        return self.reachable(self.entry) | {self.entry}

    def _compute_dom(self, forward: bool) -> dict[int, set[int]]:
        nodes = list(self.nodes())
        if forward:
            roots, preds = [self.entry], self.pred
        else:
            roots, preds = [self.exit, self.raise_], self.succ
        allset = set(nodes)
        dom = {n: set(allset) for n in nodes}
        for r in roots:
            dom[r] = {r}
        changed = True
        while changed:
            changed = False
            for n in nodes:
                if n in roots:
                    continue
                ps = [dom[p] for p in preds[n]]
                new = set.intersection(*ps) if ps else set()
                new = new | {n}
                if new != dom[n]:
                    dom[n] = new
                    changed = True
        return dom

    def dominates(self, a: int, b: int) -> bool:
        """Every path entry -> b passes through a."""
        if self._dom is None:
            self._dom = self._compute_dom(True)
        return a in self._dom[b]

    def must_pass(self, src: int, dst: int, via: set[int]) -> bool:
        """Every path src -> dst passes through some node of `via` (true if dst unreachable)."""
        if src in via or dst in via:
            return True
        return dst not in self.reachable(src, avoid=set(via))

    def branch_entry(self, test: int, label: str) -> list[int]:
        return [s for s in self.succ[test] if self.edge_label(test, s) == label]


def always_raises(stmts: list[ast.stmt], raiser=None) -> bool:
    """Syntactic: does executing this statement list always end in a raise?

    `raiser(call)` may recognise a helper that always raises.
    """
    if not stmts:
        return False
    last = stmts[-1]
    for st in stmts[:-1]:
        if isinstance(st, (ast.Return, ast.Break, ast.Continue)):
            return False
    if isinstance(last, ast.Raise):
        return True
    if isinstance(last, ast.If):
        return bool(last.orelse) and always_raises(last.body, raiser) and always_raises(last.orelse, raiser)
    if isinstance(last, ast.Expr) and isinstance(last.value, ast.Call) and raiser is not None:
        return bool(raiser(last.value))
    if isinstance(last, ast.With):
        return always_raises(last.body, raiser)
    return False


def simple_paths(cfg: CFG, src: int, dsts: set[int], limit: int = 20000) -> list[list[int]]:
    """All simple paths (no node twice) from src to any node in dsts."""
    out: list[list[int]] = []
    stack: list[tuple[int, list[int]]] = [(src, [src])]
    while stack:
        n, path = stack.pop()
        if n in dsts:
            out.append(path)
            if len(out) > limit:
                raise AnalysisError("too many paths")
            continue
        for s in sorted(cfg.succ[n]):
            if s not in path:
                stack.append((s, path + [s]))
    return out
