#!/usr/bin/env python3
"""CLI: python3-vt sa/check.py <Cxx> --tier quick|thorough | --replay <file>.

Exit 0 = property's decided clauses hold on /repo's current source (known
findings are printed as KNOWN-FINDING lines), 1 = VIOLATION, 2 = ANALYSIS-ERROR.
"""
from __future__ import annotations

import argparse
import importlib
import json
import os
import sys
import time
import traceback
from pathlib import Path

HERE = Path(__file__).resolve().parent
sys.path.insert(0, str(HERE.parent))

from sa.model import AnalysisError, Program  # noqa: E402
from sa.report import (EVIDENCE_DIR, Result, load_known, match_known, write_evidence)  # noqa: E402

PROPS = [f"C{i:02d}" for i in range(1, 21)]


def load_pack(prop: str):
    return importlib.import_module(f"sa.rules.{prop.lower()}")


def analyse(prop: str, tier: str, root: str | None = None, overlay: dict | None = None) -> Result:
    pack = load_pack(prop)
    prog = Program(root, overlay)
    res = Result(prop, prog)
    pack.run(prog, res, tier)
    errs = res.check_floors()
    if errs and not res.violations():
        raise AnalysisError("; ".join(errs))
    if res.dep_errors and not res.violations():
        raise AnalysisError("a property this one depends on could not be analysed - " + "; ".join(res.dep_errors))
    res.notes += [f"dependency not analysed (reported together with the violations): {e}" for e in res.dep_errors]
    res.notes += [f"floor not met (reported together with the violations): {e}" for e in errs]
    return res


def run_check(prop: str, tier: str) -> int:
    t0 = time.time()
    pack = load_pack(prop)
    cmd = f"python3-vt sa/check.py {prop} --tier {tier}"
    seed = int(os.environ.get("VERIF_SEED", "0") or 0)
    try:
        res = analyse(prop, tier)
        extra = {}
        if tier == "thorough":
            from sa import bytecheck, selftest
            extra["bytecode_cross_check"] = bytecheck.cross_check(res.prog)
            if extra["bytecode_cross_check"]["mismatches"]:
                raise AnalysisError("AST store extraction disagrees with the bytecode: " + "; ".join(extra["bytecode_cross_check"]["mismatches"][:3]))
            extra["selftest"] = selftest.run_for(prop)
            if extra["selftest"].get("failed"):
                raise AnalysisError("checker self-test failed: " + "; ".join(extra["selftest"]["failed"]))
    except AnalysisError as exc:
        print(f"ANALYSIS-ERROR property={prop} {exc}")
        write_evidence(prop, tier, "other", None, time.time() - t0,
                       explanation=f"analysis error: {exc}", checker_cmd=cmd, seed=seed)
        return 2
    except Exception:  # noqa: BLE001
        print(f"ANALYSIS-ERROR property={prop} internal error")
        traceback.print_exc()
        return 2

    known = load_known()
    print(f"== {prop} [{tier}] {getattr(pack, 'TITLE', '')}")
    print(f"   files consulted: {len(res.prog.consulted)}  obligations: {len(res.obligations)}  "
          f"calls resolved: {res.prog.resolved_count} unresolved: {len(res.prog.unresolved)}")
    per_rule: dict[str, list[int]] = {}
    for o in res.obligations:
        c = per_rule.setdefault(o.rule, [0, 0])
        c[0] += 1
        c[1] += 1 if o.ok else 0
    for rule in sorted(per_rule):
        n, okc = per_rule[rule]
        print(f"   {rule}: {okc}/{n} discharged")
    new_viol = []
    n_known = 0
    for o in res.violations():
        k = match_known(o, known.get("known", []))
        if k is not None:
            n_known += 1
            print(f"KNOWN-FINDING: property={prop} {k.get('id', '')} {o.rule} {o.where}: {k.get('what', o.detail)}")
        else:
            new_viol.append(o)
    rc = 0
    replay_dir = EVIDENCE_DIR / "replay"
    if new_viol:
        replay_dir.mkdir(parents=True, exist_ok=True)
        for i, o in enumerate(new_viol):
            print(f"{o.file}:{o.line}  {o.where}  [{o.rule}]\n    construct: {o.construct}\n    -> {o.detail}")
            rp = replay_dir / f"{prop}-{i}.json"
            rp.write_text(json.dumps({"property": prop, "tier": tier, **o.to_json()}, indent=1) + "\n")
            print(f"VIOLATION property={prop} replay={rp}")
        rc = 1
    level = getattr(pack, "LEVEL", "other")
    if new_viol or n_known:
        # a proof with undischarged obligations is not a proof
        level = "other" if level == "proof" else level
    write_evidence(prop, tier, level, res, time.time() - t0,
                   explanation=getattr(pack, "EXPLANATION", ""), checker_cmd=cmd,
                   extra=extra, n_viol=len(new_viol), seed=seed)
    if rc == 0:
        print(f"   OK ({n_known} known finding(s))" if n_known else "   OK")
    return rc


def replay(path: str) -> int:
    data = json.loads(Path(path).read_text())
    prop = data["property"]
    try:
        res = analyse(prop, data.get("tier", "quick"))
    except AnalysisError as exc:
        print(f"ANALYSIS-ERROR property={prop} {exc}")
        return 2
    for o in res.violations():
        if o.rule == data["rule"] and o.where == data["where"] and o.key == data["key"]:
            print(f"{o.file}:{o.line}  {o.where}  [{o.rule}]\n    construct: {o.construct}\n    -> {o.detail}")
            print(f"VIOLATION property={prop} replay={path}")
            return 1
    print(f"replayed instance no longer violates {data['rule']} in {data['where']}")
    return 0


def main(argv=None) -> int:
    ap = argparse.ArgumentParser()
    ap.add_argument("prop", nargs="?")
    ap.add_argument("--tier", default=os.environ.get("VERIF_TIER", "quick"), choices=["quick", "thorough"])
    ap.add_argument("--replay")
    a = ap.parse_args(argv)
    if a.replay:
        return replay(a.replay)
    if a.prop == "all":
        rc = 0
        for p in PROPS:
            try:
                rc = max(rc, run_check(p, a.tier))
            except ModuleNotFoundError:
                print(f"-- {p}: no rule pack")
        return rc
    if a.prop not in PROPS:
        ap.error("property id C01..C20 required")
    return run_check(a.prop, a.tier)


if __name__ == "__main__":
    try:
        code = main()
    except SystemExit:
        raise
    except Exception:  # noqa: BLE001
        print("ANALYSIS-ERROR internal error")
        traceback.print_exc()
        code = 2
    sys.stdout.flush()
    sys.exit(code)
