"""Exact-arithmetic interpretation of the online-moment recurrences as rational functions."""
from __future__ import annotations

import ast

from .model import AnalysisError, FuncInfo, dotted, norm
from .poly import Poly, Rat

FIELDS = ("count", "m1", "m2", "m3", "m4")


class RatInterp:
    def __init__(self, env: dict[str, Rat]):
        self.env = dict(env)

    def ev(self, e: ast.AST) -> Rat:
        if isinstance(e, ast.Constant) and isinstance(e.value, (int, float)) and not isinstance(e.value, bool):
            from fractions import Fraction
            return Rat(Poly.const(Fraction(str(e.value))))
        if isinstance(e, ast.Name):
            if e.id not in self.env:
                raise AnalysisError(f"moment recurrence reads unknown name {e.id}")
            return self.env[e.id]
        if isinstance(e, ast.Subscript):
            key = self.field_key(e)
            if key is None or key not in self.env:
                raise AnalysisError(f"moment recurrence reads unsupported `{norm(e)}`")
            return self.env[key]
        if isinstance(e, ast.UnaryOp) and isinstance(e.op, ast.USub):
            return -self.ev(e.operand)
        # conversions to floating point are the identity in exact arithmetic: x.astype(np.float64), np.float64(x), float(x)
        if isinstance(e, ast.Call) and not e.keywords:
            if isinstance(e.func, ast.Attribute) and e.func.attr == "astype" and len(e.args) == 1 and norm(e.args[0]) in ("np.float64", "float", "'float64'", "np.float32"):
                return self.ev(e.func.value)
            if norm(e.func) in ("np.float64", "float", "np.float32") and len(e.args) == 1:
                return self.ev(e.args[0])
        if isinstance(e, ast.BinOp):
            l, r = e.left, e.right
            if isinstance(e.op, ast.Add):
                return self.ev(l) + self.ev(r)
            if isinstance(e.op, ast.Sub):
                return self.ev(l) - self.ev(r)
            if isinstance(e.op, ast.Mult):
                return self.ev(l) * self.ev(r)
            if isinstance(e.op, ast.Div):
                return self.ev(l) / self.ev(r)
            if isinstance(e.op, ast.Pow) and isinstance(r, ast.Constant) and isinstance(r.value, int) and 0 <= r.value <= 6:
                return self.ev(l) ** r.value
        raise AnalysisError(f"unsupported expression in moment recurrence: `{norm(e)[:60]}`")

    @staticmethod
    def field_key(e: ast.AST) -> str | None:
        """a["m1"] / c["count"][:] -> 'a.m1' / 'c.count'."""
        if isinstance(e, ast.Subscript) and isinstance(e.slice, ast.Slice) and e.slice.lower is None and e.slice.upper is None:
            e = e.value
        if isinstance(e, ast.Subscript) and isinstance(e.value, ast.Name) and isinstance(e.slice, ast.Constant) and isinstance(e.slice.value, str):
            return f"{e.value.id}.{e.slice.value}"
        return None


def _body(fn: FuncInfo) -> list[ast.stmt]:
    return [s for s in fn.node.body if not (isinstance(s, ast.Expr) and isinstance(s.value, ast.Constant))]


def run_update(fn: FuncInfo, env: dict[str, Rat]) -> tuple[Rat, ...]:
    """Interpret update_moments / update_moments_basic in statement order; returns the returned tuple."""
    it = RatInterp(env)
    for st in _body(fn):
        if isinstance(st, ast.AugAssign) and isinstance(st.target, ast.Name):
            cur = it.ev(st.target)
            val = it.ev(st.value)
            if isinstance(st.op, ast.Add):
                it.env[st.target.id] = cur + val
            elif isinstance(st.op, ast.Sub):
                it.env[st.target.id] = cur - val
            elif isinstance(st.op, ast.Mult):
                it.env[st.target.id] = cur * val
            else:
                raise AnalysisError(f"unsupported augmented op in {fn.name}")
        elif isinstance(st, ast.Assign) and len(st.targets) == 1 and isinstance(st.targets[0], ast.Name):
            it.env[st.targets[0].id] = it.ev(st.value)
        elif isinstance(st, ast.Return) and isinstance(st.value, ast.Tuple):
            return tuple(it.ev(x) for x in st.value.elts)
        else:
            raise AnalysisError(f"unsupported statement in {fn.name}: {norm(st)[:60]}")
    raise AnalysisError(f"{fn.name} does not return a tuple")


def run_merge(fn: FuncInfo, a: dict[str, Rat], b: dict[str, Rat]) -> tuple[dict[str, Rat], dict[str, str]]:
    """Interpret add_online_moments(a, b, c); returns c's moment fields and the min/max combiner texts."""
    params = fn.positional_params
    if len(params) != 3:
        raise AnalysisError("add_online_moments: expected (a, b, c)")
    pa, pb, pc = params
    env: dict[str, Rat] = {}
    for f in FIELDS:
        env[f"{pa}.{f}"] = a[f]
        env[f"{pb}.{f}"] = b[f]
    it = RatInterp(env)
    other: dict[str, str] = {}
    import copy as _copy
    held: dict[str, ast.AST] = {}    # locals holding something that is not a moment expression (a mask such as `a["count"] == 0`)

    class _Subst(ast.NodeTransformer):
        def visit_Name(self, node):  # noqa: N802
            return _copy.deepcopy(held[node.id]) if isinstance(node.ctx, ast.Load) and node.id in held else node

    for st in _body(fn):
        tgt = st.targets[0] if isinstance(st, ast.Assign) else (st.target if isinstance(st, ast.AugAssign) else None)
        if tgt is None:
            raise AnalysisError(f"unsupported statement in {fn.name}: {norm(st)[:60]}")
        if held:
            st = _copy.copy(st)
            st.value = _Subst().visit(_copy.deepcopy(st.value))
        if isinstance(tgt, ast.Name):
            if isinstance(st, ast.Assign) and any(isinstance(n_, (ast.Compare, ast.BoolOp)) for n_ in ast.walk(st.value)) and tgt.id not in it.env:
                held[tgt.id] = st.value     # substituted where it is used
                continue
            it.env[tgt.id] = it.ev(st.value)
            continue
        key = RatInterp.field_key(tgt)
        if key is None or not key.startswith(pc + "."):
            raise AnalysisError(f"{fn.name} stores into `{norm(tgt)}`")
        fld = key.split(".", 1)[1]
        if fld in ("min", "max"):
            other[fld] = norm(st.value).replace(f"{pa}[", "a[").replace(f"{pb}[", "b[")
            continue
        val = it.ev(st.value)
        if isinstance(st, ast.AugAssign):
            if not isinstance(st.op, ast.Add):
                raise AnalysisError("unsupported augmented op in merge")
            val = it.env[key] + val
        it.env[key] = val
    out = {}
    for f in FIELDS:
        if f"{pc}.{f}" not in it.env:
            raise AnalysisError(f"{fn.name} never assigns c.{f}")
        out[f] = it.env[f"{pc}.{f}"]
    return out, other


def sym_state(prefix: str) -> dict[str, Rat]:
    return {f: Rat.sym(f"{prefix}_{f}") for f in FIELDS}
