"""Reaching definitions, def-use expansion and dependence closure on a CFG."""
from __future__ import annotations

import ast

from .cfg import CFG
from .model import AnalysisError, FuncInfo, dotted, norm, parent


def clone(node):
    """Deep copy of an AST subtree without the `_parent` back links."""
    if isinstance(node, ast.AST):
        new = type(node)()
        for name, value in ast.iter_fields(node):
            setattr(new, name, clone(value))
        for attr in ("lineno", "col_offset", "end_lineno", "end_col_offset"):
            if hasattr(node, attr):
                setattr(new, attr, getattr(node, attr))
        return new
    if isinstance(node, list):
        return [clone(x) for x in node]
    return node


class Def:
    """One definition of a local variable."""

    __slots__ = ("var", "node", "kind", "value", "index", "stmt")

    def __init__(self, var, node, kind, value, index=None, stmt=None):
        self.var = var          # name
        self.node = node        # CFG node id
        self.kind = kind        # param | assign | unpack | aug | for | with | other
        self.value = value      # ast expr (rhs / iterable / context expr / None)
        self.index = index      # position for unpack / for-target tuples
        self.stmt = stmt        # ast statement

    def __repr__(self):
        return f"<Def {self.var}@{self.node} {self.kind}>"


def _targets(t: ast.AST, path=()):
    """Yield (Name node, index path) for every name bound by assignment target t."""
    if isinstance(t, ast.Name):
        yield t, path
    elif isinstance(t, (ast.Tuple, ast.List)):
        for i, e in enumerate(t.elts):
            yield from _targets(e, path + (i,))
    elif isinstance(t, ast.Starred):
        yield from _targets(t.value, path + ("*",))


IMPURE_METHODS = {"tell", "read", "readinto", "readline", "readlines", "seek", "write", "truncate", "pop", "popitem", "cread", "creadinto",
                  "fromfile", "send", "recv", "get_nowait", "random", "normal", "integers", "uniform", "choice", "time", "perf_counter",
                  "read_subints", "read_subint", "read_subint_pol", "__next__"}
IMPURE_FUNCTIONS = {"next", "input", "open", "np.fromfile", "time.time", "_read_string"}


def is_impure_call(node: ast.AST) -> bool:
    if not isinstance(node, ast.Call):
        return False
    d = dotted(node.func)
    if d in IMPURE_FUNCTIONS:
        return True
    return isinstance(node.func, ast.Attribute) and node.func.attr in IMPURE_METHODS


MUTATING_METHODS = {"fill", "sort", "resize", "put", "itemset", "append", "extend", "update", "clear", "pop",
                    "insert", "setfield", "partition"}


def _base_name(t: ast.AST) -> str | None:
    while isinstance(t, (ast.Subscript, ast.Attribute)):
        t = t.value
    return t.id if isinstance(t, ast.Name) else None


class Flow:
    def __init__(self, fn: FuncInfo, prog=None):
        self.fn = fn
        self.prog = prog
        self.cfg = CFG(fn.node)
        self.defs: list[Def] = []
        self.defs_at: dict[int, list[Def]] = {}
        self._collect()
        self._in: dict[int, dict[str, frozenset[int]]] = {}
        self._solve()
        # evaluation-order ordinals of impure calls (same text): `fp.tell()` before and after a seek are different values
        self._impure_tok: dict[int, str] = {}
        groups: dict[str, list[ast.Call]] = {}
        for sub in ast.walk(fn.node):
            if is_impure_call(sub):
                groups.setdefault(" ".join(ast.unparse(sub.func).split()), []).append(sub)
        for nodes in groups.values():
            nodes.sort(key=lambda n: (n.lineno, n.col_offset))
            for k, n in enumerate(nodes):
                self._impure_tok[id(n)] = str(k)
        self._in_cycle_cache: dict[int, bool] = {}

    # -- definitions ----------------------------------------------------------
    def _add(self, d: Def) -> None:
        self.defs.append(d)
        self.defs_at.setdefault(d.node, []).append(d)

    def _collect(self) -> None:
        cfg = self.cfg
        a = self.fn.node.args
        for arg in a.posonlyargs + a.args + a.kwonlyargs + ([a.vararg] if a.vararg else []) + ([a.kwarg] if a.kwarg else []):
            self._add(Def(arg.arg, cfg.entry, "param", None))
        for n in cfg.nodes():
            st = cfg.ast[n]
            kind = cfg.kind[n]
            if st is None:
                continue
            if kind == "stmt":
                if isinstance(st, ast.Assign):
                    for t in st.targets:
                        self._bind(t, st.value, n, st)
                elif isinstance(st, ast.AnnAssign) and st.value is not None:
                    self._bind(st.target, st.value, n, st)
                elif isinstance(st, ast.AugAssign) and isinstance(st.target, ast.Name):
                    self._add(Def(st.target.id, n, "aug", st.value, stmt=st))
                elif isinstance(st, (ast.FunctionDef, ast.ClassDef)):
                    self._add(Def(st.name, n, "other", None, stmt=st))
                elif isinstance(st, (ast.Import, ast.ImportFrom)):
                    for al in st.names:
                        self._add(Def((al.asname or al.name).split(".")[0], n, "other", None, stmt=st))
                self._mutations(st, n)
                # walrus inside any simple statement
                for sub in ast.walk(st):
                    if isinstance(sub, ast.NamedExpr) and isinstance(sub.target, ast.Name):
                        self._add(Def(sub.target.id, n, "assign", sub.value, stmt=st))
            elif kind == "for":
                for name, path in _targets(st.target):
                    self._add(Def(name.id, n, "for", st.iter, index=path, stmt=st))
            elif kind == "with":
                for item in st.items:
                    if item.optional_vars is not None:
                        for name, path in _targets(item.optional_vars):
                            self._add(Def(name.id, n, "with", item.context_expr, index=path, stmt=st))
            elif kind == "handler":
                if st.name:
                    self._add(Def(st.name, n, "other", None, stmt=st))
            elif kind == "test":
                for sub in ast.walk(st.test):
                    if isinstance(sub, ast.NamedExpr) and isinstance(sub.target, ast.Name):
                        self._add(Def(sub.target.id, n, "assign", sub.value, stmt=st))

    def _mutations(self, st: ast.stmt, n: int) -> None:
        """In-place updates of a local object: partial definitions that do not kill."""
        targets = []
        if isinstance(st, ast.Assign):
            targets = [(t, st.value) for t in st.targets]
        elif isinstance(st, ast.AugAssign):
            targets = [(st.target, st.value)]
        for t, v in targets:
            for sub in ([t] if not isinstance(t, (ast.Tuple, ast.List)) else t.elts):
                if isinstance(sub, (ast.Subscript, ast.Attribute)):
                    b = _base_name(sub)
                    if b is not None and b not in ("self", "cls"):
                        self._add(Def(b, n, "mutate", ast.Tuple(elts=[v, sub], ctx=ast.Load()), stmt=st))
        if isinstance(st, ast.Expr) and isinstance(st.value, ast.Call) and isinstance(st.value.func, ast.Attribute) \
                and isinstance(st.value.func.value, ast.Name) and st.value.func.value.id not in ("self", "cls"):
            # `obj.method(...)` as a statement exists for its side effect: the object is no longer the value it was bound to
            self._add(Def(st.value.func.value.id, n, "mutate", st.value, stmt=st))
        for call in [c for c in ast.walk(st) if isinstance(c, ast.Call)]:
            f = call.func
            if isinstance(f, ast.Attribute) and f.attr in MUTATING_METHODS and isinstance(f.value, ast.Name):
                self._add(Def(f.value.id, n, "mutate", call, stmt=st))
            for kw in call.keywords:
                if kw.arg == "out" and isinstance(kw.value, ast.Name):
                    self._add(Def(kw.value.id, n, "mutate", call, stmt=st))
            if self.prog is not None:
                from .effects import mutated_arg_names
                for name in mutated_arg_names(self.prog, self.fn, call):
                    self._add(Def(name, n, "mutate", call, stmt=st))

    def _bind(self, target: ast.AST, value: ast.AST, n: int, st: ast.stmt) -> None:
        if isinstance(target, ast.Name):
            self._add(Def(target.id, n, "assign", value, stmt=st))
            return
        if isinstance(target, (ast.Tuple, ast.List)):
            if isinstance(value, (ast.Tuple, ast.List)) and len(value.elts) == len(target.elts) and not any(
                isinstance(e, ast.Starred) for e in list(value.elts) + list(target.elts)
            ):
                for t, v in zip(target.elts, value.elts):
                    self._bind(t, v, n, st)
                return
            for name, path in _targets(target):
                self._add(Def(name.id, n, "unpack", value, index=path, stmt=st))
        # attribute / subscript stores are effects, not local definitions

    # -- reaching definitions ---------------------------------------------------
    def _solve(self) -> None:
        cfg = self.cfg
        gen: dict[int, dict[str, frozenset[int]]] = {}
        for n, ds in self.defs_at.items():
            g: dict[str, set[int]] = {}
            for d in ds:
                g.setdefault(d.var, set()).add(self.defs.index(d))
            gen[n] = {k: frozenset(v) for k, v in g.items()}
        IN: dict[int, dict[str, frozenset[int]]] = {n: {} for n in cfg.nodes()}
        OUT: dict[int, dict[str, frozenset[int]]] = {n: {} for n in cfg.nodes()}
        work = list(cfg.nodes())
        while work:
            n = work.pop(0)
            merged: dict[str, set[int]] = {}
            for p in cfg.pred[n]:
                for var, ids in OUT[p].items():
                    merged.setdefault(var, set()).update(ids)
            newin = {k: frozenset(v) for k, v in merged.items()}
            IN[n] = newin
            out = dict(newin)
            for var, ids in gen.get(n, {}).items():
                if all(self.defs[i].kind == "mutate" for i in ids):
                    out[var] = frozenset(out.get(var, frozenset()) | ids)  # partial update: no kill
                else:
                    out[var] = ids
            if out != OUT[n]:
                OUT[n] = out
                for s in cfg.succ[n]:
                    if s not in work:
                        work.append(s)
        self._in = IN
        self._out = OUT

    def reaching(self, var: str, node: int, *, after: bool = False) -> list[Def]:
        table = self._out if after else self._in
        return [self.defs[i] for i in sorted(table.get(node, {}).get(var, ()))]

    def node_for(self, expr: ast.AST) -> int:
        return self.cfg.node_for(expr)

    def origin_defs(self, var: str, node: int, _seen=None) -> list[Def]:
        """Defining (non-aug, non-mutate) definitions of var reaching `node`, looking through `x op= ...`."""
        _seen = _seen if _seen is not None else set()
        out: list[Def] = []
        for d in self.reaching(var, node):
            if id(d) in _seen:
                continue
            _seen.add(id(d))
            if d.kind == "aug":
                out += self.origin_defs(var, d.node, _seen)
            elif d.kind == "mutate":
                continue
            else:
                out.append(d)
        return out

    # -- comprehension-bound names ----------------------------------------------
    @staticmethod
    def _bound_in_comprehension(name_node: ast.Name) -> bool:
        cur = parent(name_node)
        while cur is not None and not isinstance(cur, ast.stmt):
            if isinstance(cur, (ast.ListComp, ast.SetComp, ast.GeneratorExp, ast.DictComp)):
                for gen in cur.generators:
                    for t, _ in _targets(gen.target):
                        if t.id == name_node.id:
                            return True
            if isinstance(cur, ast.Lambda):
                if name_node.id in [a.arg for a in cur.args.args]:
                    return True
            cur = parent(cur)
        return False

    # -- expansion -----------------------------------------------------------------
    def expand(self, expr: ast.AST, at: int | None = None, *, depth: int = 12, stop: set[str] | None = None) -> ast.AST:
        """Substitute local names by their unique reaching definition (recursively).

        Names with several reaching definitions, parameters, loop targets, unpacked
        values and augmented assignments are left as names.  Returns a fresh AST.
        """
        if at is None:
            at = self.node_for(expr)
        stop = stop or set()
        return self._expand(clone(expr), expr, at, depth, stop, at)

    def _version(self, name: str, at: int, root: int) -> str | None:
        """If `name` denotes a different value at `at` than at `root` (it was redefined in between), a versioned label."""
        if getattr(self, "absolute_versions", False):
            # every occurrence of a multiply-defined variable carries the set of definitions it can see: the label does
            # not depend on where the enclosing statement stands relative to other statements
            ranks_all = [i for i, d in enumerate(self.defs) if d.var == name and d.kind != "mutate"]
            if len(ranks_all) < 2:
                return None
            a = sorted(self.defs.index(d) for d in self.reaching(name, at) if d.kind != "mutate")
            if not a:
                return None
            ranks = [i for i, d in enumerate(self.defs) if d.var == name]
            return f"{name}@" + "_".join(str(ranks.index(i)) for i in a)
        if at == root:
            return None
        a = sorted(self.defs.index(d) for d in self.reaching(name, at) if d.kind != "mutate")
        b = sorted(self.defs.index(d) for d in self.reaching(name, root) if d.kind != "mutate")
        if a == b or not a:
            return None
        # canonical label: rank of each definition among this variable's definitions (program order), so that two
        # alpha-equivalent functions produce the same label
        ranks = [i for i, d in enumerate(self.defs) if d.var == name]
        return f"{name}@" + "_".join(str(ranks.index(i)) for i in a)

    def _gamma(self, ds: list, at: int):
        """Two plain assignments merged by one if/else (or an assignment overridden under one `if`): the value is the
        conditional expression of the two.  -> (If statement, def when the test is true, def when it is false)."""
        if sum(1 for d in ds if d.kind == "param") > 1 or any(d.kind not in ("assign", "param") for d in ds) or \
                any(d.kind == "assign" and (d.value is None or d.stmt is None) for d in ds):
            return None
        a, b = ds
        for first, second in ((a, b), (b, a)):
            if second.kind == "param":
                continue   # a parameter can only be the earlier value
            pf, ps = (parent(first.stmt) if first.kind == "assign" else self.fn.node), parent(second.stmt)
            # both directly in the two arms of the same if
            if isinstance(pf, ast.If) and pf is ps and first.stmt in pf.body and second.stmt in pf.orelse:
                st, dt, df = pf, first, second
            # `x = a` before, `if c: x = b` (no assignment on the other arm)
            elif isinstance(ps, ast.If) and second.stmt in ps.body and pf is not ps and \
                    not any(isinstance(n, ast.Name) and n.id == first.var and isinstance(n.ctx, ast.Store) for s_ in ps.orelse for n in ast.walk(s_)) \
                    and self.cfg.dominates(first.node, self.cfg.node_for(ps)):
                st, dt, df = ps, second, first
            elif isinstance(ps, ast.If) and second.stmt in ps.orelse and pf is not ps and \
                    not any(isinstance(n, ast.Name) and n.id == first.var and isinstance(n.ctx, ast.Store) for s_ in ps.body for n in ast.walk(s_)) \
                    and self.cfg.dominates(first.node, self.cfg.node_for(ps)):
                st, dt, df = ps, first, second
            else:
                continue
            tn = self.cfg.node_for(st)
            if not self.cfg.dominates(tn, at) or tn == at:
                continue
            if pf is not ps:
                # "assigned before, overridden under the if": the earlier value must be the only one entering the if
                # (a loop-carried variable is not a two-way merge)
                entering = [d for d in self.reaching(a.var, tn) if d.kind != "mutate"]
                if len(entering) != 1 or entering[0] is not (df if dt.stmt in st.body else dt):
                    continue
            # the merged name must not be assigned anywhere else inside the arms
            stores = [n for s_ in st.body + st.orelse for n in ast.walk(s_) if isinstance(n, ast.Name) and n.id == a.var and isinstance(n.ctx, ast.Store)]
            if len(stores) != (2 if dt.stmt in st.body + st.orelse and df.stmt in st.body + st.orelse else 1):
                continue
            return st, dt, df
        return None

    def _forwarded_attr(self, attr: str, at: int):
        """The unique `self.x = v` (plain assignment, single target) whose value self.x still has at `at`."""
        if not hasattr(self, "_attr_stores"):
            self._attr_stores: dict[str, list[ast.Assign]] = {}
            self._self_calls: set[int] = set()
            for st in ast.walk(self.fn.node):
                if isinstance(st, ast.Assign) and len(st.targets) == 1 and isinstance(st.targets[0], ast.Attribute):
                    d = dotted(st.targets[0])
                    if d:
                        self._attr_stores.setdefault(d, []).append((st, None))
                elif isinstance(st, ast.Assign) and len(st.targets) == 1 and isinstance(st.targets[0], ast.Tuple) and \
                        not isinstance(st.value, ast.Tuple) and all(isinstance(e, (ast.Attribute, ast.Name)) for e in st.targets[0].elts):
                    for i, e in enumerate(st.targets[0].elts):
                        d = dotted(e) if isinstance(e, ast.Attribute) else None
                        if d:
                            self._attr_stores.setdefault(d, []).append((st, i))
                elif isinstance(st, (ast.Assign, ast.AugAssign, ast.AnnAssign, ast.For, ast.With)):
                    for t in ast.walk(st):
                        if isinstance(t, ast.Attribute) and isinstance(t.ctx, ast.Store):
                            d = dotted(t)
                            if d:
                                self._attr_stores.setdefault(d, []).append(None)  # a store form that is never forwarded
                if isinstance(st, ast.Call):
                    f = st.func
                    touches_self = (isinstance(f, ast.Attribute) and isinstance(f.value, ast.Name) and f.value.id == "self") or \
                        any(isinstance(a, ast.Name) and a.id == "self" for a in list(st.args) + [k.value for k in st.keywords]) or \
                        (isinstance(f, ast.Attribute) and isinstance(f.value, ast.Call) and dotted(f.value.func) == "super")
                    if touches_self:
                        try:
                            self._self_calls.add(self.node_for(st))
                        except AnalysisError:
                            pass
        stores = self._attr_stores.get(attr)
        if not stores or len(stores) != 1 or stores[0] is None:
            return None
        st, idx = stores[0]
        if idx is not None:
            # element of a tuple assignment: self.a, self.b = f(x)  ->  self.a is f(x)[0]
            if not hasattr(self, "_tuple_elems"):
                self._tuple_elems: dict[tuple[int, int], ast.Assign] = {}
            key = (id(st), idx)
            if key not in self._tuple_elems:
                pseudo = ast.Assign(targets=[st.targets[0].elts[idx]],
                                    value=ast.Subscript(value=st.value, slice=ast.Constant(idx), ctx=ast.Load()))
                ast.copy_location(pseudo, st)
                ast.fix_missing_locations(pseudo)
                self._tuple_elems[key] = pseudo
                self.cfg.node_of[id(pseudo)] = self.cfg.node_for(st)
            real = st
            st = self._tuple_elems[key]
        sn = self.cfg.node_for(st)
        if sn == at or not self.cfg.dominates(sn, at):
            return None
        after = self.cfg.reachable(sn)
        for c in self._self_calls:
            # a method of the object runs between the store and the read: it may rebind the attribute
            if c != sn and c in after and (c == at or at in self.cfg.reachable(c, avoid={sn})):
                if c == at:
                    continue   # the read is an argument of that call: evaluated before the call runs
                return None
        if sn in self.cfg.reachable(sn) and False:
            return None
        return st

    def _forwarded_store(self, name: str, key, at: int) -> "Def | None":
        """The unique `name[key] = v` whose value `name[key]` still has at `at` (no other possible write in between)."""
        def const_key(d: "Def"):
            if d.kind == "mutate" and isinstance(d.value, ast.Tuple) and len(d.value.elts) == 2:
                sub = d.value.elts[1]
                if isinstance(sub, ast.Subscript) and isinstance(sub.value, ast.Name) and sub.value.id == name and isinstance(sub.slice, ast.Constant):
                    return (sub.slice.value,)
            return None

        alld = [d for d in self.defs if d.var == name]
        if any(d.kind not in ("assign", "mutate", "param") for d in alld):
            return None
        cands = [d for d in self.reaching(name, at) if const_key(d) == (key,) and isinstance(d.stmt, ast.Assign)]
        if len(cands) != 1:
            return None
        s = cands[0]
        if s.node == at or not self.cfg.dominates(s.node, at):
            return None
        after_s = self.cfg.reachable(s.node)
        for m in alld:
            if m is s:
                continue
            if m.kind != "mutate":
                # the name is bound to another object between the store and the use
                if m.node in after_s and (m.node == at or at in self.cfg.reachable(m.node, avoid={s.node})):
                    return None
                continue
            k = const_key(m)
            if k is not None and k != (key,):
                continue   # a different constant element
            if m.node in after_s and (m.node == at or at in self.cfg.reachable(m.node, avoid={s.node})) and m.node != s.node:
                return None
        return s

    def _field_writes(self, cls, name: str, seen: set | None = None) -> set[str]:
        """Attributes of `self` that method `name` of class `cls` may assign, through calls on self as well."""
        seen = seen if seen is not None else set()
        if name in seen or cls is None:
            return set()
        # the method may be inherited: look through base classes defined in the same module
        owner, hops = cls, 0
        while owner is not None and name not in owner.methods and hops < 5:
            nxt = None
            for b in owner.bases:
                cand = getattr(owner.module, "classes", {}).get(b.split(".")[-1])
                if cand is not None:
                    nxt = cand
                    break
            owner, hops = nxt, hops + 1
        if owner is None or name not in owner.methods:
            return set()
        seen.add(name)
        out: set[str] = set()
        for n in ast.walk(owner.methods[name].node):
            if isinstance(n, ast.Attribute) and isinstance(n.ctx, ast.Store) and isinstance(n.value, ast.Name) and n.value.id == "self":
                out.add(n.attr)
            if isinstance(n, ast.Call) and isinstance(n.func, ast.Attribute) and isinstance(n.func.value, ast.Name) and n.func.value.id == "self":
                out |= self._field_writes(cls, n.func.attr, seen)
        return out

    def _stale_attribute_read(self, d: "Def", at: int) -> bool:
        """The temporary defined by `d` reads `self.<attr>`, and on some path from `d` to `at` a statement `self.m(...)` runs whose
        method (transitively) assigns that attribute, or the attribute is assigned directly: the temporary is a stale copy."""
        cls = getattr(self.fn, "cls", None)
        if cls is None or d.value is None:
            return False
        read = {n.attr for n in ast.walk(d.value) if isinstance(n, ast.Attribute) and isinstance(n.value, ast.Name) and n.value.id == "self"
                and isinstance(n.ctx, ast.Load)}
        if not read:
            return False
        key = (d.node, at)
        cache = self.__dict__.setdefault("_stale_cache", {})
        if key in cache:
            return cache[key]
        after = self.cfg.reachable(d.node)
        res = False
        for n_ in after:
            if n_ == d.node:
                continue
            if not (n_ == at or at in self.cfg.reachable(n_, avoid={d.node})):
                continue   # (a path that runs through the definition again refreshes the copy)
            st = self.cfg.ast[n_] if 0 <= n_ < len(self.cfg.ast) else None
            if st is None or not isinstance(st, ast.stmt) or isinstance(st, (ast.For, ast.While, ast.If, ast.With, ast.Try)):
                continue
            for sub in ast.walk(st):
                if isinstance(sub, ast.Attribute) and isinstance(sub.ctx, ast.Store) and isinstance(sub.value, ast.Name) and sub.value.id == "self" \
                        and sub.attr in read:
                    res = True
                if isinstance(sub, ast.Call) and isinstance(sub.func, ast.Attribute) and isinstance(sub.func.value, ast.Name) and sub.func.value.id == "self" \
                        and (self._field_writes(cls, sub.func.attr) & read):
                    res = True
            if res and n_ == at:
                # the use itself performing the write after reading is fine (read happens first) unless it is in a cycle with d
                res = at in self.cfg.reachable(at)
            if res:
                break
        cache[key] = res
        return res

    def _in_cycle(self, node: int) -> bool:
        if node not in self._in_cycle_cache:
            self._in_cycle_cache[node] = node in self.cfg.reachable(node)
        return self._in_cycle_cache[node]

    def _expand(self, new: ast.AST, orig: ast.AST, at: int, depth: int, stop: set[str], root: int) -> ast.AST:
        flow = self

        def leave(node: ast.Name) -> ast.Name:
            # a name that stays symbolic inside a substituted definition must not be confused with the
            # same name at the use site when it has been reassigned in between (SSA versions)
            v = flow._version(node.id, at, root)
            if v is not None:
                return ast.copy_location(ast.Name(id=v, ctx=node.ctx), node)
            return node

        class T(ast.NodeTransformer):
            def visit_Name(self, node: ast.Name):  # noqa: N802
                if not isinstance(node.ctx, ast.Load):
                    return node
                if getattr(node, "_bound", False):
                    return node
                if depth <= 0 or node.id in stop:
                    return leave(node)
                ds = flow.reaching(node.id, at)
                if len(ds) == 2:
                    g = flow._gamma(ds, at)
                    if g is not None:
                        test_st, dt, df = g

                        def val(d_):
                            if d_.kind == "param":
                                # the caller's value: the name as it was on entry
                                at_root = [x for x in flow.reaching(d_.var, root) if x.kind != "mutate"]
                                lab = d_.var if at_root == [d_] and not getattr(flow, "absolute_versions", False) else f"{d_.var}@0"
                                return ast.Name(id=lab, ctx=ast.Load())
                            return flow._expand(clone(d_.value), d_.value, d_.node, depth - 1, stop, root)

                        return ast.copy_location(ast.IfExp(
                            test=flow._expand(clone(test_st.test), test_st.test, flow.cfg.node_for(test_st), depth - 1, stop, root),
                            body=val(dt), orelse=val(df)), node)
                if len(ds) != 1:
                    return leave(node)
                d = ds[0]
                if d.kind == "unpack" and d.value is not None and d.index and all(isinstance(i, int) for i in d.index) \
                        and isinstance(d.value, (ast.Call, ast.Name, ast.Attribute, ast.Subscript)):
                    # `a, b = f(x)`: a is f(x)[0]
                    base = flow._expand(clone(d.value), d.value, d.node, depth - 1, stop, root)
                    if isinstance(base, ast.Call) and isinstance(base.func, ast.Name) and base.func.id == "divmod" and len(base.args) == 2 \
                            and not base.keywords and list(d.index) in ([0], [1]):
                        # q, r = divmod(a, b): q is a // b and r is a % b - the spelling every rule reads
                        return ast.copy_location(ast.BinOp(left=base.args[0], op=ast.FloorDiv() if d.index[0] == 0 else ast.Mod(), right=base.args[1]), node)
                    for i in d.index:
                        if isinstance(base, (ast.Tuple, ast.List)) and isinstance(i, int) and -len(base.elts) <= i < len(base.elts) \
                                and not any(isinstance(e_, ast.Starred) for e_ in base.elts):
                            base = base.elts[i]      # element i of a literal tuple is that element
                        else:
                            base = ast.Subscript(value=base, slice=ast.Constant(i), ctx=ast.Load())
                    return ast.copy_location(base, node)
                if d.kind != "assign" or d.value is None:
                    return leave(node)
                if any(isinstance(n_, ast.Name) and n_.id == node.id and isinstance(n_.ctx, ast.Load) for n_ in ast.walk(d.value)) \
                        and d in flow.reaching(node.id, d.node):
                    return leave(node)   # loop-carried `x = x + y` is an update of x like `x += y`: the running value keeps its name
                if any(m.var == node.id and m.kind == "mutate" and isinstance(m.value, ast.Call) for m in flow.defs_at.get(at, ())):
                    return leave(node)   # the object being updated in place by this very statement keeps its name
                if flow._stale_attribute_read(d, at):
                    return leave(node)   # `n = self.cur` taken before a call that moves self.cur: the copy is not the attribute any more
                # a stateful call substituted for its temporary denotes "the latest execution of call site #k", which is
                # what the single reaching definition holds; a stale copy (`prev = x` before `x` is read again) is
                # caught by the version label of `x`
                sub = flow._expand(clone(d.value), d.value, d.node, depth - 1, stop, root)
                return sub

            def visit_Subscript(self, node: ast.Subscript):  # noqa: N802
                # store-to-load forwarding on a local container: `d["k"] = v ... d["k"]` reads v when that store is the
                # last possible write of the element on every path
                if isinstance(node.ctx, ast.Load) and isinstance(node.value, ast.Name) and isinstance(node.slice, ast.Constant) \
                        and depth > 0 and node.value.id not in stop and not getattr(node.value, "_bound", False):
                    st = flow._forwarded_store(node.value.id, node.slice.value, at)
                    if st is not None:
                        return flow._expand(clone(st.value.elts[0]), st.value.elts[0], st.node, depth - 1, stop, root)
                if isinstance(node.value, ast.Name) and depth > 0 and node.value.id not in stop and not getattr(node.value, "_bound", False):
                    # `row = self.data[i]; row[j]` names the element self.data[i][j]: element stores through the view do not
                    # change which object the view is
                    ds = [d for d in flow.reaching(node.value.id, at) if d.kind != "mutate" or isinstance(d.value, ast.Call)]
                    if len(ds) == 1 and ds[0].kind == "assign" and isinstance(ds[0].value, (ast.Subscript, ast.Attribute)) and \
                            len(flow.reaching(node.value.id, at)) > 1:
                        base = flow._expand(clone(ds[0].value), ds[0].value, ds[0].node, depth - 1, stop, root)
                        new_node = ast.copy_location(ast.Subscript(value=base, slice=self.visit(node.slice), ctx=node.ctx), node)
                        return new_node
                return self.generic_visit(node)

            def visit_Attribute(self, node: ast.Attribute):  # noqa: N802
                # `self.x = v ... self.x`: the attribute still holds v when nothing in between can have changed it
                if isinstance(node.ctx, ast.Load) and depth > 0:
                    d = dotted(node)
                    if d is not None and d.startswith("self.") and d.count(".") == 1 and d not in stop:
                        st = flow._forwarded_attr(d, at)
                        if st is not None:
                            return flow._expand(clone(st.value), st.value, flow.cfg.node_for(st), depth - 1, stop, root)
                return self.generic_visit(node)

            def visit_Call(self, node: ast.Call):  # noqa: N802
                tok = getattr(node, "_impure_token", None)
                node = self.generic_visit(node)
                if tok is not None:
                    # a stateful call keeps its evaluation-order ordinal, whether it is used in place or through a
                    # temporary: `fp.tell()` before and after a seek are `fp.tell#0()` and `fp.tell#1()`
                    f = node.func
                    if isinstance(f, ast.Attribute):
                        node.func = ast.copy_location(ast.Attribute(value=f.value, attr=f"{f.attr}#{tok}", ctx=ast.Load()), f)
                    elif isinstance(f, ast.Name):
                        node.func = ast.copy_location(ast.Name(id=f"{f.id}#{tok}", ctx=ast.Load()), f)
                    node._impure_token = None  # type: ignore[attr-defined]
                return node

        # mark comprehension-bound names using the original (which has parents)
        for o, c in zip(ast.walk(orig), ast.walk(new)):
            if isinstance(o, ast.Name) and isinstance(c, ast.Name) and self._bound_in_comprehension(o):
                c._bound = True  # type: ignore[attr-defined]
            if isinstance(o, ast.Call) and id(o) in self._impure_tok:
                c._impure_token = self._impure_tok[id(o)]  # type: ignore[attr-defined]
        out = T().visit(new)
        return ast.fix_missing_locations(out)

    # -- dependence closure -----------------------------------------------------------
    def deps(self, expr: ast.AST, at: int | None = None, *, control: bool = False) -> set[str]:
        """Transitive data dependences of `expr` evaluated at CFG node `at`.

        Returned strings: local/param names (every name met on the way),
        dotted attribute chains (`self.header.nsamples`), `call:<dotted>` for calls.
        """
        if at is None:
            at = self.node_for(expr)
        out: set[str] = set()
        seen: set[tuple[int, int]] = set()
        self._deps(expr, at, out, seen, control)
        return out

    def _deps(self, expr: ast.AST, at: int, out: set[str], seen: set, control: bool) -> None:
        for sub in ast.walk(expr):
            if isinstance(sub, ast.Attribute):
                d = dotted(sub)
                if d:
                    out.add(d)
            elif isinstance(sub, ast.Call):
                d = dotted(sub.func)
                if d:
                    out.add("call:" + d)
            elif isinstance(sub, ast.Name) and isinstance(sub.ctx, ast.Load):
                out.add(sub.id)
                if hasattr(sub, "_parent") and self._bound_in_comprehension(sub):
                    continue
                for d in self.reaching(sub.id, at):
                    key = (id(d), 0)
                    if key in seen:
                        continue
                    seen.add(key)
                    if d.kind == "param":
                        out.add("param:" + d.var)
                    if d.value is not None:
                        self._deps(d.value, d.node, out, seen, control)
                    if d.kind == "aug":
                        # x += v depends on the previous x as well
                        for pd in self.reaching(d.var, d.node):
                            k2 = (id(pd), 0)
                            if k2 not in seen:
                                seen.add(k2)
                                if pd.kind == "param":
                                    out.add("param:" + pd.var)
                                if pd.value is not None:
                                    self._deps(pd.value, pd.node, out, seen, control)
                    if control:
                        for c in self.control_conditions(d.node):
                            self._deps(c, self.cfg.node_for(c), out, seen, control)

    def control_conditions(self, node: int) -> list[ast.AST]:
        """Tests of the If/While/For headers syntactically enclosing the statement at `node`."""
        st = self.cfg.ast[node]
        conds = []
        cur = parent(st) if st is not None else None
        while cur is not None and cur is not self.fn.node:
            if isinstance(cur, (ast.If, ast.While)):
                conds.append(cur.test)
            elif isinstance(cur, ast.For):
                conds.append(cur.iter)
            cur = parent(cur)
        return conds

    # -- convenience -----------------------------------------------------------------------
    def stores_to(self, name: str):
        """Subscript / attribute stores whose base is local `name` (incl. aug)."""
        for sub in ast.walk(self.fn.node):
            if isinstance(sub, (ast.Subscript, ast.Attribute)) and isinstance(sub.ctx, ast.Store):
                base = sub
                while isinstance(base, (ast.Subscript, ast.Attribute)):
                    base = base.value
                if isinstance(base, ast.Name) and base.id == name:
                    yield sub


_flow_cache: dict[tuple, Flow] = {}


def flow_of(fn: FuncInfo, prog=None) -> Flow:
    """Flow facts of fn; with `prog`, calls that write into an argument count as mutations."""
    key = (id(fn.node), id(prog) if prog is not None else 0)
    if key not in _flow_cache:
        _flow_cache[key] = Flow(fn, prog)
    return _flow_cache[key]
