"""Affine access relations of array kernels (F-AFF) and DOALL ownership (F-OWN)."""
from __future__ import annotations

import ast

from .dataflow import Flow, flow_of
from .model import AnalysisError, FuncInfo, dotted, norm, parent
from .poly import Poly, PolyEnv

PURE_EXTERNAL = {
    "np.sum", "np.zeros", "np.zeros_like", "np.empty", "np.empty_like", "np.ones", "np.exp", "np.ceil", "np.floor",
    "np.sqrt", "np.abs", "np.arange", "np.mean", "np.median", "np.max", "np.min", "np.log", "np.roll", "np.conj",
    "np.fft.rfft", "np.fft.irfft", "np.fft.fft", "np.fft.ifft", "np.array", "np.maximum", "np.minimum",
    "int", "float", "abs", "min", "max", "len", "round", "range", "prange", "bool",
    "types.uint64", "types.uint8", "types.int64", "rocket_fft.good_size",
}
PURE_METHODS = {"sum", "max", "min", "mean", "copy", "astype", "view", "reshape", "ravel", "transpose"}


class Loop:
    def __init__(self, node: ast.For, var: str, lo: Poly, hi: Poly, step: Poly, parallel: bool):
        self.node = node
        self.var = var
        self.lo = lo
        self.hi = hi
        self.step = step
        self.parallel = parallel

    @property
    def extent(self) -> Poly:
        return self.hi - self.lo


class Access:
    """One subscript access `base[index]` (read or write)."""

    def __init__(self, node: ast.Subscript, base: str, kind: str, index: Poly | None, lo: Poly | None,
                 hi: Poly | None, loops: list[Loop], field: str | None, aug: bool, stmt: ast.stmt,
                 reversed_: bool = False, extra_dims: int = 0):
        self.node = node
        self.base = base
        self.kind = kind          # 'w' or 'r'
        self.index = index        # element index, or None for slices
        self.lo = lo              # slice bounds (element-index polys) or None
        self.hi = hi
        self.loops = loops        # enclosing loops, outermost first
        self.field = field        # record field name for structured arrays
        self.aug = aug
        self.stmt = stmt
        self.reversed = reversed_
        self.extra_dims = extra_dims

    def text(self) -> str:
        return norm(self.node)


class Kernel:
    """Access relations of one kernel function."""

    def __init__(self, fn: FuncInfo):
        self.fn = fn
        self.flow: Flow = flow_of(fn)
        self.loops: dict[int, Loop] = {}
        self.accesses: list[Access] = []
        self.scalar_stores: list[tuple[ast.Name, ast.stmt]] = []
        self._scan()

    # -- helpers -------------------------------------------------------------
    def env_at(self, node: ast.AST) -> PolyEnv:
        return PolyEnv()

    def poly(self, expr: ast.AST, at_stmt: ast.AST | None = None) -> Poly:
        """Polynomial of expr with straight-line temporaries substituted."""
        at = self.flow.node_for(at_stmt if at_stmt is not None else expr)
        loopvars = {lp.var for lp in self.loops.values()}
        ex = self.flow.expand(expr, at, stop=loopvars)
        return PolyEnv().poly(ex)

    def enclosing_loops(self, node: ast.AST) -> list[Loop]:
        out = []
        cur = parent(node)
        while cur is not None and cur is not self.fn.node:
            if isinstance(cur, ast.For) and id(cur) in self.loops:
                # only if node is in the body (not in the iter expression)
                out.append(self.loops[id(cur)])
            cur = parent(cur)
        return list(reversed(out))

    def _scan(self) -> None:
        fn = self.fn.node
        for node in ast.walk(fn):
            if isinstance(node, ast.For) and isinstance(node.target, ast.Name) and isinstance(node.iter, ast.Call):
                d = dotted(node.iter.func)
                if d in ("range", "prange", "numba.prange"):
                    self.loops[id(node)] = None  # placeholder so poly() knows loop vars
        # two passes so that loop variables are known before bounds are converted
        tmp = {}
        for node in ast.walk(fn):
            if id(node) in self.loops:
                tmp[id(node)] = node
        for k, node in tmp.items():
            self.loops[k] = Loop(node, node.target.id, Poly.const(0), Poly.const(0), Poly.const(1), False)
        for k, node in tmp.items():
            args = node.iter.args
            at = node
            if len(args) == 1:
                lo, hi, step = Poly.const(0), self.poly(args[0], at), Poly.const(1)
            elif len(args) == 2:
                lo, hi, step = self.poly(args[0], at), self.poly(args[1], at), Poly.const(1)
            else:
                lo, hi, step = self.poly(args[0], at), self.poly(args[1], at), self.poly(args[2], at)
            lp = self.loops[k]
            lp.lo, lp.hi, lp.step = lo, hi, step
            lp.parallel = dotted(node.iter.func) in ("prange", "numba.prange")
        for node in ast.walk(fn):
            if isinstance(node, ast.Subscript):
                par = parent(node)
                # only outermost subscript of a chain x[i]["f"] / x[i][j]
                if isinstance(par, ast.Subscript) and par.value is node:
                    continue
                self._access(node)
            elif isinstance(node, ast.Name) and isinstance(node.ctx, ast.Store):
                st = node
                while not isinstance(st, ast.stmt):
                    st = parent(st)
                self.scalar_stores.append((node, st))

    def _access(self, node: ast.Subscript) -> None:
        # unwrap chains: base[idx][field] or base[field][idx] or base[idx][::-1]
        chain = []
        cur: ast.AST = node
        while isinstance(cur, ast.Subscript):
            chain.append(cur.slice)
            cur = cur.value
        chain.reverse()
        base = dotted(cur)
        if base is None:
            return
        st = node
        while not isinstance(st, ast.stmt):
            st = parent(st)
        is_store = isinstance(node.ctx, ast.Store)
        aug = isinstance(st, ast.AugAssign) and st.target is node
        field = None
        idx_slices = []
        reversed_ = False
        for s in chain:
            if isinstance(s, ast.Constant) and isinstance(s.value, str):
                field = s.value
            elif isinstance(s, ast.Slice) and s.lower is None and s.upper is None:
                if s.step is not None and norm(s.step) == "-1":
                    reversed_ = True
                # [:] whole-array view: no index contribution
            else:
                idx_slices.append(s)
        loops = self.enclosing_loops(node)
        kinds = ["w"] if is_store and not aug else (["r", "w"] if aug else ["r"])
        if not idx_slices:
            for k in kinds:
                self.accesses.append(Access(node, base, k, None, None, None, loops, field, aug, st, reversed_, 0))
            return
        first = idx_slices[0]
        extra = len(idx_slices) - 1
        if isinstance(first, ast.Tuple):
            extra += len(first.elts) - 1
            first = first.elts[0]
        index = lo = hi = None
        if isinstance(first, ast.Slice):
            if first.step is not None and norm(first.step) == "-1":
                reversed_ = True
            lo = self.poly(first.lower, st) if first.lower is not None else Poly.const(0)
            hi = self.poly(first.upper, st) if first.upper is not None else None
        else:
            index = self.poly(first, st)
        for k in kinds:
            self.accesses.append(Access(node, base, k, index, lo, hi, loops, field, aug, st, reversed_, extra))

    # -- queries ---------------------------------------------------------------
    def writes(self, base: str | None = None) -> list[Access]:
        return [a for a in self.accesses if a.kind == "w" and (base is None or a.base == base)]

    def reads(self, base: str | None = None) -> list[Access]:
        return [a for a in self.accesses if a.kind == "r" and (base is None or a.base == base)]

    def prange_loops(self) -> list[Loop]:
        return [lp for lp in self.loops.values() if lp.parallel]


# ---------------------------------------------------------------------------
# mixed-radix injectivity
# ---------------------------------------------------------------------------

def split_affine(index: Poly, loopvars: list[str]) -> tuple[dict[str, Poly], Poly, list[str]]:
    """index = sum coef[v]*v + rest; also returns opaque atoms of `rest` that mention loop vars."""
    coefs: dict[str, Poly] = {}
    rest = index
    for v in loopvars:
        if index.degree_in(v) > 1:
            raise AnalysisError(f"index is not affine in {v}: {index.canon()}")
        c = index.coeff_of(v)
        if not c.is_zero():
            if c.symbols() & set(loopvars):
                raise AnalysisError(f"index has a product of loop variables: {index.canon()}")
            coefs[v] = c
            rest = rest - c * Poly.sym(v)
    tainted = []
    for s in rest.symbols():
        if any(_mentions(s, v) for v in loopvars):
            tainted.append(s)
    return coefs, rest, tainted


def _mentions(atom: str, var: str) -> bool:
    import re
    return re.search(rf"(?<![A-Za-z0-9_.]){re.escape(var)}(?![A-Za-z0-9_])", atom) is not None


def _leq(a: Poly, b: Poly) -> bool | None:
    """a <= b for positive-size symbols: decided for equality or constant comparison."""
    if a == b:
        return True
    d = b - a
    if d.is_const():
        return d.const_value() >= 0
    # all coefficients non-negative => b - a >= 0 for non-negative symbols
    if all(v >= 0 for v in d.t.values()):
        return True
    return None


def mixed_radix(coefs: dict[str, Poly], extents: dict[str, Poly]) -> tuple[bool, str]:
    """Is (v_1..v_k) -> sum coef_i v_i injective on the box prod [0, extent_i)?

    Sufficient condition: some ordering has coef_1 >= 1 and coef_{i+1} >= coef_i * extent_i.
    Decided symbolically by equality (or sign of a constant/non-negative difference).
    """
    vars_ = list(coefs)
    if not vars_:
        return True, "no loop variable in the index"
    # order by "divisibility": try all permutations for small k
    import itertools
    if len(vars_) > 5:
        return False, "too many loop variables"
    why = ""
    for perm in itertools.permutations(vars_):
        ok = True
        c0 = coefs[perm[0]]
        if not (c0.is_const() and c0.const_value() >= 1) and not all(v > 0 for v in c0.t.values()):
            ok = False
        for a, b in zip(perm, perm[1:]):
            need = coefs[a] * extents[a]
            r = _leq(need, coefs[b])
            if r is not True:
                ok = False
                why = f"cannot show {coefs[b].canon()} >= ({coefs[a].canon()})*({extents[a].canon()})"
                break
        if ok:
            return True, "mixed radix order " + " < ".join(perm)
    return False, why or "no mixed-radix ordering of the coefficients"
