"""Reference definitions of the array kernels and comparison modulo normal form.

Each kernel of sigpyproc.core.kernels that the properties talk about has a
reference definition here, written from the property statements (time-major flat
layout elem(t, c) = nchans*t + c).  The actual kernel and the reference are
alpha-renamed (parameters by position, loop variables by extent, remaining
multi-definition locals by order), straight-line temporaries are substituted,
and every effect (store, accumulation, return) is reduced to a canonical
polynomial form.  Same loop skeleton + different effect forms => the kernel
computes a different access/value function (VIOLATION).  Different loop
skeleton => not comparable (ANALYSIS-ERROR, never a silent pass).
"""
from __future__ import annotations

import ast
import re
import textwrap
from pathlib import Path

from .dataflow import is_impure_call, Flow, clone
from .model import AnalysisError, FuncInfo, Module, dotted, norm, parent, set_parents
from .poly import Poly, PolyEnv

REFERENCE = {
    "extract_tim": '''
def extract_tim(inarray, outarray, nchans, nsamps, index):
    for t in range(nsamps):
        outarray[index + t] = np.sum(inarray[nchans * t : nchans * (t + 1)])
''',
    "extract_bpass": '''
def extract_bpass(inarray, outarray, nchans, nsamps):
    for c in range(nchans):
        for t in range(nsamps):
            outarray[c] += inarray[nchans * t + c]
''',
    "mask_channels": '''
def mask_channels(array, mask, maskvalue, nchans, nsamps):
    for c in range(nchans):
        if mask[c]:
            for t in range(nsamps):
                array[nchans * t + c] = maskvalue
''',
    "dedisperse": '''
def dedisperse(inarray, outarray, delays, maxdelay, nchans, nsamps, index):
    for t in range(nsamps - maxdelay):
        for c in range(nchans):
            outarray[index + t] += inarray[nchans * (t + delays[c]) + c]
''',
    "invert_freq": '''
def invert_freq(array, nchans, nsamps):
    out = np.empty_like(array)
    for t in range(nsamps):
        out[nchans * t : nchans * (t + 1)] = array[nchans * t : nchans * (t + 1)][::-1]
    return out
''',
    "subband": '''
def subband(inarray, outarray, delays, chan_to_sub, maxdelay, nchans, nsubs, nsamps):
    for t in range(nsamps - maxdelay):
        for c in range(nchans):
            outarray[nsubs * t + chan_to_sub[c]] += inarray[nchans * (t + delays[c]) + c]
''',
    "remove_zerodm": '''
def remove_zerodm(inarray, outarray, bpass, chanwts, nchans, nsamps):
    for t in range(nsamps):
        zerodm = 0
        for c in range(nchans):
            zerodm += inarray[nchans * t + c]
        for c in range(nchans):
            outarray[nchans * t + c] = (inarray[nchans * t + c] - zerodm * chanwts[c]) + bpass[c]
''',
    "downsample_1d_mean": '''
def downsample_1d_mean(array, factor):
    n = len(array) // factor
    result = np.empty(n, dtype=array.dtype)
    for i in range(n):
        temp = 0.0
        for f in range(factor):
            temp += array[i * factor + f]
        result[i] = temp / factor
    return result
''',
    "downsample_2d_mean_flat": '''
def downsample_2d_mean_flat(array, factor1, factor2, dim1, dim2):
    n1 = dim1 // factor1
    n2 = dim2 // factor2
    result = np.empty(n1 * n2, dtype=array.dtype)
    for i in range(n1):
        for j in range(n2):
            temp = 0.0
            for a in range(factor1):
                for b in range(factor2):
                    temp += array[dim2 * (i * factor1 + a) + j * factor2 + b]
            result[n2 * i + j] = temp / (factor1 * factor2)
    return result
''',
    "fold": '''
def fold(inarray, fold_ar, count_ar, delays, maxdelay, tsamp, period, accel, total_nsamps, nsamps, nchans, nbins, nints, nsubs, index):
    for t in range(nsamps - maxdelay):
        tj = (t + index) * tsamp
        phase = nbins * tj * (1 + accel * (tj - total_nsamps * tsamp) / (2 * CONST_C_VAL)) / period + 0.5
        phasebin = abs(int(phase)) % nbins
        subint = (t + index) // (total_nsamps / nints)
        for c in range(nchans):
            sub_band = c // (nchans / nsubs)
            pos = int(subint * nbins * nsubs + sub_band * nbins + phasebin)
            fold_ar[pos] += inarray[nchans * (t + delays[c]) + c]
            count_ar[pos] += 1
''',
    "fftconvolve": '''
def fftconvolve(in1, in2):
    if in1.ndim != 1 or in2.ndim != 1:
        raise ValueError("Input arrays must be 1D.")
    n1 = len(in1)
    n2 = len(in2)
    if n1 == 0 or n2 == 0:
        return np.zeros(0, dtype=in1.dtype)
    n = n1 + n2 - 1
    n_good = nb_fft_good_size(n, real=True)
    sp1 = np.fft.rfft(in1, n_good)
    sp2 = np.fft.rfft(in2, n_good)
    ret = np.fft.irfft(sp1 * sp2, n_good)
    return ret[:n]
''',
    "circular_pad_goodsize": '''
def circular_pad_goodsize(arr):
    n = len(arr)
    n_good = nb_fft_good_size(n, real=True)
    result = np.empty(n_good, dtype=arr.dtype)
    for i in range(n_good):
        result[i] = arr[i % n]
    return result
''',
    "normalize_template": '''
def normalize_template(arr):
    mean = np.mean(arr)
    arr_norm = arr - mean
    norm = np.sqrt(np.sum(arr_norm**2))
    if norm == 0:
        return arr_norm
    return arr_norm / norm
''',
    "convolve_templates": '''
def convolve_templates(data, temp_bank, ref_bin):
    nbins = len(data)
    ntemps = len(temp_bank)
    convs = np.empty((ntemps, nbins), dtype=data.dtype)
    data_fft = np.fft.rfft(data)
    for itemp in range(ntemps):
        temp_kernel = temp_bank[itemp]
        temp_pad = np.zeros_like(data)
        temp_pad[: len(temp_kernel)] = temp_kernel
        temp_pad = np.roll(temp_pad, -ref_bin[itemp])
        temp_pad = np.roll(temp_pad[::-1], 1)
        temp_norm = normalize_template(temp_pad)
        convs[itemp, :] = np.fft.irfft(data_fft * np.fft.rfft(temp_norm), nbins)
    return convs
''',
    "form_mspec": '''
def form_mspec(fspec):
    nfreq = len(fspec)
    mspec = np.zeros(nfreq, dtype=np.float32)
    for i in range(nfreq):
        mspec[i] = np.sqrt(fspec[i].real ** 2 + fspec[i].imag ** 2)
    return mspec
''',
    "detrend_1d": '''
def detrend_1d(arr):
    m = len(arr)
    if m == 0:
        raise ValueError("Input array must be non-empty.")
    if m == 1:
        return np.zeros(1, dtype=arr.dtype)
    mf = float(m)
    x_sum = mf * (mf - 1) / 2
    y_sum = 0.0
    x_sq_sum = mf * (mf - 1) * (2 * mf - 1) / 6
    x_y_sum = 0.0
    for i in range(m):
        y_sum += arr[i]
        x_y_sum += i * arr[i]
    slope = (m * x_y_sum - x_sum * y_sum) / (m * x_sq_sum - x_sum**2)
    intercept = (y_sum - slope * x_sum) / m
    trend = slope * np.arange(m, dtype=arr.dtype) + intercept
    return arr - trend.astype(arr.dtype)
''',
    # the scale estimators behind estimate_scale (C15; C13 and C16 standardise with them).  Textbook definitions:
    # IQR / 1.349; Gapper: sqrt(pi) / (n (n-1)) * sum_i i (n-i) (x_(i+1) - x_(i)); Qn: the k-th smallest pairwise distance,
    # k = C(h, 2), h = n//2 + 1, over 0.4506; Sn: 1.1926 med_i med_j |x_i - x_j|; difference covariance.
    "_scale_iqr": '''
def _scale_iqr(data, axis=None):
    data = np.asanyarray(data, dtype=np.float64)
    norm = 1.3489795003921634
    percentiles = np.percentile(data, [25, 75], axis=axis, keepdims=True)
    return np.squeeze((percentiles[1] - percentiles[0]) / norm, axis=axis)
''',
    "_scale_gapper_1d": '''
def _scale_gapper_1d(data):
    n = len(data)
    gaps = np.diff(np.sort(data))
    weights = np.arange(1, n) * np.arange(n - 1, 0, -1)
    return np.dot(weights, gaps) * np.sqrt(np.pi) / (n * (n - 1))
''',
    "_scale_qn_1d": '''
def _scale_qn_1d(data):
    norm = 0.4506241100243562
    n = len(data)
    h = n // 2 + 1
    k = h * (h - 1) // 2
    diffs = np.abs(data[:, None] - data)
    return np.partition(diffs[np.triu_indices(n, k=1)].ravel(), k - 1)[k - 1] / norm
''',
    "_scale_sn_1d": '''
def _scale_sn_1d(data):
    norm = 1.1926
    diffs = np.abs(data[:, None] - data)
    return norm * np.median(np.median(diffs, axis=-1))
''',
    "_scale_diffcov_1d": '''
def _scale_diffcov_1d(data):
    diff = np.diff(data)
    cov = np.cov(diff[:-1], diff[1:])
    return np.sqrt(np.abs(cov[0, 1]))
''',
    # C09: the one dispersion law.  delay(f) = K * DM * (f^-2 - fref^-2), in samples rounded to nearest then int32; the DM axis is
    # broadcast against the channel axis and only the axis of a scalar DM is dropped (one channel stays a 1-D array).
    "compute_dmdelays": '''
def compute_dmdelays(freqs, dm, tsamp, ref_freq, in_samples=True):
    freqs = np.atleast_1d(freqs).astype(np.float32)
    scalar_dm = np.ndim(dm) == 0
    dm = np.atleast_1d(dm)[:, np.newaxis].astype(np.float32)
    delays = dm * DM_CONSTANT_LK * ((freqs**-2) - (ref_freq**-2))
    if in_samples:
        delays = (delays / tsamp).round().astype(np.int32)
    return delays[0] if scalar_dm else delays
''',
    # C14: the fast running filter is the exact one whenever no decimation happens (window < 2 * min_points), otherwise: block means
    # by ds_factor, the exact filter of width min_points, linear interpolation back onto the input grid at the block centres.
    "running_filter_fast": '''
def running_filter_fast(array, window, method="mean", min_points=101):
    ds_factor = int(max(1, window / min_points))
    if ds_factor == 1:
        return running_filter(array, window, method)
    ds = downsample_1d(array, ds_factor, "mean")
    filtered_ds = running_filter(ds, min_points, method)
    x_ds = np.arange(ds.size) * ds_factor + 0.5 * (ds_factor - 1)
    return np.interp(np.arange(array.size), x_ds, filtered_ds)
''',
    # C12: the inverse real FFT of the spectrum *as it is*, to the recorded transform length (a caller-supplied transform gets the
    # spectrum only)
    "ifft": '''
def ifft(self, ifftn=None):
    if ifftn is None:
        tim_ar = kernels.nb_irfft(self.data, self.header.nsamples)
    elif callable(ifftn):
        tim_ar = ifftn(self.data)
    else:
        raise TypeError("not callable")
    return timeseries.TimeSeries(tim_ar, self.header.new_header())
''',
    "estimate_zscore": '''
def estimate_zscore(data, loc_method="median", scale_method="mad", axis=0):
    data = np.asanyarray(data, dtype=np.float32)
    if data.size == 0:
        raise ValueError("empty")
    loc = np.zeros(1, dtype=data.dtype) if loc_method == "norm" else estimate_loc(data, loc_method, axis, keepdims=True)
    scale = np.ones(1, dtype=data.dtype) if scale_method == "norm" else estimate_scale(data, scale_method, axis, keepdims=True)
    zero_scales = np.isclose(scale, 0)
    if np.any(zero_scales):
        scale = np.where(zero_scales, 1, scale)
    zscores = np.subtract(data, loc, dtype=np.float32)
    np.divide(zscores, scale, out=zscores)
    return ZScoreResult(data=zscores, loc=np.asarray(loc), scale=np.asarray(scale))
''',
    "running_filter": '''
def running_filter(array, window, method="mean"):
    filter_methods = {"mean": bn.move_mean, "median": bn.move_median}
    array = np.asarray(array)
    filter_func = filter_methods.get(method)
    if filter_func is None:
        raise ValueError("not recognized")
    pad_size = (window // 2, window // 2) if window % 2 else (window // 2, window // 2 - 1)
    padded_ar = np.pad(array, pad_size, "symmetric")
    filtered_ar = filter_func(padded_ar, window)
    return filtered_ar[window - 1 :]
''',
    "downsample_1d": '''
def downsample_1d(array, factor, method="mean"):
    if not isinstance(array, np.ndarray) or array.ndim != 1:
        raise ValueError("1D")
    if factor <= 0 or not isinstance(factor, int):
        raise ValueError("positive")
    if factor > array.size:
        raise ValueError("size")
    if method == "mean":
        return kernels.downsample_1d_mean(array, factor)
    if method == "median":
        nsamps_new = (array.size // factor) * factor
        return np.median(array[:nsamps_new].reshape(-1, factor), axis=1)
    raise ValueError("method")
''',
    "downsample_2d": '''
def downsample_2d(array, factors, method="mean"):
    factor1, factor2 = factors
    if not isinstance(array, np.ndarray) or array.ndim != 2:
        raise ValueError("2D")
    if not all(isinstance(f, int) and f > 0 for f in (factor1, factor2)):
        raise ValueError("positive")
    if method not in {"mean", "median"}:
        raise ValueError("method")
    np_op = getattr(np, method)
    dim1, dim2 = array.shape
    new_dim1 = dim1 // factor1
    new_dim2 = dim2 // factor2
    new_shape = (new_dim1, factor1, new_dim2, factor2)
    return np_op(array[: new_dim1 * factor1, : new_dim2 * factor2].reshape(new_shape), axis=(1, 3))
''',
    "downsample_2d_flat": '''
def downsample_2d_flat(array, factor1, factor2, dim1, dim2, method="mean"):
    if not isinstance(array, np.ndarray) or array.ndim != 1:
        raise ValueError("1D")
    if factor1 <= 0 or not isinstance(factor1, int):
        raise ValueError("f1")
    if factor2 <= 0 or not isinstance(factor2, int):
        raise ValueError("f2")
    if len(array) != dim1 * dim2:
        raise ValueError("len")
    if method == "mean":
        return kernels.downsample_2d_mean_flat(array, factor1, factor2, dim1, dim2)
    if method == "median":
        new_dim1 = dim1 // factor1
        new_dim2 = dim2 // factor2
        new_shape = (new_dim1, factor1, new_dim2, factor2)
        arr_2d = array.reshape(dim1, dim2)[: new_dim1 * factor1, : new_dim2 * factor2]
        result = np.median(arr_2d.reshape(new_shape), axis=(1, 3))
        return result.ravel()
    raise ValueError("method")
''',
    "read_subints": '''
def read_subints(self, startsub, nsubs, poln_select=1, scloffs=True, weights=True):
    data_list = []
    for isub in range(startsub, startsub + nsubs):
        sdata = self.read_subint_pol(isub, poln_select=poln_select, scloffs=scloffs, weights=weights)
        data_list.append(sdata)
    data = np.concatenate(data_list)
    if self.sub_hdr.freqs.foff > 0:
        data = np.fliplr(data)
    return data
''',
    "read_subint": '''
def read_subint(self, isub, scloffs=True, weights=True):
    sdata = self._fits["SUBINT"].data[isub]["DATA"]
    while sdata.ndim > 3 and sdata.shape[0] == 1:
        sdata = sdata[0]
    if self.bitsinfo.unpack:
        data = unpack(sdata.ravel(), self.bitsinfo.nbits)
        data = data.reshape((sdata.shape[0] * self.bitsinfo.bitfact, sdata.shape[1], sdata.shape[2]))
    else:
        data = np.array(sdata)
    if data.shape != self.sub_hdr.subint_shape:
        raise ValueError("TPF")
    if scloffs or weights:
        data = data.astype(np.float32, copy=False)
    if scloffs:
        data -= self.sub_hdr.zero_off
        data = data * self.read_scales(isub) + self.read_offsets(isub)
    if weights:
        data *= self.read_weights(isub)
    return data
''',
    "read_weights": '''
def read_weights(self, isub):
    weights = self._fits["SUBINT"].data[isub]["DAT_WTS"]
    return weights[: self.sub_hdr.nchans]
''',
    "read_scales": '''
def read_scales(self, isub):
    scales = self._fits["SUBINT"].data[isub]["DAT_SCL"]
    scales = scales[: self.sub_hdr.npol * self.sub_hdr.nchans]
    return scales.reshape(self.sub_hdr.npol, self.sub_hdr.nchans)
''',
    "read_offsets": '''
def read_offsets(self, isub):
    offsets = self._fits["SUBINT"].data[isub]["DAT_OFFS"]
    offsets = offsets[: self.sub_hdr.npol * self.sub_hdr.nchans]
    return offsets.reshape(self.sub_hdr.npol, self.sub_hdr.nchans)
''',
    "read_subint_pol": '''
def read_subint_pol(self, isub, poln_select=1, scloffs=True, weights=True):
    sdata = self.read_subint(isub, scloffs=scloffs, weights=weights)
    if self.sub_hdr.poln_state == "Coherence":
        scale = np.float32(1.0 / np.sqrt(2.0))
        data_shape = (self.sub_hdr.subint_samples, self.sub_hdr.nchans)
        if poln_select == 1:
            data = np.zeros(data_shape, dtype=np.float32)
            data = data + (sdata[:, 0, :] + sdata[:, 1, :]) * scale
        elif poln_select == 2:
            data = sdata[:, 0:2, :]
        elif poln_select == 3:
            data = np.zeros(data_shape, dtype=np.float32)
            data = data + (sdata[:, 0, :] + sdata[:, 1, :]) * scale
        elif poln_select == 4:
            data = sdata
    elif self.sub_hdr.poln_state == "Stokes":
        data = sdata[:, 0, :]
    elif self.sub_hdr.poln_state == "Intensity":
        data = sdata[:, 0, :]
    return data
''',
    "quantize": '''
def quantize(self, arr_norm):
    arr = (arr_norm * self.digi_scale) + self.digi_mean + 0.5
    arr = arr.astype(np.int32)
    np.clip(arr, self.digi_min, self.digi_max, out=arr)
    return arr.astype(self.dtype, copy=False)
''',
    "cread": '''
def cread(self, nunits):
    if self.ifile_cur is None:
        raise OSError("No file is open for reading")
    count = nunits // self.bitsinfo.bitfact
    data = []
    while count >= 0:
        count_read = min(self.sinfo.entries[self.ifile_cur].datalen, count)
        data_read = np.fromfile(self.file_obj, count=count_read, dtype=self.bitsinfo.dtype)
        count -= len(data_read)
        data.append(data_read)
        if count == 0:
            break
        self._seek2hdr(self.ifile_cur + 1)
    data_ar = np.concatenate(data)
    if self.bitsinfo.unpack:
        return unpack(data_ar, self.bitsinfo.nbits, bitorder=self.bitsinfo.bitorder)
    return data_ar
''',
    "creadinto": '''
def creadinto(self, read_buffer, unpack_buffer=None):
    if self.ifile_cur is None:
        raise OSError("No file is open for reading")
    nbytes = 0
    read_buffer_view = memoryview(read_buffer)
    while True:
        nbytes_read = self.file_obj.readinto(read_buffer_view[nbytes:])
        if nbytes_read is None:
            raise BlockingIOError("file might in non-blocking mode")
        nbytes += nbytes_read
        if nbytes == len(read_buffer_view) or self.eos():
            break
        self._seek2hdr(self.ifile_cur + 1)
    if self.bitsinfo.unpack and unpack_buffer is not None:
        read_ar = np.frombuffer(read_buffer_view, dtype=np.uint8)
        unpack_ar = np.frombuffer(memoryview(unpack_buffer), dtype=np.uint8)
        unpack(read_ar, self.bitsinfo.nbits, unpack_ar, bitorder=self.bitsinfo.bitorder)
    elif self.bitsinfo.unpack:
        raise ValueError("unpack_buffer should be provided when unpacking")
    return nbytes
''',
    "apply_along_axes": '''
def apply_along_axes(func, data, axis=None):
    if axis is None:
        return func(data.ravel())
    if isinstance(axis, int):
        axis = (axis,)
    axis = tuple(ax % data.ndim for ax in axis)
    moved_data = np.moveaxis(data, axis, range(len(axis)))
    reshaped_data = moved_data.reshape(-1, *moved_data.shape[len(axis):])
    return np.apply_along_axis(func, axis=0, arr=reshaped_data)
''',
    "parse_radec": '''
def parse_radec(src_raj, src_dej):
    ho, mi = divmod(src_raj, 10000)
    mi, se = divmod(mi, 100)
    sign = "-" if src_dej < 0 else "+"
    de, ami = divmod(abs(src_dej), 10000)
    ami, ase = divmod(ami, 100)
    radec_str = f"{int(ho)} {int(mi)} {se} {sign}{int(de)} {int(ami)} {ase}"
    return SkyCoord(radec_str, unit=(units.hourangle, units.deg))
''',
    "eos": '''
def eos(self):
    eof = self.file_obj.tell() == os.fstat(self.file_obj.fileno()).st_size
    eol = self.ifile_cur == len(self.files) - 1
    return eof & eol
''',
    "parse_header": '''
def parse_header(filename):
    filepath = validate_path(filename)
    with filepath.open("rb") as fp:
        header = {}
        try:
            key = _read_string(fp)
        except struct.error:
            raise OSError("empty") from None
        if key != "HEADER_START":
            raise OSError("not sigproc")
        while True:
            key = _read_string(fp)
            if key == "HEADER_END":
                break
            key_fmt = header_keys[key]
            if key_fmt == "str":
                header[key] = _read_string(fp)
            else:
                header[key] = struct.unpack(key_fmt, fp.read(struct.calcsize(key_fmt)))[0]
        header["hdrlen"] = fp.tell()
        fp.seek(0, 2)
        header["filelen"] = fp.tell()
        header["datalen"] = int(header["filelen"]) - int(header["hdrlen"])
        header["nsamples"] = 8 * int(header["datalen"]) // int(header["nbits"]) // int(header["nchans"])
        fp.seek(0)
        header["filename"] = filepath.as_posix()
    return header
''',
    "_read_string": '''
def _read_string(fp):
    strlen = struct.unpack("I", fp.read(struct.calcsize("I")))[0]
    return fp.read(strlen).decode()
''',
    "encode_key": '''
def encode_key(key, value=None, value_type="str"):
    if value is None:
        return struct.pack("I", len(key.encode())) + key.encode()
    if value_type == "str" and isinstance(value, str):
        return struct.pack("I", len(key.encode())) + key.encode() + struct.pack("I", len(value.encode())) + value.encode()
    return struct.pack("I", len(key.encode())) + key.encode() + struct.pack(value_type, value)
''',
    "encode_header": '''
def encode_header(header):
    hdr_encoded = encode_key("HEADER_START")
    for key, value in header.items():
        if key not in header_keys:
            continue
        hdr_encoded += encode_key(key, value=value, value_type=header_keys[key])
    hdr_encoded += encode_key("HEADER_END")
    return hdr_encoded
''',
    "compute_online_moments_basic": '''
def compute_online_moments_basic(array, moments, startflag=0):
    nchans = moments.shape[0]
    nsamps = array.shape[0] // nchans
    if startflag == 0:
        for c in range(nchans):
            moments[c]["min"] = array[c]
            moments[c]["max"] = array[c]
    for c in range(nchans):
        m1, m2 = moments[c]["m1"], moments[c]["m2"]
        count = moments[c]["count"]
        min_val, max_val = moments[c]["min"], moments[c]["max"]
        for t in range(nsamps):
            val = array[t * nchans + c]
            m1, m2, count = update_moments_basic(val, m1, m2, count)
            min_val = min(min_val, val)
            max_val = max(max_val, val)
        moments[c]["m1"], moments[c]["m2"] = m1, m2
        moments[c]["count"] = count
        moments[c]["min"], moments[c]["max"] = min_val, max_val
''',
    "compute_online_moments": '''
def compute_online_moments(array, moments, startflag=0):
    nchans = moments.shape[0]
    nsamps = array.shape[0] // nchans
    if startflag == 0:
        for c in range(nchans):
            moments[c]["min"] = array[c]
            moments[c]["max"] = array[c]
    for c in range(nchans):
        m1, m2, m3, m4 = moments[c]["m1"], moments[c]["m2"], moments[c]["m3"], moments[c]["m4"]
        count = moments[c]["count"]
        min_val, max_val = moments[c]["min"], moments[c]["max"]
        for t in range(nsamps):
            val = array[t * nchans + c]
            m1, m2, m3, m4, count = update_moments(val, m1, m2, m3, m4, count)
            min_val = min(min_val, val)
            max_val = max(max_val, val)
        moments[c]["m1"], moments[c]["m2"], moments[c]["m3"], moments[c]["m4"] = m1, m2, m3, m4
        moments[c]["count"] = count
        moments[c]["min"], moments[c]["max"] = min_val, max_val
''',
}


class _Rename(ast.NodeTransformer):
    def __init__(self, mapping: dict[str, str]):
        self.m = mapping

    def visit_Name(self, node: ast.Name):  # noqa: N802
        if node.id in self.m:
            return ast.copy_location(ast.Name(id=self.m[node.id], ctx=node.ctx), node)
        return node

    def visit_arg(self, node: ast.arg):
        if node.arg in self.m:
            node.arg = self.m[node.arg]
        return node


def _func_from_source(src: str, name: str) -> ast.FunctionDef:
    tree = ast.parse(textwrap.dedent(src))
    fn = [n for n in tree.body if isinstance(n, ast.FunctionDef)][0]
    return fn


class _FakeModule:
    name = "<spec>"
    rel = "<spec>"


def _fi(fn_node: ast.FunctionDef) -> FuncInfo:
    mod = ast.Module(body=[fn_node], type_ignores=[])
    ast.fix_missing_locations(mod)
    set_parents(mod)
    fi = FuncInfo.__new__(FuncInfo)
    fi.module = _FakeModule()
    fi.qualname = fn_node.name
    fi.node = fn_node
    fi.cls = None
    fi.name = fn_node.name
    fi.decorators = []
    fi.is_property = fi.is_classmethod = fi.is_staticmethod = fi.is_abstract = False
    fi.numba = None
    fi.twins = []
    return fi


def _strip(fn: ast.FunctionDef) -> ast.FunctionDef:
    """Copy without decorators, annotations, docstring."""
    new = clone(fn)
    new.decorator_list = []
    new.returns = None
    for a in new.args.posonlyargs + new.args.args + new.args.kwonlyargs:
        a.annotation = None
    new.args.args = new.args.posonlyargs + new.args.args + new.args.kwonlyargs
    new.args.posonlyargs, new.args.kwonlyargs, new.args.kw_defaults = [], [], []
    new.args.defaults = []
    if new.body and isinstance(new.body[0], ast.Expr) and isinstance(new.body[0].value, ast.Constant) \
            and isinstance(new.body[0].value.value, str):
        new.body = new.body[1:]

    class P(ast.NodeTransformer):
        def visit_Call(self, node):  # noqa: N802
            self.generic_visit(node)
            if dotted(node.func) in ("prange", "numba.prange"):
                node.func = ast.Name(id="range", ctx=ast.Load())
            return node

        def visit_AnnAssign(self, node):  # noqa: N802
            self.generic_visit(node)
            if node.value is None:
                return None
            return self.visit_Assign(ast.copy_location(ast.Assign(targets=[node.target], value=node.value), node))

        def visit_Assign(self, node):  # noqa: N802
            self.generic_visit(node)
            v = node.value
            # `x = np.asarray(x)`: the same array under the same name
            if len(node.targets) == 1 and isinstance(node.targets[0], ast.Name) and isinstance(v, ast.Call) and \
                    dotted(v.func) in ("np.asarray", "np.asanyarray") and len(v.args) == 1 and not v.keywords and \
                    isinstance(v.args[0], ast.Name) and v.args[0].id == node.targets[0].id:
                return None
            return node

    return ast.fix_missing_locations(P().visit(new))


_TERMINATORS = (ast.Raise, ast.Return, ast.Break, ast.Continue)
_POSITIVE = {ast.NotEq: ast.Eq, ast.IsNot: ast.Is, ast.NotIn: ast.In}


def _terminates(stmts: list[ast.stmt]) -> bool:
    if not stmts:
        return False
    last = stmts[-1]
    if isinstance(last, _TERMINATORS):
        return True
    if isinstance(last, ast.If):
        return _terminates(last.body) and _terminates(last.orelse)
    return False


def _only_terminator(stmts: list[ast.stmt]) -> bool:
    """A block that does nothing but leave (optionally building the error message first)."""
    if not stmts or not isinstance(stmts[-1], _TERMINATORS):
        return False
    return all(isinstance(s, ast.Assign) and isinstance(s.value, (ast.JoinedStr, ast.Constant)) for s in stmts[:-1])


def normalise_control(stmts: list[ast.stmt]) -> list[ast.stmt]:
    """Control-flow normal form, so that equivalent spellings of a guard give the same effects-in-context:
    negated tests swap their branches; `if a or b: leave` is `if a: leave` then `if b: leave`; when one branch of an
    `if` always leaves (raise/return/break/continue) the statements after the `if` belong to the other branch."""
    out: list[ast.stmt] = []
    for i, st in enumerate(stmts):
        if isinstance(st, ast.If):
            test, body, orelse = st.test, list(st.body), list(st.orelse)
            while True:
                if isinstance(test, ast.UnaryOp) and isinstance(test.op, ast.Not):
                    test, body, orelse = test.operand, orelse, body
                    continue
                if isinstance(test, ast.Compare) and len(test.ops) == 1 and type(test.ops[0]) in _POSITIVE:
                    test = ast.copy_location(ast.Compare(left=test.left, ops=[_POSITIVE[type(test.ops[0])]()], comparators=test.comparators), test)
                    body, orelse = orelse, body
                    continue
                break
            rest = list(stmts[i + 1:])
            if isinstance(test, ast.Compare) and len(test.ops) == 1 and isinstance(test.ops[0], ast.In) and \
                    isinstance(test.comparators[0], (ast.Tuple, ast.List, ast.Set)) and 1 < len(test.comparators[0].elts) <= 6 and \
                    all(isinstance(x, ast.Constant) for x in test.comparators[0].elts) and isinstance(test.left, (ast.Name, ast.Attribute)) and \
                    body and not _only_terminator(body) and not _only_terminator(orelse):
                # x in (a, b) is x == a or x == b
                test = ast.copy_location(ast.BoolOp(op=ast.Or(), values=[
                    ast.Compare(left=clone(test.left), ops=[ast.Eq()], comparators=[clone(x)]) for x in test.comparators[0].elts]), test)
                ast.fix_missing_locations(test)
            if isinstance(test, ast.BoolOp) and isinstance(test.op, ast.Or) and not _only_terminator(body) and _size(body) <= 8 and \
                    all(isinstance(v, ast.Compare) for v in test.values):
                # if a or b: X else: E  ==  if a: X else: (if b: X else: E)   (X is small: it is analysed once per alternative)
                inner = orelse
                for v in reversed(test.values):
                    inner = [ast.copy_location(ast.If(test=v, body=clone_block(body), orelse=inner), st)]
                return out + normalise_control(inner + rest)
            if isinstance(test, ast.BoolOp) and isinstance(test.op, ast.Or) and _only_terminator(body):
                # if a or b: T else: E  ==  if a: T else: (if b: T else: E)
                inner: list[ast.stmt] = orelse
                for v in reversed(test.values):
                    inner = [ast.copy_location(ast.If(test=v, body=clone_block(body), orelse=inner), st)]
                return out + normalise_control(inner + rest)
            if isinstance(test, ast.BoolOp) and isinstance(test.op, ast.And) and orelse and not _only_terminator(orelse) and _size(orelse) <= 6:
                # if a and b: X else: E  ==  if a: (if b: X else: E) else: E   (E is small)
                inner = body
                for v in reversed(test.values):
                    inner = [ast.copy_location(ast.If(test=v, body=inner, orelse=clone_block(orelse)), st)]
                return out + normalise_control(inner + rest)
            if isinstance(test, ast.BoolOp) and isinstance(test.op, ast.And) and _only_terminator(orelse):
                # if a and b: X else: T  ==  if a: (if b: X else: T) else: T
                inner = body
                for v in reversed(test.values):
                    inner = [ast.copy_location(ast.If(test=v, body=inner, orelse=clone_block(orelse)), st)]
                return out + normalise_control(inner + rest)
            if not body:
                body = []
            if _terminates(normalise_control(body)) and not _terminates(normalise_control(orelse)):
                out.append(ast.copy_location(ast.If(test=test, body=normalise_control(body) or [ast.Pass()],
                                                    orelse=normalise_control(orelse + rest)), st))
                return out
            if _terminates(normalise_control(orelse)) and not _terminates(normalise_control(body)):
                out.append(ast.copy_location(ast.If(test=test, body=normalise_control(body + rest) or [ast.Pass()],
                                                    orelse=normalise_control(orelse)), st))
                return out
            if rest and _merges_local(body, orelse, rest) and _size(rest) <= TAIL_DUP_LIMIT:
                # a local assigned differently on the two branches and used afterwards: the statements that follow are
                # analysed once per branch (tail duplication), so each use sees one definition
                out.append(ast.copy_location(ast.If(test=test, body=normalise_control(body + clone_block(rest)) or [ast.Pass()],
                                                    orelse=normalise_control(orelse + clone_block(rest)) or [ast.Pass()]), st))
                return out
            out.append(ast.copy_location(ast.If(test=test, body=normalise_control(body) or [ast.Pass()], orelse=normalise_control(orelse)), st))
            continue
        if isinstance(st, (ast.For, ast.While)):
            st.body = normalise_control(st.body)
            st.orelse = normalise_control(st.orelse)
        elif isinstance(st, ast.With):
            st.body = normalise_control(st.body)
        elif isinstance(st, ast.Try):
            st.body = normalise_control(st.body)
            st.orelse = normalise_control(st.orelse)
            st.finalbody = normalise_control(st.finalbody)
            for h in st.handlers:
                h.body = normalise_control(h.body)
        out.append(st)
    return out


TAIL_DUP_LIMIT = 14


def _size(stmts: list[ast.stmt]) -> int:
    return sum(1 for s in stmts for n in ast.walk(s) if isinstance(n, ast.stmt))


def _merges_local(body: list[ast.stmt], orelse: list[ast.stmt], rest: list[ast.stmt]) -> bool:
    stored = {n.id for s in body + orelse for n in ast.walk(s) if isinstance(n, ast.Name) and isinstance(n.ctx, ast.Store)}
    if not stored:
        return False
    # names bound by loops / augmented assignments inside the branches are not simple merges
    loopish = {n.id for s in body + orelse for l in ast.walk(s) if isinstance(l, (ast.For, ast.While, ast.AugAssign))
               for n in ast.walk(l) if isinstance(n, ast.Name) and isinstance(n.ctx, ast.Store)}
    stored -= loopish
    return any(isinstance(n, ast.Name) and isinstance(n.ctx, ast.Load) and n.id in stored for s in rest for n in ast.walk(s))


def clone_block(stmts: list[ast.stmt]) -> list[ast.stmt]:
    return [clone(s) for s in stmts]


def _strip_tail_continue(stmts: list[ast.stmt]) -> list[ast.stmt]:
    """`continue` as the last thing a loop iteration does is a no-op."""
    if not stmts:
        return stmts
    last = stmts[-1]
    if isinstance(last, ast.Continue):
        return _strip_tail_continue(stmts[:-1])
    if isinstance(last, ast.If):
        last.body = _strip_tail_continue(last.body) or [ast.Pass()]
        last.orelse = _strip_tail_continue(last.orelse)
        if all(isinstance(x, ast.Pass) for x in last.body) and not last.orelse:
            return _strip_tail_continue(stmts[:-1])
    return stmts


def _empty_container(v: ast.AST) -> str | None:
    """'list' / 'dict' / '<callee>' when v builds an empty container the loop then fills."""
    if isinstance(v, ast.List) and not v.elts:
        return "list"
    if isinstance(v, ast.Dict) and not v.keys:
        return "dict"
    if isinstance(v, ast.Call) and not v.args and not v.keywords:
        d = dotted(v.func) or ""
        if d == "list":
            return "list"
        if d == "dict":
            return "dict"
        if d.split(".")[-1] == "List":
            return "call:" + d
    return None


def _collect_loop(st: ast.For, out: list[ast.stmt]) -> bool:
    """`xs = []` ... `for v in it: [temps;] [if c:] xs.append(e) | d[k] = e` (one statement per container, nothing else in
    the body, nothing touching the containers in between)  ==  comprehensions.  Rewrites `out` in place."""
    body = list(st.body)
    flt = None
    if len(body) == 1 and isinstance(body[0], ast.If) and not body[0].orelse:
        flt = body[0].test
        body = list(body[0].body)
    elif len(body) >= 2 and isinstance(body[0], ast.If) and not body[0].orelse and len(body[0].body) == 1 and isinstance(body[0].body[0], ast.Continue):
        # `if skip: continue` in front of the fill is the filter `not skip`
        t_ = body[0].test
        flt = t_.operand if isinstance(t_, ast.UnaryOp) and isinstance(t_.op, ast.Not) else ast.UnaryOp(op=ast.Not(), operand=t_)
        if isinstance(t_, ast.Compare) and len(t_.ops) == 1 and isinstance(t_.ops[0], (ast.NotIn, ast.In, ast.Eq, ast.NotEq, ast.Is, ast.IsNot)):
            inv = {ast.NotIn: ast.In, ast.In: ast.NotIn, ast.Eq: ast.NotEq, ast.NotEq: ast.Eq, ast.Is: ast.IsNot, ast.IsNot: ast.Is}[type(t_.ops[0])]
            flt = ast.Compare(left=t_.left, ops=[inv()], comparators=t_.comparators)
        body = body[1:]
    temps = {}
    fills: list[tuple[str, str, ast.AST, ast.AST | None]] = []   # (container, kind, value, key)
    for b in body:
        if isinstance(b, ast.Assign) and len(b.targets) == 1 and isinstance(b.targets[0], ast.Name) and not fills:
            temps[b.targets[0].id] = b.value
        elif isinstance(b, ast.Expr) and isinstance(b.value, ast.Call) and isinstance(b.value.func, ast.Attribute) and b.value.func.attr == "append" \
                and isinstance(b.value.func.value, ast.Name) and len(b.value.args) == 1 and not b.value.keywords:
            fills.append((b.value.func.value.id, "append", b.value.args[0], None))
        elif isinstance(b, ast.Assign) and len(b.targets) == 1 and isinstance(b.targets[0], ast.Subscript) and isinstance(b.targets[0].value, ast.Name) \
                and not isinstance(b.targets[0].slice, (ast.Slice, ast.Tuple)):
            fills.append((b.targets[0].value.id, "setitem", b.value, b.targets[0].slice))
        else:
            return False
    names = [f[0] for f in fills]
    if not fills or len(set(names)) != len(names) or any(n in temps for n in names):
        return False
    # every container is initialised empty earlier in this block and not mentioned in between; mentioned once in the loop
    inits: dict[str, int] = {}
    for name, kind, _, _ in fills:
        mentions = sum(1 for b in st.body for n in ast.walk(b) if isinstance(n, ast.Name) and n.id == name)
        if mentions != 1 or any(isinstance(n, ast.Name) and n.id == name for n in ast.walk(st.iter)):
            return False
        idx = None
        for j in range(len(out) - 1, -1, -1):
            o = out[j]
            if isinstance(o, ast.Assign) and len(o.targets) == 1 and isinstance(o.targets[0], ast.Name) and o.targets[0].id == name:
                ec = _empty_container(o.value)
                if ec is not None and ((kind == "append") == (ec != "dict")):
                    idx = j
                break
            if any(isinstance(n, ast.Name) and n.id == name for n in ast.walk(o)):
                break
        if idx is None:
            return False
        inits[name] = idx

    def subst(e: ast.AST) -> ast.AST:
        e = clone(e)
        for _ in range(len(temps) + 1):
            class S(ast.NodeTransformer):
                def visit_Name(self, node):  # noqa: N802
                    if isinstance(node.ctx, ast.Load) and node.id in temps:
                        return clone(temps[node.id])
                    return node
            e = S().visit(e)
        return e

    for name, kind, value, key in fills:
        gen = ast.comprehension(target=clone(st.target), iter=clone(st.iter), ifs=[subst(flt)] if flt is not None else [], is_async=0)
        init = out[inits[name]]
        ec = _empty_container(init.value)
        if kind == "append":
            comp: ast.AST = ast.ListComp(elt=subst(value), generators=[gen])
            if ec.startswith("call:"):
                comp = ast.Call(func=clone(init.value.func), args=[comp], keywords=[])
        else:
            comp = ast.DictComp(key=subst(key), value=subst(value), generators=[gen])
        out[inits[name]] = ast.fix_missing_locations(ast.copy_location(ast.Assign(targets=[ast.Name(id=name, ctx=ast.Store())], value=comp), init))
    return True


def _loops_to_comprehensions(stmts: list[ast.stmt]) -> list[ast.stmt]:
    """`xs = []` ... `for v in it: [temps;] xs.append(e)`  ==  `xs = [e for v in it]` (nothing touches xs in between)."""
    out: list[ast.stmt] = []
    for st in stmts:
        for field in ("body", "orelse", "finalbody"):
            sub = getattr(st, field, None)
            if isinstance(sub, list) and sub and isinstance(sub[0], ast.stmt) and not isinstance(st, (ast.FunctionDef, ast.ClassDef)):
                setattr(st, field, _loops_to_comprehensions(sub))
        if isinstance(st, ast.Try):
            for h in st.handlers:
                h.body = _loops_to_comprehensions(h.body)
        if isinstance(st, ast.For) and not st.orelse and st.body:
            conv = _collect_loop(st, out)
            if conv:
                continue
        if isinstance(st, ast.For) and not st.orelse and st.body:
            body = list(st.body)
            flt = None
            if len(body) >= 2 and isinstance(body[0], ast.If) and not body[0].orelse and len(body[0].body) == 1 and isinstance(body[0].body[0], ast.Continue):
                flt = ast.UnaryOp(op=ast.Not(), operand=body[0].test)
                body = body[1:]
            elif len(body) == 1 and isinstance(body[0], ast.If) and not body[0].orelse and body[0].body and isinstance(body[0].body[-1], ast.AugAssign):
                flt = body[0].test
                body = list(body[0].body)
            temps_ = {}
            if len(body) > 1 and all(isinstance(b, ast.Assign) and len(b.targets) == 1 and isinstance(b.targets[0], ast.Name) for b in body[:-1]):
                temps_ = {b.targets[0].id: b.value for b in body[:-1]}
                body = body[-1:]
            tgt_ = body[0].target if len(body) == 1 and isinstance(body[0], ast.AugAssign) and isinstance(body[0].op, ast.Add) else None
            loopvars_ = {n.id for n in ast.walk(st.target) if isinstance(n, ast.Name)}
            # an accumulator cell `acc[k]` whose index does not move with this loop folds like a scalar accumulator
            cell_ = isinstance(tgt_, ast.Subscript) and isinstance(tgt_.value, ast.Name) and not isinstance(tgt_.slice, ast.Slice) and \
                not ({n.id for n in ast.walk(tgt_.slice) if isinstance(n, ast.Name)} & (loopvars_ | set(temps_)))
            if tgt_ is not None and (isinstance(tgt_, ast.Name) or cell_) and (tgt_.id if isinstance(tgt_, ast.Name) else tgt_.value.id) not in temps_:
                name = tgt_.id if isinstance(tgt_, ast.Name) else tgt_.value.id
                mentions = sum(1 for b in st.body for n in ast.walk(b) if isinstance(n, ast.Name) and n.id == name)
                if mentions == 1 and not any(isinstance(n, ast.Name) and n.id == name for n in ast.walk(st.iter)):
                    elt = clone(body[0].value)
                    for _ in range(len(temps_) + 1):
                        class S2(ast.NodeTransformer):
                            def visit_Name(self, node):  # noqa: N802
                                if isinstance(node.ctx, ast.Load) and node.id in temps_:
                                    return clone(temps_[node.id])
                                return node
                        elt = S2().visit(elt)
                    comp = ast.ListComp(elt=elt, generators=[ast.comprehension(
                        target=clone(st.target), iter=clone(st.iter), ifs=[flt] if flt is not None else [], is_async=0)])
                    new = ast.AugAssign(target=ast.Name(id=name, ctx=ast.Store()) if isinstance(tgt_, ast.Name) else clone(tgt_), op=ast.Add(),
                                        value=ast.Call(func=ast.Name(id="sum", ctx=ast.Load()), args=[comp], keywords=[]))
                    out.append(ast.fix_missing_locations(ast.copy_location(new, st)))
                    continue
        out.append(st)
    return out


def _simple_sequence(e: ast.AST) -> bool:
    """A plain name / attribute chain / constant-free subscript of those: re-evaluating it is harmless."""
    if isinstance(e, ast.Name):
        return True
    if isinstance(e, ast.Attribute):
        return _simple_sequence(e.value)
    if isinstance(e, ast.Subscript):
        return _simple_sequence(e.value) and all(isinstance(n, (ast.Name, ast.Constant, ast.Slice, ast.Tuple, ast.Subscript, ast.Load, ast.Attribute, ast.UnaryOp,
                                                                ast.USub, ast.BinOp, ast.Add, ast.Sub, ast.Mult)) for n in ast.walk(e.slice))
    return False


_FRESH = [0]


def _index_loops(stmts: list[ast.stmt]) -> list[ast.stmt]:
    """`for i, x in enumerate(S)` and `for a, b in zip(A, B)` over plain sequences are index loops:
    `for i in range(len(S)): x = S[i]`."""
    for st in stmts:
        for field in ("body", "orelse", "finalbody"):
            sub = getattr(st, field, None)
            if isinstance(sub, list) and sub and isinstance(sub[0], ast.stmt) and not isinstance(st, (ast.FunctionDef, ast.ClassDef)):
                setattr(st, field, _index_loops(sub))
        if isinstance(st, ast.Try):
            for h in st.handlers:
                h.body = _index_loops(h.body)
        if not (isinstance(st, ast.For) and isinstance(st.iter, ast.Call) and not st.orelse):
            continue
        fn_ = dotted(st.iter.func)
        if fn_ == "enumerate" and isinstance(st.target, ast.Tuple) and len(st.target.elts) == 2 and isinstance(st.target.elts[0], ast.Name) and \
                1 <= len(st.iter.args) <= 2 and _simple_sequence(st.iter.args[0]):
            seq = st.iter.args[0]
            start = st.iter.args[1] if len(st.iter.args) == 2 else next((k.value for k in st.iter.keywords if k.arg == "start"), None)
            idx = st.target.elts[0].id
            pre: list[ast.stmt] = []
            loopvar = idx
            if start is not None:
                _FRESH[0] += 1
                loopvar = f"_e{_FRESH[0]}"
                pre.append(ast.Assign(targets=[ast.Name(id=idx, ctx=ast.Store())],
                                      value=ast.BinOp(left=ast.Name(id=loopvar, ctx=ast.Load()), op=ast.Add(), right=clone(start))))
            pre.append(ast.Assign(targets=[clone(st.target.elts[1])], value=ast.Subscript(value=clone(seq), slice=ast.Name(id=loopvar, ctx=ast.Load()), ctx=ast.Load())))
            st.target = ast.Name(id=loopvar, ctx=ast.Store())
            st.iter = ast.Call(func=ast.Name(id="range", ctx=ast.Load()), args=[ast.Call(func=ast.Name(id="len", ctx=ast.Load()), args=[clone(seq)], keywords=[])], keywords=[])
            st.body = pre + st.body
            ast.fix_missing_locations(st)
        elif fn_ == "zip" and isinstance(st.target, ast.Tuple) and len(st.target.elts) == len(st.iter.args) >= 2 and \
                all(_simple_sequence(a) for a in st.iter.args) and all(k.arg == "strict" for k in st.iter.keywords):
            _FRESH[0] += 1
            loopvar = f"_z{_FRESH[0]}"
            pre = [ast.Assign(targets=[clone(t)], value=ast.Subscript(value=clone(a), slice=ast.Name(id=loopvar, ctx=ast.Load()), ctx=ast.Load()))
                   for t, a in zip(st.target.elts, st.iter.args)]
            first = st.iter.args[0]
            st.target = ast.Name(id=loopvar, ctx=ast.Store())
            st.iter = ast.Call(func=ast.Name(id="range", ctx=ast.Load()), args=[ast.Call(func=ast.Name(id="len", ctx=ast.Load()), args=[clone(first)], keywords=[])], keywords=[])
            st.body = pre + st.body
            ast.fix_missing_locations(st)
    return stmts


def _lookup_guards(stmts: list[ast.stmt]) -> list[ast.stmt]:
    """`try: t = D[k]` / `except KeyError: <leave>`  is  `if k not in D: <leave>` followed by `t = D[k]`."""
    out: list[ast.stmt] = []
    for st in stmts:
        for field in ("body", "orelse", "finalbody"):
            sub = getattr(st, field, None)
            if isinstance(sub, list) and sub and isinstance(sub[0], ast.stmt) and not isinstance(st, (ast.FunctionDef, ast.ClassDef)):
                setattr(st, field, _lookup_guards(sub))
        if isinstance(st, ast.Try) and len(st.body) == 1 and isinstance(st.body[0], ast.Assign) and isinstance(st.body[0].value, ast.Subscript) \
                and len(st.handlers) == 1 and dotted(st.handlers[0].type) == "KeyError" and st.handlers[0].name is None \
                and not st.orelse and not st.finalbody and _terminates(st.handlers[0].body) and \
                isinstance(st.body[0].value.value, (ast.Name, ast.Attribute)) and not isinstance(st.body[0].value.slice, (ast.Slice, ast.Tuple)):
            sub_ = st.body[0].value
            guard = ast.If(test=ast.Compare(left=clone(sub_.slice), ops=[ast.NotIn()], comparators=[clone(sub_.value)]),
                           body=st.handlers[0].body, orelse=[])
            out.append(ast.fix_missing_locations(ast.copy_location(guard, st)))
            out.append(st.body[0])
            continue
        out.append(st)
    return out


def _ifexp_statements(stmts: list[ast.stmt]) -> list[ast.stmt]:
    """`x = a if c else b` is `if c: x = a` / `else: x = b` (and likewise for `return`): one spelling for both."""
    out: list[ast.stmt] = []
    for st in stmts:
        for field in ("body", "orelse", "finalbody"):
            sub = getattr(st, field, None)
            if isinstance(sub, list) and sub and isinstance(sub[0], ast.stmt) and not isinstance(st, (ast.FunctionDef, ast.ClassDef)):
                setattr(st, field, _ifexp_statements(sub))
        if isinstance(st, ast.Try):
            for h in st.handlers:
                h.body = _ifexp_statements(h.body)
        if isinstance(st, ast.Assign) and len(st.targets) == 1 and isinstance(st.targets[0], ast.Name) and isinstance(st.value, ast.IfExp):
            v = st.value
            new = ast.If(test=v.test, body=_ifexp_statements([ast.Assign(targets=[clone(st.targets[0])], value=v.body)]),
                         orelse=_ifexp_statements([ast.Assign(targets=[clone(st.targets[0])], value=v.orelse)]))
            out.append(ast.fix_missing_locations(ast.copy_location(new, st)))
        elif isinstance(st, ast.Return) and isinstance(st.value, ast.IfExp):
            v = st.value
            new = ast.If(test=v.test, body=_ifexp_statements([ast.Return(value=v.body)]), orelse=_ifexp_statements([ast.Return(value=v.orelse)]))
            out.append(ast.fix_missing_locations(ast.copy_location(new, st)))
        else:
            out.append(st)
    return out


def _normalise_loops(stmts: list[ast.stmt]) -> list[ast.stmt]:
    for st in stmts:
        for n in ast.walk(st):
            if isinstance(n, (ast.For, ast.While)):
                n.body = _strip_tail_continue(n.body) or [ast.Pass()]
    return _straightline_updates(stmts, in_loop=False)


def _straightline_updates(stmts: list[ast.stmt], in_loop: bool) -> list[ast.stmt]:
    """Outside loops `x += e` on a local name is `x = x + e` (a chain of plain definitions that is substituted away)."""
    out = []
    fresh: set[str] = set()    # names given a plain definition earlier in this very block: their updates are straight-line too
    for st in stmts:
        inner_loop = in_loop or isinstance(st, (ast.For, ast.While))
        for field in ("body", "orelse", "finalbody"):
            sub = getattr(st, field, None)
            if isinstance(sub, list) and sub and isinstance(sub[0], ast.stmt) and not isinstance(st, (ast.FunctionDef, ast.ClassDef)):
                setattr(st, field, _straightline_updates(sub, inner_loop))
        if isinstance(st, ast.Try):
            for h in st.handlers:
                h.body = _straightline_updates(h.body, in_loop)
        if isinstance(st, ast.Assign) and len(st.targets) == 1 and isinstance(st.targets[0], ast.Name):
            fresh.add(st.targets[0].id)
        if isinstance(st, ast.AugAssign) and isinstance(st.target, ast.Name) and isinstance(st.op, (ast.Add, ast.Sub, ast.Mult)) \
                and (not in_loop or st.target.id in fresh):
            new = ast.Assign(targets=[ast.Name(id=st.target.id, ctx=ast.Store())],
                             value=ast.BinOp(left=ast.Name(id=st.target.id, ctx=ast.Load()), op=st.op, right=st.value))
            out.append(ast.fix_missing_locations(ast.copy_location(new, st)))
        else:
            out.append(st)
    return out


class _Subst(ast.NodeTransformer):
    def __init__(self, values: dict[str, ast.AST]):
        self.values = values

    def visit_Name(self, node):  # noqa: N802
        if node.id in self.values and isinstance(node.ctx, ast.Load):
            return ast.copy_location(clone(self.values[node.id]), node)
        return node


def _fold_constants(fn: ast.FunctionDef) -> ast.FunctionDef:
    """Boolean constants introduced by fixing defaulted parameters: `x and True` is x, `if False:` selects the else branch."""
    class F(ast.NodeTransformer):
        def visit_BoolOp(self, node):  # noqa: N802
            self.generic_visit(node)
            is_and = isinstance(node.op, ast.And)
            vals = []
            for v in node.values:
                if isinstance(v, ast.Constant) and isinstance(v.value, bool):
                    if v.value == is_and:
                        continue          # neutral element
                    return ast.copy_location(ast.Constant(value=not is_and), node)   # absorbing element
                vals.append(v)
            if not vals:
                return ast.copy_location(ast.Constant(value=is_and), node)
            return vals[0] if len(vals) == 1 else ast.copy_location(ast.BoolOp(op=node.op, values=vals), node)

        def visit_UnaryOp(self, node):  # noqa: N802
            self.generic_visit(node)
            if isinstance(node.op, ast.Not) and isinstance(node.operand, ast.Constant) and isinstance(node.operand.value, bool):
                return ast.copy_location(ast.Constant(value=not node.operand.value), node)
            return node

        def visit_If(self, node):  # noqa: N802
            self.generic_visit(node)
            if isinstance(node.test, ast.Constant) and isinstance(node.test.value, bool):
                return node.body if node.test.value else (node.orelse or [ast.Pass()])
            return node

        def visit_IfExp(self, node):  # noqa: N802
            self.generic_visit(node)
            if isinstance(node.test, ast.Constant) and isinstance(node.test.value, bool):
                return node.body if node.test.value else node.orelse
            return node

    return F().visit(fn)


class Signature:
    def __init__(self, fn_node: ast.FunctionDef, roles: list[str] | None, lenient: bool = False, owner_cls=None):
        from . import poly as _poly
        prev = _poly.SIGNATURE_MODE[0]
        _poly.SIGNATURE_MODE[0] = True
        self.owner_cls = owner_cls
        try:
            self._build(fn_node, roles, lenient)
        finally:
            _poly.SIGNATURE_MODE[0] = prev

    def _build(self, fn_node: ast.FunctionDef, roles: list[str] | None, lenient: bool) -> None:
        self.lenient = lenient
        fn = _strip(fn_node)
        _FRESH[0] = 0
        fn.body = _index_loops(fn.body)
        fn.body = _lookup_guards(fn.body)
        fn.body = _loops_to_comprehensions(fn.body)
        fn.body = _ifexp_statements(fn.body)
        fn.body = _normalise_loops(normalise_control(fn.body) or [ast.Pass()])
        ast.fix_missing_locations(fn)
        params = [a.arg for a in fn.args.args]
        self.nparams = len(params)
        if roles is not None and len(params) > len(roles):
            # additional trailing parameters with constant defaults: the definition describes the default behaviour
            extra = params[len(roles):]
            a_ = fn_node.args
            names_ = [x.arg for x in (*a_.posonlyargs, *a_.args)]
            dflt = dict(zip(reversed(names_), reversed(a_.defaults)))
            dflt.update({k.arg: d for k, d in zip(a_.kwonlyargs, a_.kw_defaults) if d is not None})
            if all(isinstance(dflt.get(x), ast.Constant) for x in extra) and not any(
                    isinstance(n, ast.Name) and n.id in extra and isinstance(n.ctx, ast.Store) for n in ast.walk(fn)):
                fn = _fold_constants(_Subst({x: dflt[x] for x in extra}).visit(fn))
                fn.args.args = fn.args.args[:len(roles)]
                ast.fix_missing_locations(fn)
                params = params[:len(roles)]
                self.defaulted = extra
        if roles is not None:
            if len(roles) != len(params):
                raise AnalysisError(f"kernel {fn.name} has {len(params)} parameters, reference has {len(roles)}")
            fn = _Rename({p: r for p, r in zip(params, roles)}).visit(fn)
        self.params = roles if roles is not None else params
        # pass 1: loop extents
        fi = _fi(fn)
        flow = Flow(fi)
        loops = [n for n in ast.walk(fn) if isinstance(n, ast.For)]
        mapping: dict[str, str] = {}
        per_loop: list[tuple[ast.For, dict[str, str]]] = []
        self.skeleton = []
        lvars = set()
        for l in loops:
            for n in ast.walk(l.target):
                if isinstance(n, ast.Name):
                    lvars.add(n.id)
        for l in loops:
            tnames = [l.target.id] if isinstance(l.target, ast.Name) else (
                [e.id for e in l.target.elts] if isinstance(l.target, ast.Tuple) and all(isinstance(e, ast.Name) for e in l.target.elts) else None)
            if tnames is None:
                if lenient:
                    continue
                raise AnalysisError(f"kernel {fn.name}: loop target `{norm(l.target)}` is not a name or a tuple of names")
            penv = PolyEnv()
            if isinstance(l.iter, ast.Call) and dotted(l.iter.func) == "range" and len(tnames) == 1:
                exprs = [flow.expand(a, flow.node_for(l), stop=lvars) for a in l.iter.args]
                ext = penv.poly(exprs[0]).canon() if len(exprs) == 1 else "..".join(penv.poly(e).canon() for e in exprs)
            else:
                it = flow.expand(l.iter, flow.node_for(l), stop=lvars)
                ext = "in " + penv.atom_name(it)
            per_loop.append((l, {old: (f"L<{ext}>" if len(tnames) == 1 else f"L<{ext}>[{i}]") for i, old in enumerate(tnames)}))
        # each loop names its own variable(s): the same source name used by two loops with different extents stays distinct
        leaked = False
        comp_bound: set[int] = set()
        for cnode in ast.walk(fn):
            if isinstance(cnode, (ast.ListComp, ast.SetComp, ast.DictComp, ast.GeneratorExp)):
                bound = {n.id for g in cnode.generators for n in ast.walk(g.target) if isinstance(n, ast.Name)}
                comp_bound |= {id(n) for n in ast.walk(cnode) if isinstance(n, ast.Name) and n.id in bound}
        for l, m in sorted(per_loop, key=lambda x: -sum(1 for _ in ast.walk(x[0]))):
            # outer loops first (bigger subtrees); inner loops then rename what is theirs
            for name_, new_ in m.items():
                inside = {id(n) for n in ast.walk(l)}
                used_outside = any(isinstance(n, ast.Name) and n.id == name_ and id(n) not in inside and id(n) not in comp_bound and isinstance(n.ctx, ast.Load) and
                                   not any(id(n) in {id(x) for x in ast.walk(o)} for o, _ in per_loop if o is not l) for n in ast.walk(fn))
                if used_outside:
                    leaked = True
            _Rename(m).visit(l)
            mapping.update(m)
        if leaked and not lenient:
            raise AnalysisError(f"kernel {fn.name}: a loop variable is read after its loop")
        ast.fix_missing_locations(fn)
        # multi-definition locals by order of first binding
        fi = _fi(fn)
        flow = Flow(fi)
        order: list[str] = []
        counts: dict[str, int] = {}
        for d in flow.defs:
            if d.kind in ("assign", "aug", "unpack") and not d.var.startswith("L<"):
                counts[d.var] = counts.get(d.var, 0) + 1
                if d.var not in order:
                    order.append(d.var)
        def is_message(v: str) -> bool:
            ds = [dd for dd in flow.defs if dd.var == v]
            return bool(ds) and all(dd.kind == "assign" and isinstance(dd.value, (ast.JoinedStr, ast.Constant)) and
                                    (isinstance(dd.value, ast.JoinedStr) or isinstance(dd.value.value, str)) for dd in ds)

        self.messages = {v for v in order if is_message(v)}

        def transparent(v: str) -> bool:
            """Every read of v sees exactly one plain assignment: v is substituted wherever it is used."""
            if any(not (dd.kind == "assign" or (dd.kind == "unpack" and dd.index and all(isinstance(i, int) for i in dd.index)))
                   for dd in flow.defs if dd.var == v):
                return False
            for n in ast.walk(fn):
                if isinstance(n, ast.Name) and n.id == v and isinstance(n.ctx, ast.Load):
                    try:
                        at = flow.node_for(n)
                    except AnalysisError:
                        return False
                    ds = flow.reaching(v, at)
                    if len(ds) != 1 or ds[0].kind not in ("assign", "unpack"):
                        return False
            return True

        multi = [v for v in order if v not in self.messages and not transparent(v)]
        # numbered by what they are initialised with (other such locals masked), then by first binding: the numbering does
        # not depend on the order of independent initialisations
        import re as _re

        def init_text(v: str) -> str:
            first = next((dd for dd in flow.defs if dd.var == v and dd.kind in ("assign", "unpack", "aug") and dd.value is not None), None)
            if first is None:
                return "~"
            masked = _Rename({o: "__other__" for o in multi}).visit(clone(first.value))
            return norm(masked) + (str(first.index) if first.index else "")

        keyed = sorted(multi, key=lambda v: (init_text(v), order.index(v)))
        # only reorder when the initialisers are all distinct (ties keep program order among themselves anyway)
        multi = keyed
        fn = _Rename({v: f"$v{i}" for i, v in enumerate(multi)}).visit(fn)
        # returned / locally allocated arrays by order
        fi = _fi(fn)
        flow = Flow(fi)
        local_arrays = []
        for d in flow.defs:
            if d.kind == "assign" and isinstance(d.value, ast.Call) and (dotted(d.value.func) or "").startswith("np.") \
                    and d.var not in local_arrays and not d.var.startswith("$v") and \
                    any(dd.var == d.var and dd.kind in ("mutate", "aug") for dd in flow.defs):
                # an array that is filled / updated in place has an identity; one that is only computed and read is a value
                local_arrays.append(d.var)
        # locally constructed objects (class instances) keep their identity: they are named, never duplicated
        objects = []
        for d in flow.defs:
            if d.kind == "assign" and isinstance(d.value, ast.Call) and ((dotted(d.value.func) or "?").split(".")[-1][:1].isupper()) \
                    and d.var not in objects and d.var not in local_arrays and not d.var.startswith("$v") and \
                    sum(1 for dd in flow.defs if dd.var == d.var and dd.kind != "mutate") == 1:
                objects.append(d.var)
        self.objects = {f"$o{i}" for i in range(len(objects))}
        fn = _Rename({v: f"$o{i}" for i, v in enumerate(objects)}).visit(fn)
        fn = _Rename({v: f"$a{i}" for i, v in enumerate(local_arrays)}).visit(fn)
        self.fn = fn
        fi = _fi(fn)
        fi.cls = self.owner_cls     # lets the flow see which attributes of self a call on self may move (stale copies are not substituted)
        self.flow = Flow(fi)
        self.flow.absolute_versions = True
        self.loopvars = set(mapping.values())
        self.facts: set[tuple] = set()
        self.trace: list[tuple] = []   # the same effects in program order
        self._seq: dict[str, list] = {}
        self._collect(fn.body, ())

    @staticmethod
    def _simplify_ctx(ctx: tuple) -> tuple:
        """Conditions are a conjunction: runs of if/ifnot entries between loop entries are sorted, and `x != c2` is dropped
        where `x == c1` (another constant) is already known."""
        import re as _re
        out: list[str] = []
        run: list[str] = []

        def flush():
            eqs = {}
            for c in run:
                m = _re.fullmatch(r"if cmp\[Eq\]\((.+?), (.+)\)", c)
                if m:
                    eqs.setdefault(m.group(2), set()).add(m.group(1))
                    eqs.setdefault(m.group(1), set()).add(m.group(2))
            keep = []
            for c in run:
                m = _re.fullmatch(r"ifnot cmp\[Eq\]\((.+?), (.+)\)", c)
                if m:
                    a_, b_ = m.group(1), m.group(2)
                    lit = lambda t: bool(_re.fullmatch(r"-?\d+(\.\d+)?|'[^']*'", t))  # noqa: E731
                    implied = (lit(a_) and any(lit(o) and o != a_ for o in eqs.get(b_, ()))) or (lit(b_) and any(lit(o) and o != b_ for o in eqs.get(a_, ())))
                    if implied:
                        continue
                keep.append(c)
            out.extend(sorted(set(keep)))
            run.clear()

        for c in ctx:
            if c.startswith("if ") or c.startswith("ifnot "):
                run.append(c)
            else:
                flush()
                out.append(c)
        flush()
        return tuple(out)

    def _add(self, fact: tuple) -> None:
        # contexts in conjunction normal form
        if fact[0] == "set":
            fact = (*fact[:4], self._simplify_ctx(fact[4]), fact[5])
        elif fact[0] in ("ret", "expr", "stmt"):
            fact = (fact[0], fact[1], self._simplify_ctx(fact[2]))
        elif fact[0] == "raise":
            fact = ("raise", self._simplify_ctx(fact[1]))
        elif fact[0] in ("break", "continue"):
            fact = (fact[0], self._simplify_ctx(fact[1]), *fact[2:])
        ctx_ = fact[4] if fact[0] == "set" else fact[2] if fact[0] in ("ret", "expr", "stmt") else fact[1]
        if isinstance(ctx_, tuple) and any(c.startswith("if ") and ("ifnot " + c[3:]) in ctx_ for c in ctx_):
            return   # under contradictory conditions: never executed
        if fact[0] == "set" and fact[2] == "=":
            import re as _re
            if _re.sub(r"@[\d_]+", "", fact[3]) == fact[1]:
                return   # `x = x` (e.g. `x = np.asarray(x)` on an array): not an effect
        self.facts.add(fact)
        self.trace.append(fact)

    def _canon(self, e: ast.AST, at: ast.AST, keep: set[str] = frozenset()) -> str:
        stop = set(self.loopvars) | set(keep) | self.objects
        ex = self.flow.expand(e, self.flow.node_for(at), stop=stop)
        return PolyEnv().poly(ex).canon() if not isinstance(ex, (ast.Tuple,)) else "(" + ", ".join(
            PolyEnv().poly(x).canon() for x in ex.elts) + ")"

    def _target(self, t: ast.AST, at: ast.AST) -> str:
        if isinstance(t, ast.Subscript):
            penv = PolyEnv()
            ex = self.flow.expand(t, self.flow.node_for(at), stop=set(self.loopvars) | self.objects)
            return penv.atom_name(ex)
        return norm(t)

    def _as_update(self, target: str, value: ast.AST, at: ast.AST) -> str | None:
        """`t = t + e` (or `t = e + t`, `t = t - e`) is the update `t += e`: -> canonical e, else None."""
        stop = set(self.loopvars) | self.objects
        ex = self.flow.expand(value, self.flow.node_for(at), stop=stop)
        if isinstance(ex, ast.Tuple):
            return None
        try:
            p = PolyEnv().poly(ex)
        except Exception:
            return None
        import re as _re
        base = _re.sub(r"@[\d_]+", "", target)
        hits = [m for m, c in p.t.items() if c == 1 and len(m) == 1 and m[0][1] == 1 and _re.sub(r"@[\d_]+", "", m[0][0]) == base]
        if len(hits) != 1 or len(p.t) < 2:
            return None
        rest = Poly({k: v for k, v in p.t.items() if k != hits[0]})
        # the rest must not mention the target again (x = x + x*y is not a plain increment)
        if any(_re.sub(r"@[\d_]+", "", sym) == base for m in rest.t for sym, _ in m):
            return None
        return rest.canon()

    def _next(self, target: str, ctx: tuple = ()) -> int:
        """Position of this update among the earlier updates of the same target that can happen in the same run (their
        conditions do not contradict this one's): the order of successive updates of one variable/element is part of the
        function computed; updates on mutually exclusive branches are not ordered relative to each other."""
        import re as _re
        mine = self._simplify_ctx(ctx)
        seen = self._seq.setdefault(target, [])

        def contradict(a: tuple, b: tuple) -> bool:
            sa, sb = set(a), set(b)
            for c in sa:
                if c.startswith("if ") and ("ifnot " + c[3:]) in sb:
                    return True
                if c.startswith("ifnot ") and ("if " + c[6:]) in sb:
                    return True
                m = _re.fullmatch(r"if cmp\[Eq\]\((.+?), (.+)\)", c)
                if m:
                    for d in sb:
                        n = _re.fullmatch(r"if cmp\[Eq\]\((.+?), (.+)\)", d)
                        if n and n.group(2) == m.group(2) and n.group(1) != m.group(1) and \
                                _re.fullmatch(r"-?\d+(\.\d+)?|'[^']*'", n.group(1)) and _re.fullmatch(r"-?\d+(\.\d+)?|'[^']*'", m.group(1)):
                            return True
            return False

        k = sum(1 for other in seen if not contradict(mine, other))
        seen.append(mine)
        return k

    def _collect(self, stmts, ctx: tuple) -> None:
        for st in stmts:
            if isinstance(st, ast.For):
                ext = st.target.id if isinstance(st.target, ast.Name) else norm(st.target)
                self.skeleton.append(self._simplify_ctx(ctx) + (ext,))
                self._collect(st.body, ctx + (ext,))
            elif isinstance(st, ast.If):
                c = self._canon(st.test, st)
                self._collect(st.body, ctx + (f"if {c}",))
                self._collect(st.orelse, ctx + (f"ifnot {c}",))
            elif isinstance(st, ast.Assign):
                tgts = st.targets[0].elts if isinstance(st.targets[0], ast.Tuple) else [st.targets[0]]
                vals = st.value.elts if isinstance(st.value, ast.Tuple) and len(st.value.elts) == len(tgts) else None
                for i, t in enumerate(tgts):
                    if isinstance(t, ast.Name) and t.id in getattr(self, "messages", ()):
                        continue  # error-message text is not part of the computed function
                    if isinstance(t, ast.Name) and not t.id.startswith("$"):
                        # single-definition temporary: substituted where used; a stateful call whose result is never
                        # used still happened
                        if any(is_impure_call(x) for x in ast.walk(st.value)) and not any(
                                isinstance(n, ast.Name) and n.id == t.id and isinstance(n.ctx, ast.Load) for n in ast.walk(self.fn)):
                            self._add(("expr", self._canon(st.value, st), ctx))
                        continue
                    v = vals[i] if vals is not None else st.value
                    tag = ""
                    if vals is None and len(tgts) > 1:
                        # element i of the unpacked value, as an expression (so that divmod(a, b)[0] is a // b, ...)
                        v = ast.copy_location(ast.Subscript(value=st.value, slice=ast.Constant(i), ctx=ast.Load()), st.value)
                        ast.fix_missing_locations(v)
                    tt = self._target(t, st)
                    upd = self._as_update(tt, v, st) if not tag else None
                    if upd is not None:
                        self._add(("set", tt, "Add=", upd, ctx, self._next(tt, ctx)))
                    else:
                        self._add(("set", tt, "=", self._canon(v, st) + tag, ctx, self._next(tt, ctx)))
            elif isinstance(st, ast.AugAssign):
                tt = self._target(st.target, st)
                if isinstance(st.op, ast.Sub):
                    # x -= e is x += -e
                    neg = ast.copy_location(ast.UnaryOp(op=ast.USub(), operand=st.value), st.value)
                    ast.fix_missing_locations(neg)
                    stop = set(self.loopvars) | self.objects
                    ex = self.flow.expand(st.value, self.flow.node_for(st), stop=stop)
                    self._add(("set", tt, "Add=", (-PolyEnv().poly(ex)).canon(), ctx, self._next(tt, ctx)))
                else:
                    self._add(("set", tt, type(st.op).__name__ + "=", self._canon(st.value, st), ctx, self._next(tt, ctx)))
            elif isinstance(st, ast.Return):
                self._add(("ret", self._canon(st.value, st) if st.value is not None else "None", ctx))
            elif isinstance(st, ast.Expr):
                if isinstance(st.value, ast.Constant):
                    continue
                self._add(("expr", self._canon(st.value, st), ctx))
            elif isinstance(st, ast.Raise):
                self._add(("raise", ctx))
            elif isinstance(st, ast.While):
                c = self._canon(st.test, st)
                self.skeleton.append(self._simplify_ctx(ctx) + (f"while {c}",))
                self._collect(st.body, ctx + (f"while {c}",))
                self._collect(st.orelse, ctx + (f"whileelse {c}",))
            elif isinstance(st, ast.With):
                items = "; ".join(self._canon(i.context_expr, st) + (" as " + norm(i.optional_vars) if i.optional_vars is not None else "")
                                  for i in st.items)
                self._collect(st.body, ctx + (f"with {items}",))
            elif isinstance(st, ast.Try):
                self._collect(st.body, ctx + ("try",))
                for h in st.handlers:
                    self._collect(h.body, ctx + (f"except {norm(h.type) if h.type is not None else ''}",))
                self._collect(st.orelse, ctx + ("tryelse",))
                self._collect(st.finalbody, ctx + ("finally",))
            elif isinstance(st, ast.Break):
                self._add(("break", ctx, self._next("break" + str(ctx), ctx)))
            elif isinstance(st, ast.Continue):
                self._add(("continue", ctx, self._next("continue" + str(ctx), ctx)))
            elif isinstance(st, (ast.Pass, ast.Assert)):
                continue   # an assertion states an invariant; it has no effect when it holds
            elif self.lenient:
                self._add(("stmt", norm(st), ctx))
            else:
                raise AnalysisError(f"kernel {self.fn.name}: unsupported statement {type(st).__name__}")


_ref_cache: dict[str, Signature] = {}


# equivalent ways of writing a definition (same function, element-wise instead of slice-wise, ...): a kernel may equal any
ALTERNATIVES: dict[str, list[str]] = {
    # the three successive values of the padded template under names of their own (single assignment form)
    "convolve_templates": ['''
def convolve_templates(data, temp_bank, ref_bin):
    nbins = len(data)
    ntemps = len(temp_bank)
    convs = np.empty((ntemps, nbins), dtype=data.dtype)
    data_fft = np.fft.rfft(data)
    for itemp in range(ntemps):
        temp_kernel = temp_bank[itemp]
        temp_pad = np.zeros_like(data)
        temp_pad[: len(temp_kernel)] = temp_kernel
        temp_aligned = np.roll(temp_pad, -ref_bin[itemp])
        temp_reversed = np.roll(temp_aligned[::-1], 1)
        temp_norm = normalize_template(temp_reversed)
        convs[itemp, :] = np.fft.irfft(data_fft * np.fft.rfft(temp_norm), nbins)
    return convs
'''],
    # a constant lane has all pairwise distances 0: returning 0.0 for it at once is the same function
    "_scale_qn_1d": ['''
def _scale_qn_1d(data):
    norm = 0.4506241100243562
    n = len(data)
    if data.min() == data.max():
        return 0.0
    h = n // 2 + 1
    k = h * (h - 1) // 2
    diffs = np.abs(data[:, None] - data)
    return np.partition(diffs[np.triu_indices(n, k=1)].ravel(), k - 1)[k - 1] / norm
'''],
    "_scale_gapper_1d": ['''
def _scale_gapper_1d(data):
    n = len(data)
    gaps = np.diff(np.sort(data))
    idx = np.arange(1, n)
    weights = idx * (n - idx)
    return np.dot(weights, gaps) * np.sqrt(np.pi) / (n * (n - 1))
'''],
    "invert_freq": ['''
def invert_freq(array, nchans, nsamps):
    out = np.empty_like(array)
    for t in range(nsamps):
        for c in range(nchans):
            out[nchans * t + c] = array[nchans * t + nchans - 1 - c]
    return out
'''],
}


def reference(name: str) -> Signature:
    if name not in _ref_cache:
        _ref_cache[name] = Signature(_func_from_source(REFERENCE[name], name), None)
    return _ref_cache[name]


def alternatives(name: str) -> list[Signature]:
    key = name + "#alt"
    if key not in _ref_cache:
        _ref_cache[key] = [Signature(_func_from_source(src, name), None) for src in ALTERNATIVES.get(name, [])]
    return _ref_cache[key]


_DOMAIN_GUARD = __import__("re").compile(
    r"^if (cmp\[(Lt|LtE)\]\((?P<a>[\w.]+(\.get\([^()]*\))?|int\([^()]*(\([^()]*\))?[^()]*\)), (0|1)\)"          # p < 0, p <= 0, p < 1
    r"|cmp\[(Lt|LtE)\]\((0|1), -1\*[\w.]+\)"
    r"|cmp\[Is\]\([\w.]+, None\)"                                                                 # p is None
    r")$")
_DOMAIN_GUARD_NEG = __import__("re").compile(
    r"^ifnot (cmp\[LtE,Lt\]\(-1\*[\w.]+\.ndim, .+, [\w.]+\.ndim\)|cmp\[Eq\]\((len\([\w.]+\)|[\w.]+\.size|[\w.]+\.shape\[\d\]), [\w.]+\)|cmp\[Eq\]\([\w.]+, (len\([\w.]+\)|[\w.]+\.size|[\w.]+\.shape\[\d\])\)|isinstance\([\w.]+, .*\)|callable\([\w.]+\)|cmp\[In\]\([\w.]+, \{.*\}\)|cmp\[Eq\]\((\d+, )?[\w.]+\.(ndim|dtype)(, [\w.']+)?\)|np\.isfinite\([\w.]+\))$")


def _tolerate_domain_guards(act: "Signature", ref: "Signature") -> list[str]:
    """Extra guards of the analysed function that only reject input outside the domain the properties speak about
    (negative / zero counts, None, wrong type, wrong ndim/dtype, an option outside its literal set, non-finite numbers)
    and do nothing but raise: the function agrees with its definition wherever the definition is defined.  The guard's
    raise and the guard's negation in the conditions of everything that follows are removed before the comparison."""
    ref_conds = {c for f in ref.facts for c in (f[-2] if f[0] == "set" else f[-1] if f[0] in ("raise",) else f[2] if len(f) > 2 and isinstance(f[2], tuple) else ())
                 if isinstance(c, str)}
    def opposite(c: str) -> str:
        return ("ifnot " + c[3:]) if c.startswith("if ") else ("if " + c[6:])

    extra: set[str] = set()
    for f in act.facts:
        if f[0] == "raise" and f[1]:
            # contexts are sorted conjunctions: any entry of a raising context may be the guard that triggers it
            for g in f[1]:
                if g in ref_conds or opposite(g) in ref_conds:
                    continue
                if _DOMAIN_GUARD.match(g) or _DOMAIN_GUARD_NEG.match(g):
                    extra.add(g)
    if not extra:
        return []
    drop = set(extra) | {opposite(c) for c in extra}

    def strip(ctx: tuple) -> tuple:
        return tuple(x for x in ctx if x not in drop)

    new_facts = set()
    for f in act.facts:
        if f[0] == "raise" and f[1] and any(g in extra for g in f[1]):
            continue
        if f[0] == "set":
            new_facts.add((*f[:4], strip(f[4]), f[5]))
        elif f[0] in ("ret", "expr", "stmt"):
            new_facts.add((f[0], f[1], strip(f[2])))
        elif f[0] == "raise":
            new_facts.add(("raise", strip(f[1])))
        else:
            new_facts.add((f[0], strip(f[1]), *f[2:]))
    act.facts = new_facts
    sk = [strip(t) for t in act.skeleton]

    def ctx_of(f):
        return f[4] if f[0] == "set" else f[2] if f[0] in ("ret", "expr", "stmt") else f[1]
    # a loop that contained nothing but such guards is gone with them
    ref_sk = set(ref.skeleton)
    act.skeleton = [t for t in sk if t in ref_sk or any(ctx_of(f)[:len(t)] == t for f in new_facts)]
    return sorted(extra)


def _copy_sig(sig: "Signature") -> "Signature":
    import copy as _copy
    new = _copy.copy(sig)
    new.facts = set(sig.facts)
    new.skeleton = list(sig.skeleton)
    return new


def compare(fn: FuncInfo, name: str | None = None) -> tuple[str, list[str]]:
    """-> ('same' | 'different' | 'incomparable', explanation lines); against the definition, then against its alternatives."""
    name = name or fn.name
    first = _compare_with(fn, name, reference(name))
    if first[0] == "same":
        return first
    best = first
    for alt in alternatives(name):
        other = _compare_with(fn, name, alt)
        if other[0] == "same":
            return "same", other[1] + ["(equals an alternative form of the definition)"]
        if best[0] == "incomparable" and other[0] == "different":
            best = other   # comparable with this form: report the difference rather than "not comparable"
    return best


_LOG_CALL = __import__("re").compile(r"^(logger|logging|log|_logger|_log|LOGGER)\.(debug|info|warning|warn|error|exception|critical|log)\(")


def _extends_call(act_txt: str, ref_txt: str) -> bool:
    """Both are calls of the same constructor; the actual one has the reference's arguments first and then more."""
    def parse(t: str):
        try:
            e = ast.parse(t.replace("$", "_S_").replace("@", "_AT_"), mode="eval").body
        except SyntaxError:
            return None
        return e if isinstance(e, ast.Call) and isinstance(e.func, ast.Name) and e.func.id[:1].isupper() else None
    a, r = parse(act_txt), parse(ref_txt)
    if a is None or r is None or a.func.id != r.func.id:
        return False
    if len(a.args) + len(a.keywords) <= len(r.args) + len(r.keywords):
        return False
    if [ast.dump(x) for x in a.args[:len(r.args)]] != [ast.dump(x) for x in r.args]:
        return False
    akw = {k.arg: ast.dump(k.value) for k in a.keywords}
    return all(k.arg in akw and akw[k.arg] == ast.dump(k.value) for k in r.keywords)


def _split_commas(t: str) -> list[str]:
    out, depth, cur, quote = [], 0, "", None
    for ch in t:
        if quote:
            cur += ch
            if ch == quote:
                quote = None
            continue
        if ch in "'\"":
            quote = ch
        elif ch in "([{":
            depth += 1
        elif ch in ")]}":
            depth -= 1
        if ch == "," and depth == 0:
            out.append(cur.strip())
            cur = ""
        else:
            cur += ch
    if cur.strip():
        out.append(cur.strip())
    return out


def _outer_parens(t: str) -> bool:
    """t is `( ... )` with the first parenthesis closing at the very end."""
    if not (t.startswith("(") and t.endswith(")")):
        return False
    depth = 0
    for i, ch in enumerate(t):
        if ch == "(":
            depth += 1
        elif ch == ")":
            depth -= 1
            if depth == 0:
                return i == len(t) - 1
    return False


def _parse_guard(text: str):
    """('atom', t) | ('not', sub) | ('and' | 'or', [sub, ...]) of a condition in the control-flow normal form's text:
    `(A) and (B)`, `(A) or (B)`, `not (A)`, `any([A, B])`, `all([A, B])`; `a <= b` is read as `not (b < a)`."""
    t = text.strip()
    if _outer_parens(t):
        inner = _parse_guard(t[1:-1])
        if inner[0] != "atom" or not t[1:-1].strip().startswith("("):
            return inner
    if t.startswith("not ") :
        return ("not", _parse_guard(t[4:]))
    for fn_, op_ in (("any([", "or"), ("all([", "and")):
        if t.startswith(fn_) and t.endswith("])"):
            items = _split_commas(t[len(fn_):-2])
            if items:
                return (op_, [_parse_guard(x) for x in items])
    for neg_, pos_ in (("IsNot", "Is"), ("NotEq", "Eq"), ("NotIn", "In")):
        if t.startswith(f"cmp[{neg_}](") and t.endswith(")"):
            return ("not", ("atom", f"cmp[{pos_}](" + t[len(neg_) + 6:]))
    m = re.fullmatch(r"cmp\[LtE\]\((.*)\)", t)
    if m:
        ab = _split_commas(m.group(1))
        if len(ab) == 2:
            return ("not", ("atom", f"cmp[Lt]({ab[1]}, {ab[0]})"))
    if not t.startswith("("):
        return ("atom", t)
    parts, ops = [], []
    i = 0
    while i < len(t):
        if t[i] != "(":
            return ("atom", t)
        depth, j = 0, i
        while j < len(t):
            if t[j] == "(":
                depth += 1
            elif t[j] == ")":
                depth -= 1
                if depth == 0:
                    break
            j += 1
        if j >= len(t):
            return ("atom", t)
        parts.append(t[i + 1:j])
        rest = t[j + 1:]
        if rest == "":
            break
        if rest.startswith(" and ("):
            ops.append("and")
            i = j + 1 + len(" and ")
        elif rest.startswith(" or ("):
            ops.append("or")
            i = j + 1 + len(" or ")
        else:
            return ("atom", t)
    if len(parts) >= 2 and len(set(ops)) == 1 and len(parts) == len(ops) + 1:
        return (ops[0], [_parse_guard(p_) for p_ in parts])
    return ("atom", t)


def _guard_atoms(f, out: set) -> None:
    if f[0] == "atom":
        out.add(f[1])
    elif f[0] == "not":
        _guard_atoms(f[1], out)
    else:
        for x in f[1]:
            _guard_atoms(x, out)


def _guard_eval(f, alpha: dict) -> bool:
    if f[0] == "atom":
        return alpha[f[1]]
    if f[0] == "not":
        return not _guard_eval(f[1], alpha)
    vals = [_guard_eval(x, alpha) for x in f[1]]
    return all(vals) if f[0] == "and" else any(vals)


def _same_guarded_effects(act_facts, ref_facts, limit: int = 10):
    """-> (equal?, assignments, atoms) or None when not decidable this way (loop-carried facts, too many conditions).
    For every truth assignment of the atomic conditions both sides must execute the same effects; where both raise, what
    they return is not compared (a function does not return on a path that raises)."""
    def split(fact):
        kind = fact[0]
        if kind == "set":
            payload, ctx = (kind, fact[1], fact[2], fact[3]), fact[4]
        elif kind in ("ret", "expr", "stmt"):
            payload, ctx = (kind, fact[1]), fact[2]
        elif kind == "raise":
            payload, ctx = (kind,), fact[1]
        else:
            payload, ctx = (kind,), fact[1]
        conds = []
        for c in ctx:
            pol, _, rest = c.partition(" ")
            if pol not in ("if", "ifnot"):
                conds.append((True, ("atom", c)))      # a loop marker: an opaque condition of its own
                continue
            conds.append((pol == "if", _parse_guard(rest)))
        return payload, conds
    sides = []
    atoms: set = set()
    for facts in (act_facts, ref_facts):
        lst = []
        for f in facts:
            sp = split(f)
            if sp is None:
                return None
            lst.append(sp)
            for _, g in sp[1]:
                _guard_atoms(g, atoms)
        sides.append(lst)
    atoms_l = sorted(atoms)
    if not atoms_l or len(atoms_l) > limit:
        return None
    n = 0
    for bits in range(1 << len(atoms_l)):
        alpha = {a: bool(bits >> i & 1) for i, a in enumerate(atoms_l)}
        ex = []
        for lst in sides:
            ex.append({payload for payload, conds in lst if all(_guard_eval(g, alpha) == pol for pol, g in conds)})
        a_, r_ = ex
        if ("raise",) in a_ and ("raise",) in r_:
            a_ = {x for x in a_ if x[0] != "ret"}
            r_ = {x for x in r_ if x[0] != "ret"}
        n += 1
        if a_ != r_:
            return (False, n, len(atoms_l))
    return (True, n, len(atoms_l))


def _compare_with(fn: FuncInfo, name: str, ref: "Signature") -> tuple[str, list[str]]:
    try:
        act = Signature(fn.node, ref.params, owner_cls=getattr(fn, "cls", None))
    except AnalysisError as exc:
        return "incomparable", [str(exc)]
    def shape(sk):
        return sorted(tuple("if" if x.startswith("if") else "W" if x.startswith("while") else "L" for x in t) for t in sk)

    ref0 = ref
    tolerated = _tolerate_domain_guards(act, ref)
    widened = _tolerate_domain_guards(ref_copy := _copy_sig(ref), act)
    if widened:
        ref = ref_copy
        tolerated = tolerated + [f"(accepts more than the definition requires: {w})" for w in widened]
    if shape(act.skeleton) != shape(ref.skeleton):
        return "incomparable", [f"loop nest shape {shape(act.skeleton)} differs from the reference {shape(ref.skeleton)}"]
    if sorted(act.skeleton) != sorted(ref.skeleton):
        a = sorted(set(act.skeleton) - set(ref.skeleton))
        r = sorted(set(ref.skeleton) - set(act.skeleton))
        return "different", [f"loop extents/guards {a} differ from the definition's {r}"]
    # log messages are outside every property
    def _is_log(f) -> bool:
        return f[0] in ("expr", "stmt") and isinstance(f[1], str) and bool(_LOG_CALL.match(f[1]))
    if any(_is_log(f) for f in act.facts | ref.facts):
        act.facts = {f for f in act.facts if not _is_log(f)}
        ref = _copy_sig(ref)
        ref.facts = {f for f in ref.facts if not _is_log(f)}
    if act.facts == ref.facts:
        return "same", [f"{len(act.facts)} effects equal to the reference definition modulo renaming and polynomial normal form"] + (
            [f"(additional domain guards that only reject invalid input: {tolerated})"] if tolerated else [])
    import re as _re
    surplus = act.facts - ref.facts
    if not (ref.facts - act.facts) and surplus:
        ref_targets = {f[1] for f in ref.facts if f[0] == "set"}
        ref_dicts = {t.split("[")[0] for t in ref_targets if "['" in t}

        def extra_key(f) -> bool:
            m = _re.fullmatch(r"(\$v\d+)\['([^']+)'\]", f[1]) if f[0] == "set" else None
            return bool(m) and m.group(1) in ref_dicts and f[1] not in ref_targets and f[2] == "="
        if all(f[0] == "ret" for f in surplus) and not any(f[0] == "ret" for f in ref.facts):
            return "same", [f"{len(ref.facts)} effects equal to the reference definition; the function additionally returns a value "
                            f"({sorted(f[1] for f in surplus)[:2]}) where the definition returns nothing"]
        if all(extra_key(f) for f in surplus):
            keys = sorted(f[1] for f in surplus)
            return "same", [f"{len(ref.facts)} effects equal to the reference definition; additional entries {keys} are stored in a dictionary the "
                            f"definition also builds (nothing in the definition reads them)"]
    # a returned record that carries additional fields after the definition's
    lacking = ref.facts - act.facts
    if surplus and lacking and all(f[0] == "ret" for f in surplus | lacking) and len(surplus) == len(lacking):
        pairs = []
        for g in lacking:
            m = [f for f in surplus if f[2] == g[2] and _extends_call(f[1], g[1])]
            if len(m) == 1:
                pairs.append((m[0], g))
        if len(pairs) == len(lacking) and len({id(p[0]) for p in pairs}) == len(pairs):
            return "same", [f"{len(ref.facts)} effects equal to the reference definition; the returned record carries additional field(s) after the "
                            f"definition's ({pairs[0][0][1][:80]})"]
    # the same effects under differently *written* guards (a guard split, merged, moved in front, De Morgan, an early return
    # instead of an else): compare, for every truth assignment of the atomic conditions, which effects execute
    eq = _same_guarded_effects(act.facts, ref.facts)
    if (eq is None or not eq[0]) and ref0 is not ref:
        eq = _same_guarded_effects(act.facts, {f for f in ref0.facts if not _is_log(f)})
    if eq is not None and eq[0]:
        return "same", [f"{len(ref.facts)} effects; equal to the reference definition as guarded effects (decided over all {eq[1]} truth assignments of "
                        f"{eq[2]} atomic conditions)"] + ([f"(additional domain guards that only reject invalid input: {tolerated})"] if tolerated else [])
    extra = sorted(map(str, act.facts - ref.facts))
    missing = sorted(map(str, ref.facts - act.facts))
    return "different", [f"kernel has: {e}" for e in extra[:4]] + [f"definition needs: {m}" for m in missing[:4]]
