"""Obligations, findings, known-findings, evidence and exit codes."""
from __future__ import annotations

import ast
import json
import os
import time
from pathlib import Path

from .model import AnalysisError, FuncInfo, Program, norm

VERIF = Path(__file__).resolve().parent.parent
EVIDENCE_DIR = Path(os.environ.get("SA_EVIDENCE_DIR", VERIF / "evidence"))
KNOWN_FILE = VERIF / "known_findings.json"


class Obligation:
    """One rule instance: a proof obligation that is discharged or violated."""

    def __init__(self, rule: str, where: str, construct: str, ok: bool, detail: str,
                 file: str = "", line: int = 0, key: str | None = None):
        self.rule = rule            # e.g. C01.R2
        self.where = where          # module::qualname
        self.construct = construct  # normalised source of the construct
        self.ok = ok
        self.detail = detail
        self.file = file
        self.line = line
        self.key = key or construct

    def ident(self) -> str:
        return f"{self.rule}|{self.where}|{self.key}"

    def to_json(self) -> dict:
        return {"rule": self.rule, "where": self.where, "construct": self.construct, "ok": self.ok,
                "detail": self.detail, "file": self.file, "line": self.line, "key": self.key}


class Result:
    """Collects obligations for one property run."""

    def __init__(self, prop: str, prog: Program):
        self.prop = prop
        self.prog = prog
        self.obligations: list[Obligation] = []
        self.notes: list[str] = []
        self.dep_errors: list[str] = []     # analysis errors of packs this one depends on (deferred: violations are reported first)
        self.floors: dict[str, int] = {}
        self.assumptions: list[str] = []
        self.trusted_base: list[str] = []

    def add(self, rule: str, fn: FuncInfo | None, node: ast.AST | None, ok: bool, detail: str,
            construct: str | None = None, key: str | None = None, where: str | None = None) -> Obligation:
        file = fn.module.rel if fn is not None else ""
        line = getattr(node, "lineno", 0) if node is not None else (fn.node.lineno if fn is not None else 0)
        cons = construct if construct is not None else (norm(node) if node is not None else "")
        if len(cons) > 300:
            cons = cons[:297] + "..."
        ob = Obligation(f"{self.prop}.{rule}", where or (fn.ident if fn is not None else ""), cons, ok, detail,
                        file, line, key)
        self.obligations.append(ob)
        return ob

    def ok(self, rule, fn, node, detail, **kw):
        return self.add(rule, fn, node, True, detail, **kw)

    def bad(self, rule, fn, node, detail, **kw):
        return self.add(rule, fn, node, False, detail, **kw)

    def floor(self, rule: str, n: int) -> None:
        """Minimum number of instances rule must have matched (fail closed)."""
        self.floors[f"{self.prop}.{rule}"] = n

    def count(self, rule: str) -> int:
        return sum(1 for o in self.obligations if o.rule == f"{self.prop}.{rule}")

    def violations(self) -> list[Obligation]:
        return [o for o in self.obligations if not o.ok]

    def check_floors(self) -> list[str]:
        errs = []
        for rule, n in self.floors.items():
            got = sum(1 for o in self.obligations if o.rule == rule)
            if got < n:
                errs.append(f"rule {rule} matched {got} instance(s), floor is {n}")
        return errs


def load_known() -> dict:
    if KNOWN_FILE.exists():
        return json.loads(KNOWN_FILE.read_text())
    return {"known": [], "fixed": []}


def match_known(ob: Obligation, known: list[dict]) -> dict | None:
    for k in known:
        if k.get("rule") == ob.rule and k.get("where") == ob.where and k.get("key") == ob.key:
            return k
    return None


def write_evidence(prop: str, tier: str, level: str, res: Result | None, wall: float, *,
                   explanation: str, checker_cmd: str, extra: dict | None = None, n_viol: int = 0,
                   seed: int = 0) -> Path:
    EVIDENCE_DIR.mkdir(parents=True, exist_ok=True)
    obs = res.obligations if res is not None else []
    rules: dict[str, dict] = {}
    for o in obs:
        r = rules.setdefault(o.rule, {"instances": 0, "discharged": 0})
        r["instances"] += 1
        r["discharged"] += 1 if o.ok else 0
    distinct = len({o.ident() for o in obs})
    samples = [o.to_json() for o in obs[:6]] + [o.to_json() for o in obs if not o.ok][:6]
    cov: dict = {
        "obligations": len(obs),
        "discharged": sum(1 for o in obs if o.ok),
        "checker_cmd": checker_cmd,
        "trusted_base": (res.trusted_base if res is not None else []),
        "explanation": explanation,
        "evaluations": max(len(obs), 1),
        "distinct_nontrivial": distinct,
        "rule": "one obligation per (rule, function, construct) instance found in /repo's current source; "
                "distinct = distinct (rule, where, key) triples",
        "samples": samples or [{"note": "no instance"}],
        "per_rule": rules,
        "files": (res.prog.digests() if res is not None else {}),
        "functions_analysed": sorted({o.where for o in obs if o.where}),
        "call_resolution": ({"resolved": res.prog.resolved_count, "unresolved": len(res.prog.unresolved)}
                            if res is not None else {}),
        "notes": (res.notes if res is not None else []),
        "exhaustive": True,
    }
    if extra:
        cov.update(extra)
    ev = {
        "property_id": prop,
        "tier": tier,
        "seed": seed,
        "level": level,
        "coverage": cov,
        "assumptions": (res.assumptions if res is not None else []),
        "wall_s": round(wall, 3),
        "violations": n_viol,
    }
    path = EVIDENCE_DIR / f"{prop}.json"
    path.write_text(json.dumps(ev, indent=1, sort_keys=False) + "\n")
    return path


def depends(res: "Result", rule: str, prog, tier: str, prop: str, accept=None, why: str = "") -> int:
    """Re-evaluate the rules of property `prop` under `res` as rule `rule`: the machinery this property consumes must be
    right for this property to hold (a reduction over read_plan is wrong when the plan is).  -> obligations added."""
    import importlib
    cache = prog.__dict__.setdefault("_dep_cache", {})
    if (prop, tier) not in cache:
        cache[(prop, tier)] = None      # in progress: a pack that (transitively) asks for itself gets nothing from the inner request
        scratch = Result(prop, prog)
        try:
            importlib.import_module(f"{__package__}.rules.{prop.lower()}").run(prog, scratch, tier)
        except AnalysisError as exc:
            # the dependency could not be analysed: this property's own rules still run and report; if they find nothing the
            # run ends as an analysis error (undecided), exactly as the dependency's own check does
            scratch.dep_errors.append(f"{prop}: {exc}")
        except BaseException:
            del cache[(prop, tier)]
            raise
        scratch.dep_errors and res.dep_errors.extend(e for e in scratch.dep_errors if e not in res.dep_errors)
        cache[(prop, tier)] = scratch
    n = 0
    if cache[(prop, tier)] is None:
        return 0
    for e in cache[(prop, tier)].dep_errors:
        if e not in res.dep_errors:
            res.dep_errors.append(e)
    for o in cache[(prop, tier)].obligations:
        if accept is None or accept(o):
            ob = res.add(rule, None, None, o.ok, f"[{o.rule}] {o.detail}", construct=o.construct, key=f"{o.rule}:{o.key}", where=o.where)
            ob.file, ob.line = o.file, o.line
            n += 1
    if why:
        res.notes.append(f"{res.prop}.{rule}: {why}")
    return n
