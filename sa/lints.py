"""Repository-specific lints shared by several properties."""
from __future__ import annotations

import ast

from .model import AnalysisError, Program, dotted, norm
from .report import Result

_EXAMPLE = "def f(a, axis):\n    b = np.median(a, axis=axis, keepdims=True)\n    return np.squeeze(b), a.squeeze(), np.squeeze(b, axis=axis), a.squeeze(axis=0)\n"


def _bare_squeezes(tree: ast.AST) -> tuple[list[ast.Call], list[ast.Call]]:
    bare, qualified = [], []
    for c in ast.walk(tree):
        if not isinstance(c, ast.Call):
            continue
        d = dotted(c.func)
        is_np = d in ("np.squeeze", "numpy.squeeze")
        is_method = isinstance(c.func, ast.Attribute) and c.func.attr == "squeeze" and not is_np
        if not (is_np or is_method):
            continue
        has_axis = any(k.arg == "axis" for k in c.keywords) or (is_np and len(c.args) >= 2) or (is_method and len(c.args) >= 1)
        (qualified if has_axis else bare).append(c)
    return bare, qualified


def check_no_bare_squeeze(prog: Program, res: Result, rule: str, modules: list[str], what: str) -> None:
    """An unqualified `squeeze` removes EVERY axis of length 1, also the ones that carry meaning: one channel, one
    sub-band, one lane (shape (1, n) with axis=1), one polarisation, one sample per row.  The arrays of this package
    legitimately have such axes, so every squeeze must name the axes it drops (or be replaced by an index).  One
    obligation per function that squeezes, plus one per module scanned."""
    bare0, qual0 = _bare_squeezes(ast.parse(_EXAMPLE))
    if len(bare0) != 2 or len(qual0) != 2:
        raise AnalysisError("squeeze lint: the built-in positive example is no longer recognised")
    for m in modules:
        mod = prog.module(m)
        prog.consulted.add(m)
        nbad = 0
        for f in prog.all_funcs():
            if f.module is not mod:
                continue
            bare, qualified = _bare_squeezes(f.node)
            for c in bare:
                nbad += 1
                res.bad(rule, f, c, f"`{norm(c)[:70]}` drops every axis of length 1, not only the one meant: {what}", key=f"squeeze:{f.qualname}:{norm(c)[:50]}")
            if qualified and not bare:
                res.ok(rule, f, qualified[0], f"{len(qualified)} squeeze call(s), each naming the axes it drops", key=f"squeeze:{f.qualname}")
        if not nbad:
            res.ok(rule, None, mod.tree, f"no unqualified squeeze in {m}", key=f"squeeze:{m}", construct=m, where=m)


def check_delay_sign(prog: Program, res: Result, rule: str, only: set[str] | None = None) -> int:
    """The index-form kernels (`dedisperse`, `subband`, `fold`) read `inarray[nchans * (t + delays[c]) + c]` for
    t in [0, nsamps - maxdelay): with a negative delay the index is negative and wraps to the END of the block, and
    the plan's skipback (the maximum delay) carries nothing over for channels that lead.  Delays are negative for an
    ascending band with DM > 0 and for any band with DM < 0.  So the array handed to such a kernel must be
    non-negative by construction: `D - min(0, int(D.min()))` (or `D - D.min()`), or a raising guard on `D.min() < 0`
    must dominate the call.  -> number of call sites examined."""
    from .dataflow import flow_of
    from .model import calls_in_body
    from .poly import Poly, PolyEnv
    n = 0
    base = prog.module("sigpyproc.base")
    for f in base.funcs.values():
        for c in calls_in_body(f.node):
            d = dotted(c.func) or ""
            kname = d.split(".")[-1]
            if not d.startswith("kernels.") or kname not in ("dedisperse", "subband", "fold"):
                continue
            if only is not None and kname not in only:
                continue
            k = prog.func("sigpyproc.core.kernels", kname)
            b = prog.bind_args(c, k)
            arg = b.get("delays")
            if arg is None:
                continue
            n += 1
            flow = flow_of(f)
            ex = flow.expand(arg, flow.cfg.node_for(c))
            p = PolyEnv().poly(ex)
            D = Poly.sym("self.header.get_dmdelays(dm)")
            lead = (D - p).canon()
            key = f"{f.qualname}:{kname}:delay-sign"
            # the lead is a scalar derived from the minimum of those very delays: min(0, D.min()), np.minimum(0, D.min()), D.min(), int(...) of those
            core = lead
            for pre in ("int(", "np.int32(", "np.int64("):
                if core.startswith(pre) and core.endswith(")"):
                    core = core[len(pre):-1]
            dmin = ("self.header.get_dmdelays(dm).min()", "np.min(self.header.get_dmdelays(dm))", "int(self.header.get_dmdelays(dm).min())",
                    "int(np.min(self.header.get_dmdelays(dm)))", "min(self.header.get_dmdelays(dm))")
            shifted = core in dmin or any(core in (f"min(0, {m})", f"min({m}, 0)", f"np.minimum(0, {m})", f"np.minimum({m}, 0)") for m in dmin)
            if shifted:
                res.ok(rule, f, c, f"the delays handed to {kname} are counted from the earliest channel (get_dmdelays(dm) - {lead}): none is negative", key=key)
            else:
                res.bad(rule, f, c, f"the delays handed to {kname} (`{norm(ex)[:80]}`) can be negative (ascending band, negative DM): the kernel then reads "
                        "index t + delay < 0, which wraps to the end of the block, and the skipback (max delay) carries nothing over for leading channels",
                        key=key)
    return n


_FALSY_EXAMPLE = ("def f(data, axis: int | None = 0, scale: float | None = None, name: str | None = None, flag: bool = False):\n"
                  "    a = axis % 2 if axis else None\n    b = scale or 1.0\n    if not axis:\n        pass\n"
                  "    c = 0 if axis is None else axis\n    d = name or 'x'\n    e = 1 if flag else 2\n    return a, b, c, d, e\n")
_NUMERIC_ANN = ("int", "float", "np.ndarray", "ArrayLike", "npt.ArrayLike", "tuple[int, ...]", "Sequence[int]")


def _optional_numeric_params(fn: ast.FunctionDef) -> set[str]:
    """Parameters annotated `int | None`, `float | None`, `int | tuple[int, ...] | None` ...: a numeric value where 0 is legal,
    or None."""
    out = set()
    a = fn.args
    for arg in list(a.posonlyargs) + list(a.args) + list(a.kwonlyargs):
        if arg.annotation is None:
            continue
        parts = [p.strip() for p in norm(arg.annotation).replace("Optional[", "").rstrip("]").split("|")]
        if "None" in parts or "Optional[" in norm(arg.annotation):
            rest = [p for p in parts if p != "None"]
            if rest and all(any(p == t or p.startswith(t) for t in _NUMERIC_ANN) for p in rest):
                out.add(arg.arg)
        elif parts and all(p in ("int", "float") for p in parts):
            out.add(arg.arg)      # a plain numeric parameter: 0 is a value like any other
    return out


def _truthiness_uses(fn: ast.FunctionDef, names: set[str]) -> list[tuple[ast.AST, str]]:
    """Places where one of `names` is used for its truth value: `if p`, `not p`, `p or x`, `p and x`, `x if p else y`."""
    hits = []

    def bare(e):
        return isinstance(e, ast.Name) and e.id in names
    for n in ast.walk(fn):
        if isinstance(n, (ast.If, ast.While, ast.IfExp)) and bare(n.test):
            hits.append((n, n.test.id))
        elif isinstance(n, ast.UnaryOp) and isinstance(n.op, ast.Not) and bare(n.operand):
            hits.append((n, n.operand.id))
        elif isinstance(n, ast.BoolOp):
            for v in n.values[:-1] if isinstance(n.op, ast.Or) else n.values:
                if bare(v):
                    hits.append((n, v.id))
    return hits


def check_no_falsy_zero(prog: Program, res: Result, rule: str, modules: list[str], what: str) -> None:
    """An optional numeric parameter (`axis: int | None`, `mask_value: float | None`, `start: int`) tested for its truth value
    treats the legal value 0 like None / "not given": `axis % ndim if axis else None` turns axis=0 into the whole-array
    reduction.  Such parameters must be tested with `is None` (or compared).  One obligation per module scanned, one
    violation per truthiness use."""
    ex = ast.parse(_FALSY_EXAMPLE).body[0]
    got = sorted(n for _, n in _truthiness_uses(ex, _optional_numeric_params(ex)))
    if got != ["axis", "axis", "scale"]:
        raise AnalysisError(f"falsy-zero lint: the built-in positive example is no longer recognised ({got})")
    for m in modules:
        mod = prog.module(m)
        prog.consulted.add(m)
        nbad = nfun = 0
        for f in prog.all_funcs():
            if f.module is not mod:
                continue
            names = _optional_numeric_params(f.node)
            if not names:
                continue
            nfun += 1
            for node, nm in _truthiness_uses(f.node, names):
                nbad += 1
                res.bad(rule, f, node, f"`{norm(node)[:80]}` uses the numeric parameter `{nm}` for its truth value: the legal value 0 is treated like None - {what}",
                        key=f"falsy:{f.qualname}:{nm}")
        if not nbad:
            res.ok(rule, None, mod.tree, f"no optional numeric parameter of {m} is tested for its truth value ({nfun} functions with such parameters)",
                   key=f"falsy:{m}", construct=m, where=m)
