"""Normal form of an arbitrary function, for rules that used to look at statement text.

`normal_form(fn)` is the effect summary the kernel comparison uses (kernelspec.Signature), without a reference: every
assignment to an attribute / element / multiply-defined local, every expression statement, return and raise, each with
its value fully expanded through single-definition temporaries (helpers unknown to the rules already dissolved by
inline.py), written in polynomial normal form (commutative/associative arithmetic, keyword arguments of known
signatures in positional form, `a > b` as `b < a`), and tagged with the branch conditions under which it executes in
control-flow normal form (negated tests swapped, `a or b: leave` split, early exits nested).  A rule states what it
needs as canonical text (`canon("...")`) and asks whether such an effect exists and under which conditions - which is
insensitive to temporaries, operand order, guard spelling, branch order and extract-function refactorings, and still
sees every change of the values themselves.
"""
from __future__ import annotations

import ast
import re

from .kernelspec import Signature
from .model import AnalysisError, FuncInfo
from .poly import PolyEnv

_ORD = re.compile(r"#\d+(?=\()")
_VER = re.compile(r"(?<=[\w\]>])@\d+(_\d+)*")


def strip_ordinals(text: str) -> str:
    """Drop the evaluation-order ordinals of stateful calls and the definition-set labels of multiply-defined locals."""
    return _VER.sub("", _ORD.sub("", text))


def canon(text: str | ast.AST) -> str:
    """Canonical text of an expression given as source text (no expansion)."""
    e = ast.parse(text, mode="eval").body if isinstance(text, str) else text
    penv = PolyEnv()
    if isinstance(e, ast.Tuple):
        return "(" + ", ".join(penv.poly(x).canon() for x in e.elts) + ")"
    return penv.poly(e).canon()


def cond(text: str) -> tuple[str, str]:
    """('if' | 'ifnot', canonical test) of a condition in the form the control-flow normal form uses."""
    e = ast.parse(text, mode="eval").body
    pol = True
    while True:
        if isinstance(e, ast.UnaryOp) and isinstance(e.op, ast.Not):
            e, pol = e.operand, not pol
            continue
        if isinstance(e, ast.Compare) and len(e.ops) == 1 and isinstance(e.ops[0], (ast.NotEq, ast.IsNot, ast.NotIn)):
            pos = {ast.NotEq: ast.Eq, ast.IsNot: ast.Is, ast.NotIn: ast.In}[type(e.ops[0])]
            e, pol = ast.Compare(left=e.left, ops=[pos()], comparators=e.comparators), not pol
            continue
        break
    return ("if" if pol else "ifnot"), canon(e)


def _split_top(text: str) -> list[str]:
    """Split `a, b` at the top-level comma (two operands)."""
    depth = 0
    quote = None
    for i, ch in enumerate(text):
        if quote:
            if ch == quote:
                quote = None
            continue
        if ch in "'\"":
            quote = ch
        elif ch in "([{":
            depth += 1
        elif ch in ")]}":
            depth -= 1
        elif ch == "," and depth == 0:
            return [text[:i], text[i + 1:]]
    return [text, ""]


class Effect:
    __slots__ = ("kind", "target", "op", "value", "ctx", "seq")

    def __init__(self, fact: tuple):
        self.kind = fact[0]
        self.target = self.op = self.value = None
        self.seq = None
        if self.kind == "set":
            _, self.target, self.op, self.value, self.ctx, self.seq = fact
        elif self.kind in ("ret", "expr", "stmt"):
            _, self.value, self.ctx = fact
        elif self.kind == "raise":
            _, self.ctx = fact
        else:  # break / continue
            self.ctx = fact[1]

    def under(self, *conds: str) -> bool:
        """Every given condition (source text) is among the conditions this effect executes under."""
        have = set(self.ctx)
        return all(" ".join(cond(c)) in have for c in conds)

    def text(self) -> str:
        return strip_ordinals(self.value or "")

    def values_of(self, var: str) -> tuple[set, bool]:
        """What the conditions this effect executes under leave for `var`, when they only compare it with constants
        (`==`, `!=`, `in`, `not in` - in either polarity): -> (constants it may equal, whether any other value is possible).
        A finite-domain decision: `var in ('a', 'b')` and `not var == 'a'` leave ({'b'}, False)."""
        allowed: set | None = None       # None = everything
        excluded: set = set()
        for c in self.ctx:
            pol, _, test = c.partition(" ")
            m = re.fullmatch(r"cmp\[(Eq|In)\]\((.*)\)", test)
            if not m:
                continue
            try:
                if m.group(1) == "Eq":
                    a, b = [x.strip() for x in _split_top(m.group(2))]
                    if a == var:
                        a, b = b, a
                    if b != var:
                        continue
                    vals = {ast.literal_eval(a)}
                else:
                    a, b = [x.strip() for x in _split_top(m.group(2))]
                    if a != var:
                        continue
                    vals = set(ast.literal_eval(b))
            except (ValueError, SyntaxError):
                continue
            if pol == "if":
                allowed = vals if allowed is None else allowed & vals
            else:
                excluded |= vals
        if allowed is None:
            return excluded and set() or set(), True   # only exclusions: some other value remains possible
        return allowed - excluded, False

    def selects(self, var: str, value) -> bool:
        """The conditions pin `var` to exactly `value`."""
        vals, other = self.values_of(var)
        return not other and vals == {value}

    def excludes(self, var: str, *values) -> bool:
        """The conditions rule out every one of `values` for `var`."""
        vals, other = self.values_of(var)
        if not other:
            return not (vals & set(values))
        gone: set = set()
        for c in self.ctx:
            pol, _, test = c.partition(" ")
            m = re.fullmatch(r"cmp\[(Eq|In)\]\((.*)\)", test)
            if not m or pol != "ifnot":
                continue
            try:
                a, b = [x.strip() for x in _split_top(m.group(2))]
                if m.group(1) == "Eq":
                    if a == var:
                        a, b = b, a
                    if b == var:
                        gone.add(ast.literal_eval(a))
                elif a == var:
                    gone |= set(ast.literal_eval(b))
            except (ValueError, SyntaxError):
                continue
        return set(values) <= gone

    def __repr__(self):
        return f"<{self.kind} {self.target or ''} {self.op or ''} {self.value or ''} | {' & '.join(self.ctx)}>"


class NormalForm:
    def __init__(self, fn: FuncInfo):
        self.fn = fn
        try:
            self.sig = Signature(fn.node, None, lenient=True)
        except RecursionError as exc:  # pragma: no cover
            raise AnalysisError(f"{fn.ident}: normal form too deep") from exc
        self.effects = [Effect(f) for f in self.sig.trace]   # program order

    def before(self, a: Effect, b: Effect) -> bool:
        """a precedes b in program order."""
        return self.effects.index(a) < self.effects.index(b)

    # ---- finite-domain reasoning on a variable that is only ever compared with constants ------------------------------
    _OTHER = object()

    @staticmethod
    def _literal(c: str, var: str):
        """(polarity, set of constants) of a condition `var == k` / `var in (k, ...)`, or None if it is about something else."""
        pol, _, test = c.partition(" ")
        m = re.fullmatch(r"cmp\[(Eq|In)\]\((.*)\)", test)
        if not m:
            return None
        try:
            a, b = [x.strip() for x in _split_top(m.group(2))]
            if m.group(1) == "Eq":
                if a == var:
                    a, b = b, a
                if b != var:
                    return None
                return pol == "if", {ast.literal_eval(a)}
            if a != var:
                return None
            return pol == "if", set(ast.literal_eval(b))
        except (ValueError, SyntaxError):
            return None

    def values_at(self, e: Effect, var: str) -> set:
        """The values `var` can have when `e` executes: the constants it is compared with anywhere in the function plus
        'anything else' (NormalForm._OTHER), filtered by e's own conditions and by the fact that no earlier `raise` whose
        conditions are all about `var` was taken (`if v not in (a, b): raise` leaves {a, b} for what follows)."""
        lits_all = [self._literal(c, var) for f in self.effects for c in f.ctx]
        universe = set().union(*[l[1] for l in lits_all if l is not None]) | {self._OTHER}

        def holds(v, c):
            l = self._literal(c, var)
            if l is None:
                return None
            pol, vals = l
            return (v in vals) == pol
        possible = {v for v in universe if all(holds(v, c) is not False for c in e.ctx)}
        for r in self.raises():
            if r is e or not self.before(r, e) or not r.ctx or any(self._literal(c, var) is None for c in r.ctx):
                continue
            possible -= {v for v in possible if all(holds(v, c) for c in r.ctx)}
        return possible

    def selects(self, e: Effect, var: str, value) -> bool:
        return self.values_at(e, var) == {value}

    def of_kind(self, kind: str) -> list[Effect]:
        return [e for e in self.effects if e.kind == kind]

    def exprs(self, text: str | None = None) -> list[Effect]:
        want = None if text is None else strip_ordinals(canon(text))
        return [e for e in self.effects if e.kind == "expr" and (want is None or e.text() == want)]

    def calls(self, callee: str) -> list[Effect]:
        """Effects that are a call of `callee` (dotted text, ordinals ignored): as a statement, or with its result bound
        to a local / returned."""
        return [e for e in self.effects if e.kind in ("expr", "ret") and e.text().startswith(callee + "(")] + \
            [e for e in self.effects if e.kind == "set" and e.target.startswith("$") and e.text().startswith(callee + "(")]

    def sets(self, target: str) -> list[Effect]:
        want = canon(target) if not target.startswith("$") else target
        return [e for e in self.effects if e.kind == "set" and strip_ordinals(e.target) == want]

    def returns(self) -> list[Effect]:
        return self.of_kind("ret")

    def raises(self) -> list[Effect]:
        return self.of_kind("raise")

    def mentions(self, text: str) -> list[Effect]:
        """Effects whose value contains the canonical form of `text` as a sub-term."""
        want = strip_ordinals(canon(text))
        return [e for e in self.effects if e.value is not None and want in e.text()]


_cache: dict[int, NormalForm] = {}


def normal_form(fn: FuncInfo) -> NormalForm:
    if id(fn.node) not in _cache:
        _cache[id(fn.node)] = NormalForm(fn)
    return _cache[id(fn.node)]


def returned(fn: FuncInfo, prog=None) -> list[str]:
    """Canonical text of every value the function returns, expanded at the return (temporaries, if-merged locals as
    conditional expressions, stateful calls with their ordinals stripped)."""
    from .dataflow import flow_of
    from .model import body_walk
    fl = flow_of(fn, prog)
    out = []
    def alternatives(e: ast.AST):
        # a result chosen by a conditional (also one produced by merging early returns) is each of its alternatives
        if isinstance(e, ast.IfExp):
            yield from alternatives(e.body)
            yield from alternatives(e.orelse)
        else:
            yield e

    for s in body_walk(fn.node):
        if isinstance(s, ast.Return) and s.value is not None:
            for alt in alternatives(fl.expand(s.value, fl.cfg.node_for(s))):
                out.append(strip_ordinals(canon(alt)))
    return out


def argument(fn: FuncInfo, call: ast.Call, which: int | str, prog=None) -> str | None:
    """Canonical expanded text of one argument of a call inside fn."""
    from .dataflow import flow_of
    fl = flow_of(fn, prog)
    a = None
    if isinstance(which, int):
        a = call.args[which] if which < len(call.args) else None
    else:
        a = next((k.value for k in call.keywords if k.arg == which), None)
    return None if a is None else strip_ordinals(canon(fl.expand(a, fl.cfg.node_for(call))))
