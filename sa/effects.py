"""Effects: which arguments a call mutates, I/O effects of functions."""
from __future__ import annotations

import ast

from .model import FuncInfo, Program, body_walk, dotted

_written_params_cache: dict[int, set[str]] = {}


def written_params(fn: FuncInfo) -> set[str]:
    """Parameters whose elements/attributes the function stores into (directly)."""
    key = id(fn.node)
    if key in _written_params_cache:
        return _written_params_cache[key]
    params = set(fn.params)
    out: set[str] = set()
    rebound: set[str] = set()
    for sub in body_walk(fn.node):
        if isinstance(sub, ast.Name) and isinstance(sub.ctx, ast.Store) and sub.id in params:
            rebound.add(sub.id)
    for sub in body_walk(fn.node):
        if isinstance(sub, (ast.Subscript, ast.Attribute)) and isinstance(sub.ctx, ast.Store):
            base = sub
            while isinstance(base, (ast.Subscript, ast.Attribute)):
                base = base.value
            if isinstance(base, ast.Name) and base.id in params and base.id not in ("self", "cls"):
                out.add(base.id)
        if isinstance(sub, ast.Call):
            for kw in sub.keywords:
                if kw.arg == "out" and isinstance(kw.value, ast.Name) and kw.value.id in params:
                    out.add(kw.value.id)
            f = sub.func
            if isinstance(f, ast.Attribute) and f.attr == "fill" and isinstance(f.value, ast.Name) and f.value.id in params:
                out.add(f.value.id)
    _written_params_cache[key] = out
    return out


def mutated_arg_names(prog: Program, fn: FuncInfo, call: ast.Call) -> list[str]:
    """Local names passed at `call` into a package-callee parameter that the callee writes."""
    d = dotted(call.func)
    if d is None:
        return []
    cands = [c for c in prog.resolve_call(call, fn, record=False) if isinstance(c, FuncInfo)]
    out = []
    for callee in cands:
        wp = written_params(callee)
        if not wp:
            continue
        bound = prog.bind_args(call, callee)
        for p in wp:
            a = bound.get(p)
            if isinstance(a, ast.Name):
                out.append(a.id)
    return out
