"""Canonical-form algebra: multivariate polynomials and rational functions.

Value numbering with algebraic identities; no search, only expansion to a
canonical form.  Coefficients are exact Fractions.
"""
from __future__ import annotations

import ast
import re
from fractions import Fraction

from .model import AnalysisError, dotted

MAX_TERMS = 1_000_000


class Poly:
    __slots__ = ("t",)

    def __init__(self, terms: dict | None = None):
        self.t: dict[tuple, Fraction] = {k: v for k, v in (terms or {}).items() if v != 0}

    # -- constructors -------------------------------------------------------
    @staticmethod
    def const(c) -> "Poly":
        return Poly({(): Fraction(c)})

    @staticmethod
    def sym(name: str) -> "Poly":
        return Poly({((name, 1),): Fraction(1)})

    # -- arithmetic -----------------------------------------------------------
    def __add__(self, o: "Poly") -> "Poly":
        r = dict(self.t)
        for k, v in o.t.items():
            r[k] = r.get(k, 0) + v
        return Poly(r)

    def __neg__(self) -> "Poly":
        return Poly({k: -v for k, v in self.t.items()})

    def __sub__(self, o: "Poly") -> "Poly":
        return self + (-o)

    def __mul__(self, o: "Poly") -> "Poly":
        r: dict[tuple, Fraction] = {}
        if len(self.t) * len(o.t) > MAX_TERMS:
            raise AnalysisError("polynomial too large")
        for k1, v1 in self.t.items():
            for k2, v2 in o.t.items():
                k = _mul_mono(k1, k2)
                r[k] = r.get(k, 0) + v1 * v2
        if len(r) > MAX_TERMS:
            raise AnalysisError("polynomial too large")
        return Poly(r)

    def __pow__(self, n: int) -> "Poly":
        if n < 0:
            raise AnalysisError("negative power of polynomial")
        r = Poly.const(1)
        for _ in range(n):
            r = r * self
        return r

    def scale(self, c) -> "Poly":
        c = Fraction(c)
        return Poly({k: v * c for k, v in self.t.items()})

    def __eq__(self, o) -> bool:  # type: ignore[override]
        return isinstance(o, Poly) and self.t == o.t

    def __hash__(self):
        return hash(frozenset(self.t.items()))

    # -- inspection -------------------------------------------------------------
    def is_zero(self) -> bool:
        return not self.t

    def is_const(self) -> bool:
        return all(k == () for k in self.t)

    def const_value(self) -> Fraction:
        return self.t.get((), Fraction(0))

    def symbols(self) -> set[str]:
        return {s for k in self.t for s, _ in k}

    def coeff_of(self, sym: str) -> "Poly":
        """Coefficient polynomial of sym^1 (terms linear in sym)."""
        r = {}
        for k, v in self.t.items():
            d = dict(k)
            if d.get(sym) == 1:
                del d[sym]
                r[tuple(sorted(d.items()))] = v
        return Poly(r)

    def without(self, sym: str) -> "Poly":
        return Poly({k: v for k, v in self.t.items() if sym not in dict(k)})

    def degree_in(self, sym: str) -> int:
        return max((dict(k).get(sym, 0) for k in self.t), default=0)

    def subst(self, sym: str, p: "Poly") -> "Poly":
        out = Poly()
        for k, v in self.t.items():
            d = dict(k)
            e = d.pop(sym, 0)
            term = Poly({tuple(sorted(d.items())): v})
            if e:
                term = term * (p ** e)
            out = out + term
        return out

    def canon(self) -> str:
        if not self.t:
            return "0"
        parts = []
        for k in sorted(self.t, key=lambda m: (len(m), m)):
            v = self.t[k]
            mono = "*".join(s if e == 1 else f"{s}^{e}" for s, e in k)
            if not mono:
                parts.append(str(v))
            elif v == 1:
                parts.append(mono)
            else:
                parts.append(f"{v}*{mono}")
        return " + ".join(parts)

    def __repr__(self) -> str:
        return f"Poly({self.canon()})"


def _mul_mono(a: tuple, b: tuple) -> tuple:
    d = dict(a)
    for s, e in b:
        d[s] = d.get(s, 0) + e
    return tuple(sorted(d.items()))


class Rat:
    """Rational function num/den (not reduced); equality by cross-multiplication."""

    __slots__ = ("n", "d")

    def __init__(self, n: Poly, d: Poly | None = None):
        self.n = n
        self.d = d if d is not None else Poly.const(1)
        if self.d.is_zero():
            raise AnalysisError("division by the zero polynomial")

    def __add__(self, o: "Rat") -> "Rat":
        if self.d == o.d:
            return Rat(self.n + o.n, self.d)
        return Rat(self.n * o.d + o.n * self.d, self.d * o.d)

    def __neg__(self) -> "Rat":
        return Rat(-self.n, self.d)

    def __sub__(self, o: "Rat") -> "Rat":
        return self + (-o)

    def __mul__(self, o: "Rat") -> "Rat":
        return Rat(self.n * o.n, self.d * o.d)

    def __truediv__(self, o: "Rat") -> "Rat":
        if o.n.is_zero():
            raise AnalysisError("division by zero rational")
        return Rat(self.n * o.d, self.d * o.n)

    def __pow__(self, k: int) -> "Rat":
        if k >= 0:
            return Rat(self.n ** k, self.d ** k)
        return Rat(self.d ** (-k), self.n ** (-k))

    def equals(self, o: "Rat") -> bool:
        return (self.n * o.d - o.n * self.d).is_zero()

    def is_zero(self) -> bool:
        return self.n.is_zero()

    @staticmethod
    def const(c) -> "Rat":
        return Rat(Poly.const(c))

    @staticmethod
    def sym(s: str) -> "Rat":
        return Rat(Poly.sym(s))


# --------------------------------------------------------------------------
# AST -> Poly
# --------------------------------------------------------------------------

KW_POSITIONS = {
    "np.fft.rfft": ["a", "n"], "np.fft.irfft": ["a", "n"], "np.fft.fft": ["a", "n"], "np.fft.ifft": ["a", "n"],
    "np.fromfile": ["file", "dtype", "count", "sep", "offset"], "np.pad": ["array", "pad_width", "mode"],
    "np.apply_along_axis": ["func1d", "axis", "arr"], "np.expand_dims": ["a", "axis"], "np.median": ["a", "axis"], "np.mean": ["a", "axis"],
    "np.moveaxis": ["a", "source", "destination"], "np.roll": ["a", "shift", "axis"], "np.sum": ["a", "axis"], "np.zeros": ["shape", "dtype"], "np.empty": ["shape", "dtype"],
}


# methods of the package's own classes whose name is unique in the package: receiver-independent
KW_METHOD_POSITIONS = {".new_header": ["update_dict"], ".mjd_after_nsamps": ["nsamps"], ".get_dmdelays": ["dm", "ref_freq"]}

_INT_ATOM = re.compile(r"(\.tell(#\d+)?\(\)$)|(^len\()|(^struct\.calcsize\()|(\.st_size$)|(^np\.where\(.*\)\[0\]\[0\]$)|(\.argmax\(\)$)|(\.argmin\(\)$)|"
                       r"(^np\.(argmax|argmin|searchsorted|count_nonzero)\()|(\.size$)|(\.ndim$)|(\.shape\[-?\d+\]$)")


def _integer_valued(p: "Poly") -> bool:
    """Integer coefficients over atoms that are integers by construction (file positions, lengths, sizes)."""
    if not p.t:
        return True
    for mono, coeff in p.t.items():
        if Fraction(coeff).denominator != 1:
            return False
        for sym, _ in mono:
            if not _INT_ATOM.search(sym):
                return False
    return True


_SEQ_METHODS = {"encode", "decode", "join", "pack", "tobytes", "format", "strip", "upper", "lower", "replace", "ljust", "rjust", "zfill", "tolist"}
_SEQ_FUNCS = {"struct.pack", "str", "bytes", "bytearray", "repr", "encode_key", "encode_header", "sigproc.encode_header", "sigproc.encode_key", "list", "tuple",
              "sorted"}


_METHOD_REDUCTIONS = {"any", "all", "round"}   # x.m(...) is np.m(x, ...)
_MODULE_NAMES = {"np", "numpy", "bn", "math", "scipy", "stats", "kernels", "builtins", "operator"}


def _is_sequence(e: ast.AST) -> bool:
    """Syntactically a str / bytes / list / tuple value: `+` on it is concatenation, not addition."""
    if isinstance(e, ast.Constant):
        return isinstance(e.value, (str, bytes))
    if isinstance(e, (ast.JoinedStr, ast.List, ast.Tuple, ast.ListComp)):
        return True
    if isinstance(e, ast.Call):
        d = dotted(e.func)
        if d in _SEQ_FUNCS:
            return True
        return isinstance(e.func, ast.Attribute) and e.func.attr in _SEQ_METHODS
    if isinstance(e, ast.BinOp) and isinstance(e.op, ast.Add):
        return _is_sequence(e.left) or _is_sequence(e.right)
    if isinstance(e, ast.BinOp) and isinstance(e.op, ast.Mult):
        return _is_sequence(e.left) or _is_sequence(e.right)
    return False


def _concat_parts(e: ast.AST) -> list[ast.AST]:
    if isinstance(e, ast.BinOp) and isinstance(e.op, ast.Add):
        return _concat_parts(e.left) + _concat_parts(e.right)
    if isinstance(e, ast.Call) and isinstance(e.func, ast.Attribute) and e.func.attr == "join" and isinstance(e.func.value, ast.Constant) \
            and e.func.value.value in ("", b"") and len(e.args) == 1 and isinstance(e.args[0], (ast.List, ast.Tuple)):
        # b"".join([a, *xs, b]) is a + sum(xs) + b
        out: list[ast.AST] = []
        for x in e.args[0].elts:
            if isinstance(x, ast.Starred):
                out.append(ast.Call(func=ast.Name(id="sum", ctx=ast.Load()), args=[x.value], keywords=[]))
            else:
                out.extend(_concat_parts(x))
        return out
    return [e]


SIGNATURE_MODE = [False]   # set while effect signatures are built: value-preserving conversions are transparent


def _chain_choice(e: ast.AST) -> ast.IfExp | None:
    """chain([c], X)[k] is c for k == 0 and X[k - 1] otherwise (X[:-1][j] is X[j])."""
    if not (isinstance(e, ast.Subscript) and isinstance(e.value, ast.Call) and dotted(e.value.func) in ("itertools.chain", "chain")
            and len(e.value.args) == 2 and isinstance(e.value.args[0], (ast.List, ast.Tuple)) and len(e.value.args[0].elts) == 1
            and not isinstance(e.slice, (ast.Slice, ast.Tuple)) and not e.value.keywords):
        return None
    rest = e.value.args[1]
    if isinstance(rest, ast.Subscript) and isinstance(rest.slice, ast.Slice) and rest.slice.lower is None and rest.slice.step is None:
        rest = rest.value
    km1 = ast.BinOp(left=e.slice, op=ast.Sub(), right=ast.Constant(1))
    return ast.IfExp(test=ast.Compare(left=e.slice, ops=[ast.Eq()], comparators=[ast.Constant(0)]),
                     body=e.value.args[0].elts[0], orelse=ast.Subscript(value=rest, slice=km1, ctx=ast.Load()))


def _as_choice(e: ast.AST) -> ast.IfExp | None:
    return e if isinstance(e, ast.IfExp) else _chain_choice(e)


class PolyEnv:
    """Converts expressions to polynomials.

    `names`: map local name -> Poly (substitution).  Unknown names become
    symbols.  Attribute chains become symbols named by their dotted text.
    Calls / subscripts / other constructs become opaque atoms whose name embeds
    the canonical form of their arguments, so equal arguments give equal atoms.
    """

    def __init__(self, names: dict[str, Poly] | None = None, atom_hook=None, alias: dict[str, str] | None = None,
                 mod_transparent: bool = False):
        self.names = dict(names or {})
        self.atom_hook = atom_hook
        self.alias = dict(alias or {})
        self.mod_transparent = mod_transparent

    def poly(self, e: ast.AST) -> Poly:
        if isinstance(e, ast.Constant):
            if isinstance(e.value, bool):
                return Poly.const(int(e.value))
            if isinstance(e.value, int):
                return Poly.const(e.value)
            if isinstance(e.value, float):
                return Poly.const(Fraction(str(e.value)))
            return self.atom(e)
        if isinstance(e, ast.Name):
            if e.id in self.names:
                return self.names[e.id]
            return Poly.sym(self.alias.get(e.id, e.id))
        if isinstance(e, ast.Attribute):
            d = dotted(e)
            if d is not None:
                d = self.alias.get(d, d)
                if d in self.names:
                    return self.names[d]
                return Poly.sym(d)
            return self.atom(e)
        if isinstance(e, ast.UnaryOp):
            if isinstance(e.op, ast.USub):
                return -self.poly(e.operand)
            if isinstance(e.op, ast.UAdd):
                return self.poly(e.operand)
            return self.atom(e)
        if isinstance(e, ast.BinOp):
            lc_, rc_ = _as_choice(e.left), _as_choice(e.right)
            if isinstance(e.op, (ast.Add, ast.Sub)) and (lc_ is None) != (rc_ is None) and not (_is_sequence(e.left) or _is_sequence(e.right)):
                # a - (x if c else y) is (a - x) if c else (a - y): a choice is lifted out of an affine offset
                c_ = rc_ if rc_ is not None else lc_
                mk = (lambda v: ast.BinOp(left=e.left, op=e.op, right=v)) if rc_ is not None else (lambda v: ast.BinOp(left=v, op=e.op, right=e.right))
                return self.poly(ast.IfExp(test=c_.test, body=mk(c_.body), orelse=mk(c_.orelse)))
            if isinstance(e.op, ast.Add) and (_is_sequence(e.left) or _is_sequence(e.right)):
                # bytes / str / list concatenation: order matters
                return Poly.sym("concat(" + ", ".join(self._arg(p) for p in _concat_parts(e)) + ")")
            if isinstance(e.op, ast.Add):
                return self.poly(e.left) + self.poly(e.right)
            if isinstance(e.op, ast.Sub):
                return self.poly(e.left) - self.poly(e.right)
            if isinstance(e.op, ast.Mult):
                return self.poly(e.left) * self.poly(e.right)
            if isinstance(e.op, ast.Pow):
                r = self.poly(e.right)
                if r.is_const() and r.const_value().denominator == 1 and 0 <= r.const_value() <= 8:
                    return self.poly(e.left) ** int(r.const_value())
                return self.atom(e)
            if isinstance(e.op, ast.Div):
                r = self.poly(e.right)
                if r.is_const() and r.const_value() != 0:
                    return self.poly(e.left).scale(1 / r.const_value())
                return self.atom(e)
            if isinstance(e.op, ast.Mod) and self.mod_transparent:
                return self.poly(e.left)
            if isinstance(e.op, ast.LShift):
                r = self.poly(e.right)
                if r.is_const() and r.const_value().denominator == 1 and 0 <= r.const_value() < 64:
                    return self.poly(e.left).scale(2 ** int(r.const_value()))
                return self.atom(e)
            return self.atom(e)
        if isinstance(e, ast.NamedExpr):
            return self.poly(e.value)
        if SIGNATURE_MODE[0] and isinstance(e, ast.Call) and dotted(e.func) in ("np.asarray", "np.asanyarray") and len(e.args) == 1 and not e.keywords:
            return self.poly(e.args[0])   # the array itself (a list becomes an array: not a difference a definition speaks about)
        if isinstance(e, ast.Subscript) and isinstance(e.value, ast.Call) and dotted(e.value.func) == "divmod" and len(e.value.args) == 2 \
                and isinstance(e.slice, ast.Constant) and e.slice.value in (0, 1):
            # divmod(a, b)[0] is a // b and [1] is a % b
            a_, b_ = e.value.args
            return self.poly(ast.BinOp(left=a_, op=ast.FloorDiv() if e.slice.value == 0 else ast.Mod(), right=b_))
        if _chain_choice(e) is not None:
            return self.poly(_chain_choice(e))
        if isinstance(e, ast.Subscript) and isinstance(e.value, ast.Dict) and isinstance(e.slice, ast.Constant):
            # {**m, 'k': v}['k'] is v (the last binding of a literal key wins; a later ** splat may rebind it)
            for k_, v_ in reversed(list(zip(e.value.keys, e.value.values))):
                if k_ is None:
                    break
                if isinstance(k_, ast.Constant) and k_.value == e.slice.value:
                    return self.poly(v_)
                if not isinstance(k_, ast.Constant):
                    break
        if isinstance(e, ast.Subscript) and isinstance(e.value, ast.Call) and dotted(e.value.func) == "range" and 1 <= len(e.value.args) <= 3 \
                and not isinstance(e.slice, (ast.Slice, ast.Tuple)):
            # range(a, b, s)[k] is a + s*k
            a_ = e.value.args
            start = self.poly(a_[0]) if len(a_) >= 2 else Poly.const(0)
            step = self.poly(a_[2]) if len(a_) == 3 else Poly.const(1)
            return start + step * self.poly(e.slice)
        if isinstance(e, ast.Subscript) and isinstance(e.value, ast.ListComp) and len(e.value.generators) == 1 and not e.value.generators[0].ifs \
                and isinstance(e.value.generators[0].target, ast.Name) and isinstance(e.value.generators[0].iter, ast.Call) \
                and dotted(e.value.generators[0].iter.func) == "range" and len(e.value.generators[0].iter.args) == 1 and not isinstance(e.slice, (ast.Slice, ast.Tuple)):
            # element k of [f(i) for i in range(n)] is f(k)
            import copy
            var, idx = e.value.generators[0].target.id, e.slice

            class S(ast.NodeTransformer):
                def visit_Name(self, node):  # noqa: N802
                    return copy.deepcopy(idx) if node.id == var and isinstance(node.ctx, ast.Load) else node
            return self.poly(S().visit(copy.deepcopy(e.value.elt)))
        if isinstance(e, ast.Call) and len(_concat_parts(e)) > 1:
            return Poly.sym("concat(" + ", ".join(self._arg(p) for p in _concat_parts(e)) + ")")
        if isinstance(e, ast.Call):
            d = dotted(e.func)
            if d in ("int", "np.int32", "np.int64", "float", "np.float32", "np.float64") and len(e.args) == 1 and not e.keywords:
                inner = self.poly(e.args[0])
                # int() of an integer-valued polynomial expression is kept transparent
                # only when the hook says so; default: opaque cast atom
                if self.atom_hook is not None:
                    r = self.atom_hook("cast", d, inner)
                    if r is not None:
                        return r
                if d in ("int", "np.int64") and _integer_valued(inner):
                    return inner   # int() of an integer is the integer
                return Poly.sym(f"{d}({inner.canon()})")
            return self.atom(e)
        return self.atom(e)

    def atom(self, e: ast.AST) -> Poly:
        return Poly.sym(self.atom_name(e))

    def atom_name(self, e: ast.AST) -> str:
        if isinstance(e, ast.Subscript):
            return f"{self._operand(e.value)}[{self._slice(e.slice)}]"
        if isinstance(e, ast.Call) and dotted(e.func) in ("tuple", "list") and len(e.args) == 1 and not e.keywords:
            inner = self.atom_name(e.args[0]) if isinstance(e.args[0], (ast.List, ast.Tuple, ast.ListComp, ast.GeneratorExp)) else None
            if inner is not None and inner[:1] in "[(" and inner[-1:] in "])":
                # tuple([...]) / list((...)) of a literal sequence is that sequence
                return ("(" + inner[1:-1] + ")") if dotted(e.func) == "tuple" else ("[" + inner[1:-1] + "]")
        if isinstance(e, ast.Call) and isinstance(e.func, ast.Attribute) and e.func.attr in _METHOD_REDUCTIONS \
                and not (isinstance(e.func.value, ast.Name) and e.func.value.id in _MODULE_NAMES):
            # x.any() is np.any(x): the method form of an array reduction is its function form
            return self.atom_name(ast.Call(func=ast.Attribute(value=ast.Name(id="np", ctx=ast.Load()), attr=e.func.attr, ctx=ast.Load()),
                                           args=[e.func.value] + list(e.args), keywords=list(e.keywords)))
        if isinstance(e, ast.Call) and dotted(e.func) == "np.rint" and len(e.args) == 1 and not e.keywords:
            return self.atom_name(ast.Call(func=ast.Attribute(value=ast.Name(id="np", ctx=ast.Load()), attr="round", ctx=ast.Load()), args=e.args, keywords=[]))
        if isinstance(e, ast.Call):
            fn = dotted(e.func) or self._operand(e.func)
            pos = list(e.args)
            kws = list(e.keywords)
            sig = KW_POSITIONS.get(re.sub(r"#\d+", "", fn)) or next((v for k, v in KW_METHOD_POSITIONS.items() if re.sub(r"#\d+", "", fn).endswith(k)), None)
            if sig and kws:
                # keyword arguments of well-known signatures are normalised to positional form
                byname = {k.arg: k.value for k in kws}
                rest = []
                for i, name in enumerate(sig):
                    if i < len(pos):
                        continue
                    if name in byname and len(pos) == i:
                        pos.append(byname.pop(name))
                kws = [k for k in kws if k.arg in byname]
            args = [self._arg(a) for a in pos] + [f"{k.arg}={self._arg(k.value)}" for k in sorted(kws, key=lambda k: k.arg or "")]
            return f"{fn}({', '.join(args)})"
        if isinstance(e, ast.BinOp):
            op = type(e.op).__name__
            return f"{op}({self._arg(e.left)}, {self._arg(e.right)})"
        if isinstance(e, ast.Constant):
            return repr(e.value)
        if isinstance(e, ast.IfExp):
            test, body, orelse = e.test, e.body, e.orelse
            while True:   # negated tests select the other branch
                if isinstance(test, ast.UnaryOp) and isinstance(test.op, ast.Not):
                    test, body, orelse = test.operand, orelse, body
                    continue
                if isinstance(test, ast.Compare) and len(test.ops) == 1 and isinstance(test.ops[0], (ast.NotEq, ast.IsNot, ast.NotIn)):
                    pos = {ast.NotEq: ast.Eq, ast.IsNot: ast.Is, ast.NotIn: ast.In}[type(test.ops[0])]
                    test, body, orelse = ast.Compare(left=test.left, ops=[pos()], comparators=test.comparators), orelse, body
                    continue
                break
            return f"ifexp({self._arg(test)}, {self._arg(body)}, {self._arg(orelse)})"
        if isinstance(e, ast.Compare):
            if len(e.ops) == 1:
                # a > b is b < a; the operands of == / != are unordered
                op, a, b = type(e.ops[0]).__name__, self._arg(e.left), self._arg(e.comparators[0])
                if op in ("Gt", "GtE"):
                    op, a, b = {"Gt": "Lt", "GtE": "LtE"}[op], b, a
                elif op in ("Eq", "NotEq") and b < a:
                    a, b = b, a
                return f"cmp[{op}]({a}, {b})"
            ops = ",".join(type(o).__name__ for o in e.ops)
            return f"cmp[{ops}]({', '.join(self._arg(x) for x in [e.left] + e.comparators)})"
        if isinstance(e, ast.Tuple):
            return "(" + ", ".join(self._arg(x) for x in e.elts) + ")"
        if isinstance(e, ast.Attribute):
            return f"{self._operand(e.value)}.{e.attr}"
        if isinstance(e, ast.Starred):
            return "*" + self._arg(e.value)
        if isinstance(e, (ast.ListComp, ast.SetComp, ast.GeneratorExp, ast.DictComp)):
            return self._comprehension(e)
        if isinstance(e, ast.Dict) and all(k is not None for k in e.keys):
            items = sorted(f"{self._arg(k)}: {self._arg(v)}" for k, v in zip(e.keys, e.values))
            return "{" + ", ".join(items) + "}"
        if isinstance(e, ast.List):
            return "[" + ", ".join(self._arg(x) for x in e.elts) + "]"
        if isinstance(e, ast.Set):
            return "{" + ", ".join(sorted(self._arg(x) for x in e.elts)) + "}"
        if isinstance(e, ast.JoinedStr):
            parts = []
            for v in e.values:
                if isinstance(v, ast.Constant):
                    parts.append(str(v.value).replace("{", "{{").replace("}", "}}"))
                elif isinstance(v, ast.FormattedValue):
                    conv = {-1: "", 115: "!s", 114: "!r", 97: "!a"}.get(v.conversion, "")
                    spec = (":" + "".join(str(x.value) if isinstance(x, ast.Constant) else "{" + self._arg(x.value) + "}" for x in v.format_spec.values)) \
                        if isinstance(v.format_spec, ast.JoinedStr) else ""
                    parts.append("{" + self._arg(v.value) + conv + spec + "}")
            return 'f"' + "".join(parts) + '"'
        if isinstance(e, ast.BoolOp):
            op = "and" if isinstance(e.op, ast.And) else "or"
            return f" {op} ".join(f"({self._arg(v)})" for v in e.values)
        if isinstance(e, ast.UnaryOp) and isinstance(e.op, ast.Not):
            o = e.operand
            neg = {ast.Eq: ast.NotEq, ast.NotEq: ast.Eq, ast.Is: ast.IsNot, ast.IsNot: ast.Is, ast.In: ast.NotIn, ast.NotIn: ast.In}
            if isinstance(o, ast.Compare) and len(o.ops) == 1 and type(o.ops[0]) in neg:
                return self.atom_name(ast.Compare(left=o.left, ops=[neg[type(o.ops[0])]()], comparators=o.comparators))
            if isinstance(o, ast.UnaryOp) and isinstance(o.op, ast.Not):
                return self._arg(o.operand)
            return f"not ({self._arg(e.operand)})"
        return " ".join(ast.unparse(e).split())

    def _comprehension(self, e: ast.AST) -> str:
        """Bound variables are named by position, the element and the iterables are in normal form.  A list
        comprehension over a literal tuple/list is the list of its instances."""
        import copy
        e = copy.deepcopy(e)
        if isinstance(e, (ast.ListComp, ast.GeneratorExp)) and len(e.generators) == 1 and not e.generators[0].ifs and \
                isinstance(e.generators[0].iter, (ast.Tuple, ast.List)) and isinstance(e.generators[0].target, ast.Name) and \
                not any(isinstance(x, ast.Starred) for x in e.generators[0].iter.elts):
            var = e.generators[0].target.id
            items = []
            for inst in e.generators[0].iter.elts:
                class S(ast.NodeTransformer):
                    def visit_Name(self, node):  # noqa: N802
                        return copy.deepcopy(inst) if node.id == var and isinstance(node.ctx, ast.Load) else node
                items.append(self._arg(S().visit(copy.deepcopy(e.elt))))
            return "[" + ", ".join(items) + "]"
        names: dict[str, str] = {}
        for g in e.generators:
            for n in ast.walk(g.target):
                if isinstance(n, ast.Name) and n.id not in names:
                    names[n.id] = f"_c{len(names)}"

        class R(ast.NodeTransformer):
            def visit_Name(self, node):  # noqa: N802
                if node.id in names:
                    return ast.copy_location(ast.Name(id=names[node.id], ctx=node.ctx), node)
                return node

        e = R().visit(e)
        gens = " ".join(f"for {' '.join(ast.unparse(g.target).split())} in {self._arg(g.iter)}" + "".join(f" if {self._arg(c)}" for c in g.ifs)
                        for g in e.generators)
        if isinstance(e, ast.DictComp):
            return "{" + f"{self._arg(e.key)}: {self._arg(e.value)} {gens}" + "}"
        o, c = {"ListComp": "[]", "SetComp": "{}", "GeneratorExp": "()"}[type(e).__name__]
        return f"{o}{self._arg(e.elt)} {gens}{c}"

    def _operand(self, e: ast.AST) -> str:
        """Canonical text usable as the operand of `.attr`, `[...]` or a call: compound polynomials are parenthesised."""
        try:
            p = self.poly(e)
        except AnalysisError:
            raise
        except Exception:
            return " ".join(ast.unparse(e).split())
        single = len(p.t) == 1 and next(iter(p.t.values())) == 1 and len(next(iter(p.t))) == 1 and next(iter(p.t))[0][1] == 1
        return p.canon() if single or p.is_const() else f"({p.canon()})"

    def _arg(self, e: ast.AST) -> str:
        try:
            return self.poly(e).canon()
        except AnalysisError:
            raise
        except Exception:
            return " ".join(ast.unparse(e).split())

    def _slice(self, s: ast.AST) -> str:
        if isinstance(s, ast.Slice):
            lo = self._arg(s.lower) if s.lower is not None else ""
            hi = self._arg(s.upper) if s.upper is not None else ""
            st = self._arg(s.step) if s.step is not None else ""
            return f"{lo}:{hi}" + (f":{st}" if st else "")
        if isinstance(s, ast.Tuple):
            return ", ".join(self._slice(x) for x in s.elts)
        return self._arg(s)


class RatEnv:
    """Expressions -> rational functions (division handled exactly)."""

    def __init__(self, names: dict[str, "Rat"] | None = None):
        self.names = dict(names or {})
        self._penv = PolyEnv()

    def rat(self, e: ast.AST) -> Rat:
        if isinstance(e, ast.Constant) and isinstance(e.value, (int, float)) and not isinstance(e.value, bool):
            return Rat(Poly.const(Fraction(str(e.value))))
        if isinstance(e, ast.Name):
            return self.names.get(e.id, Rat.sym(e.id))
        if isinstance(e, ast.Attribute):
            d = dotted(e)
            if d is not None:
                return self.names.get(d, Rat.sym(d))
        if isinstance(e, ast.UnaryOp) and isinstance(e.op, ast.USub):
            return -self.rat(e.operand)
        if isinstance(e, ast.UnaryOp) and isinstance(e.op, ast.UAdd):
            return self.rat(e.operand)
        if isinstance(e, ast.BinOp):
            if isinstance(e.op, ast.Add):
                return self.rat(e.left) + self.rat(e.right)
            if isinstance(e.op, ast.Sub):
                return self.rat(e.left) - self.rat(e.right)
            if isinstance(e.op, ast.Mult):
                return self.rat(e.left) * self.rat(e.right)
            if isinstance(e.op, ast.Div):
                return self.rat(e.left) / self.rat(e.right)
            if isinstance(e.op, ast.Pow):
                r = self.rat(e.right)
                if r.d == Poly.const(1) and r.n.is_const() and r.n.const_value().denominator == 1 \
                        and abs(r.n.const_value()) <= 8:
                    return self.rat(e.left) ** int(r.n.const_value())
        # opaque atom
        return Rat.sym(self._penv.atom_name(e))
