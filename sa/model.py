"""Program model: loader, index, import/call/type resolver for /repo/sigpyproc.

Pure stdlib.  The analyser never imports the analysed package.
"""
from __future__ import annotations

import ast
import builtins
import hashlib
import os
from pathlib import Path


class AnalysisError(Exception):
    """The analyser cannot decide (anchor vanished, unknown construct...)."""


PKG = "sigpyproc"


def repo_root() -> Path:
    return Path(os.environ.get("SA_REPO", "/repo"))


def dotted(node: ast.AST) -> str | None:
    """`a.b.c` -> 'a.b.c' for Name/Attribute chains, else None."""
    parts = []
    while isinstance(node, ast.Attribute):
        parts.append(node.attr)
        node = node.value
    if isinstance(node, ast.Name):
        parts.append(node.id)
        return ".".join(reversed(parts))
    return None


def set_parents(tree: ast.AST) -> None:
    for parent in ast.walk(tree):
        for child in ast.iter_child_nodes(parent):
            child._parent = parent  # type: ignore[attr-defined]


def parent(node: ast.AST) -> ast.AST | None:
    return getattr(node, "_parent", None)


def norm(node: ast.AST) -> str:
    """Normalised text of a construct (used for finding keys; no line numbers)."""
    return " ".join(ast.unparse(node).split())


class FuncInfo:
    def __init__(self, module: "Module", qualname: str, node: ast.FunctionDef, cls: "ClassInfo | None"):
        self.module = module
        self.qualname = qualname
        self.node = node
        self.cls = cls
        self.name = node.name
        self.decorators = [dotted(d.func if isinstance(d, ast.Call) else d) or "?" for d in node.decorator_list]
        self.is_property = "property" in self.decorators
        self.is_classmethod = "classmethod" in self.decorators
        self.is_staticmethod = "staticmethod" in self.decorators
        self.is_abstract = "abstractmethod" in self.decorators
        self.numba = self._numba_facts()
        # njit call-form twins: filled by Module
        self.twins: list[dict] = []

    def _numba_facts(self) -> dict | None:
        for d in self.node.decorator_list:
            f = d.func if isinstance(d, ast.Call) else d
            if dotted(f) in ("njit", "numba.njit", "jit", "numba.jit"):
                facts = {"parallel": False, "fastmath": False, "signatures": [], "locals": {}}
                if isinstance(d, ast.Call):
                    for a in d.args:
                        try:
                            v = ast.literal_eval(a)
                        except Exception:
                            continue
                        facts["signatures"] = [v] if isinstance(v, str) else list(v)
                    for kw in d.keywords:
                        if kw.arg in ("parallel", "fastmath", "cache", "nogil"):
                            try:
                                facts[kw.arg] = bool(ast.literal_eval(kw.value))
                            except Exception:
                                facts[kw.arg] = True
                        if kw.arg == "locals" and isinstance(kw.value, ast.Dict):
                            for k, v in zip(kw.value.keys, kw.value.values):
                                if isinstance(k, ast.Constant):
                                    facts["locals"][k.value] = dotted(v) or norm(v)
                return facts
        return None

    @property
    def ident(self) -> str:
        return f"{self.module.name}::{self.qualname}"

    @property
    def params(self) -> list[str]:
        a = self.node.args
        return [x.arg for x in a.posonlyargs + a.args] + [x.arg for x in a.kwonlyargs]

    @property
    def positional_params(self) -> list[str]:
        a = self.node.args
        return [x.arg for x in a.posonlyargs + a.args]

    def param_default(self, name: str) -> ast.AST | None:
        a = self.node.args
        pos = a.posonlyargs + a.args
        for arg, d in zip(pos[len(pos) - len(a.defaults):], a.defaults):
            if arg.arg == name:
                return d
        for arg, d in zip(a.kwonlyargs, a.kw_defaults):
            if arg.arg == name:
                return d
        return None

    def param_annotation(self, name: str) -> ast.AST | None:
        a = self.node.args
        for arg in a.posonlyargs + a.args + a.kwonlyargs:
            if arg.arg == name:
                return arg.annotation
        return None

    def __repr__(self) -> str:
        return f"<Func {self.ident}>"


class ClassInfo:
    def __init__(self, module: "Module", node: ast.ClassDef):
        self.module = module
        self.node = node
        self.name = node.name
        self.bases = [dotted(b) or "?" for b in node.bases]
        self.methods: dict[str, FuncInfo] = {}
        self.fields: dict[str, ast.AnnAssign] = {}
        self.class_consts: dict[str, ast.AST] = {}
        self.decorators = [dotted(d.func if isinstance(d, ast.Call) else d) or "?" for d in node.decorator_list]
        for st in node.body:
            if isinstance(st, ast.AnnAssign) and isinstance(st.target, ast.Name):
                self.fields[st.target.id] = st
                if st.value is not None:
                    self.class_consts[st.target.id] = st.value
            elif isinstance(st, ast.Assign):
                for t in st.targets:
                    if isinstance(t, ast.Name):
                        self.class_consts[t.id] = st.value

    @property
    def is_attrs(self) -> bool:
        return any(d.startswith("attrs.") or d.startswith("attr.") for d in self.decorators)

    @property
    def attrs_fields(self) -> list[str]:
        """attrs fields = annotated class-level names that are not ClassVar."""
        out = []
        for name, st in self.fields.items():
            ann = norm(st.annotation)
            if ann.startswith("ClassVar"):
                continue
            out.append(name)
        return out

    def __repr__(self) -> str:
        return f"<Class {self.module.name}::{self.name}>"


class Module:
    def __init__(self, name: str, path: Path, rel: str, src: str | None = None, inline: bool = True):
        self.name = name
        self.path = path
        self.rel = rel
        self.src = path.read_text() if src is None else src
        self.sha = hashlib.sha256(self.src.encode()).hexdigest()
        self.tree = ast.parse(self.src, filename=str(path))
        # helpers that no rule knows (extract-function refactorings) are dissolved into their callers: see inline.py
        from .inline import apply as dissolve_helpers
        self.inlined: list[str] = dissolve_helpers(self.tree, name.split('sigpyproc.', 1)[-1] if name != 'sigpyproc' else '') if inline else []
        # a helper every call of which was dissolved no longer exists as far as the rules are concerned
        self.dissolved: set[str] = set()
        if self.inlined:
            called_names = {c.func.id for c in ast.walk(self.tree) if isinstance(c, ast.Call) and isinstance(c.func, ast.Name)}
            called_attrs = {c.func.attr for c in ast.walk(self.tree) if isinstance(c, ast.Call) and isinstance(c.func, ast.Attribute)}
            for q in set(self.inlined):
                still = (q.split(".")[-1] in called_attrs) if "." in q else (q in called_names or q in called_attrs)
                if not still:
                    self.dissolved.add(q)
        set_parents(self.tree)
        self.imports: dict[str, str] = {}
        self.funcs: dict[str, FuncInfo] = {}
        self.classes: dict[str, ClassInfo] = {}
        self.consts: dict[str, ast.AST] = {}
        self.njit_twins: dict[str, dict] = {}
        self._index()

    def _index(self) -> None:
        for node in ast.walk(self.tree):
            if isinstance(node, ast.Import):
                for a in node.names:
                    self.imports[a.asname or a.name.split(".")[0]] = a.name if a.asname else a.name.split(".")[0]
            elif isinstance(node, ast.ImportFrom):
                base = node.module or ""
                for a in node.names:
                    self.imports[a.asname or a.name] = f"{base}.{a.name}" if base else a.name
        for st in self.tree.body:
            self._index_stmt(st)

    def _index_stmt(self, st: ast.stmt) -> None:
        if isinstance(st, ast.FunctionDef) and st.name in self.dissolved:
            return
        if isinstance(st, ast.FunctionDef):
            fi = FuncInfo(self, st.name, st, None)
            self.funcs[st.name] = fi
            self._index_nested(st, st.name)
        elif isinstance(st, ast.ClassDef):
            ci = ClassInfo(self, st)
            self.classes[st.name] = ci
            for sub in st.body:
                if isinstance(sub, ast.FunctionDef) and f"{st.name}.{sub.name}" not in self.dissolved:
                    q = f"{st.name}.{sub.name}"
                    fi = FuncInfo(self, q, sub, ci)
                    # property setters etc. share a name: keep the first (getter)
                    if sub.name not in ci.methods:
                        ci.methods[sub.name] = fi
                        self.funcs[q] = fi
        elif isinstance(st, ast.Assign):
            for t in st.targets:
                if isinstance(t, ast.Name):
                    self.consts[t.id] = st.value
                    v = st.value
                    if isinstance(v, ast.Call) and dotted(v.func) in ("njit", "numba.njit") and v.args:
                        src = dotted(v.args[0])
                        if src and src.endswith(".py_func"):
                            facts = {"of": src[: -len(".py_func")], "parallel": False, "fastmath": False}
                            for kw in v.keywords:
                                if kw.arg in ("parallel", "fastmath"):
                                    try:
                                        facts[kw.arg] = bool(ast.literal_eval(kw.value))
                                    except Exception:
                                        facts[kw.arg] = True
                            self.njit_twins[t.id] = facts
        elif isinstance(st, ast.AnnAssign) and isinstance(st.target, ast.Name) and st.value is not None:
            self.consts[st.target.id] = st.value
        elif isinstance(st, ast.If):
            # `if TYPE_CHECKING:` blocks: index imports only (done by walk)
            for sub in st.body + st.orelse:
                if isinstance(sub, (ast.ClassDef, ast.FunctionDef)) and norm(st.test) != "TYPE_CHECKING":
                    self._index_stmt(sub)

    def _index_nested(self, fn: ast.FunctionDef, prefix: str) -> None:
        for sub in ast.walk(fn):
            if sub is not fn and isinstance(sub, ast.FunctionDef):
                q = f"{prefix}.<locals>.{sub.name}"
                self.funcs.setdefault(q, FuncInfo(self, q, sub, None))


class Program:
    def __init__(self, root: Path | None = None, overlay: dict[str, str] | None = None, inline: bool = True):
        self.root = Path(root) if root else repo_root()
        overlay = overlay or {}
        self.overlay = overlay
        pkg = self.root / PKG
        if not pkg.is_dir():
            raise AnalysisError(f"package directory {pkg} not found")
        self.modules: dict[str, Module] = {}
        for path in sorted(pkg.rglob("*.py")):
            if "__pycache__" in path.parts:
                continue
            rel = path.relative_to(self.root).as_posix()
            name = rel[:-3].replace("/", ".")
            if name.endswith(".__init__"):
                name = name[: -len(".__init__")]
            try:
                self.modules[name] = Module(name, path, rel, overlay.get(rel), inline)
            except SyntaxError as exc:
                raise AnalysisError(f"cannot parse {rel}: {exc}") from exc
        self._method_index: dict[str, list[FuncInfo]] = {}
        for m in self.modules.values():
            for f in m.funcs.values():
                if f.cls is not None:
                    self._method_index.setdefault(f.name, []).append(f)
        self.consulted: set[str] = set()
        self.unresolved: list[str] = []
        self.resolved_count = 0
        self._register_signatures()

    def _register_signatures(self) -> None:
        """Parameter orders of the package's own functions and constructors, so that keyword and positional spellings
        of one call have one canonical form (poly.KW_POSITIONS)."""
        from .poly import KW_POSITIONS
        seen: dict[str, list[list[str]]] = {}
        for m in self.modules.values():
            tail = m.name.split(".")[-1]
            for f in m.funcs.values():
                if f.cls is None and "<locals>" not in f.qualname:
                    ps = [a.arg for a in (*f.node.args.posonlyargs, *f.node.args.args)]
                    seen.setdefault(f.name, []).append(ps)
                    seen.setdefault(f"{tail}.{f.name}", []).append(ps)
            for c in m.classes.values():
                init = c.methods.get("__init__")
                if init is not None:
                    ps = [a.arg for a in (*init.node.args.posonlyargs, *init.node.args.args)][1:]
                elif c.is_attrs:
                    ps = [n for n in c.attrs_fields if "init=False" not in norm(c.fields[n].value or ast.Constant(None))]
                else:
                    continue
                seen.setdefault(c.name, []).append(ps)
        for k, v in seen.items():
            if len(v) == 1 and k not in KW_POSITIONS:
                KW_POSITIONS[k] = v[0]

    # ---- lookup ---------------------------------------------------------
    def module(self, name: str) -> Module:
        if name not in self.modules:
            raise AnalysisError(f"anchor module {name} not found")
        self.consulted.add(name)
        return self.modules[name]

    def func(self, module: str, qualname: str) -> FuncInfo:
        m = self.module(module)
        if qualname not in m.funcs:
            raise AnalysisError(f"anchor function {module}::{qualname} not found")
        return m.funcs[qualname]

    def has_func(self, module: str, qualname: str) -> bool:
        return module in self.modules and qualname in self.modules[module].funcs

    def cls(self, module: str, name: str) -> ClassInfo:
        m = self.module(module)
        if name not in m.classes:
            raise AnalysisError(f"anchor class {module}::{name} not found")
        return m.classes[name]

    def const(self, module: str, name: str) -> ast.AST:
        m = self.module(module)
        if name not in m.consts:
            # a table that moved to another module of the package (and is imported back or referenced there) is the same table
            homes = [o for o in self.modules.values() if name in o.consts]
            if len(homes) == 1:
                self.consulted.add(homes[0].name)
                return homes[0].consts[name]
            raise AnalysisError(f"anchor table {module}::{name} not found")
        return m.consts[name]

    def literal(self, module: str, name: str):
        node = self.const(module, name)
        # unwrap bidict({...}) / dict({...})
        if isinstance(node, ast.Call) and dotted(node.func) in ("bidict", "dict") and node.args:
            node = node.args[0]
        try:
            return ast.literal_eval(node)
        except Exception as exc:
            raise AnalysisError(f"table {module}::{name} is not a literal: {exc}") from exc

    def all_funcs(self):
        for m in self.modules.values():
            yield from m.funcs.values()

    def digests(self, names=None) -> dict[str, str]:
        names = sorted(names if names is not None else self.consulted)
        return {self.modules[n].rel: self.modules[n].sha[:16] for n in names if n in self.modules}

    # ---- class hierarchy -------------------------------------------------
    def find_class(self, name: str, ctx: Module | None = None) -> ClassInfo | None:
        name = name.split(".")[-1]
        if ctx is not None and name in ctx.classes:
            return ctx.classes[name]
        if ctx is not None and name in ctx.imports:
            full = ctx.imports[name]
            mod, _, cname = full.rpartition(".")
            if mod in self.modules and cname in self.modules[mod].classes:
                return self.modules[mod].classes[cname]
        hits = [m.classes[name] for m in self.modules.values() if name in m.classes]
        return hits[0] if len(hits) == 1 else None

    def mro(self, ci: ClassInfo) -> list[ClassInfo]:
        out, seen = [], set()

        def rec(c: ClassInfo) -> None:
            if id(c) in seen:
                return
            seen.add(id(c))
            out.append(c)
            for b in c.bases:
                bc = self.find_class(b, c.module)
                if bc is not None:
                    rec(bc)

        rec(ci)
        return out

    def subclasses(self, ci: ClassInfo) -> list[ClassInfo]:
        out = []
        for m in self.modules.values():
            for c in m.classes.values():
                if c is not ci and ci in self.mro(c):
                    out.append(c)
        return out

    def lookup_method(self, ci: ClassInfo, name: str, *, with_overrides: bool = True) -> list[FuncInfo]:
        found: list[FuncInfo] = []
        for c in self.mro(ci):
            if name in c.methods:
                found.append(c.methods[name])
                break
        if with_overrides:
            for sc in self.subclasses(ci):
                if name in sc.methods and sc.methods[name] not in found:
                    found.append(sc.methods[name])
        # an abstract base method is represented by its concrete overrides
        concrete = [f for f in found if not f.is_abstract]
        return concrete or found

    # ---- type inference (annotation driven, deliberately small) ----------
    def class_from_annotation(self, ann: ast.AST | None, ctx: Module) -> ClassInfo | None:
        if ann is None:
            return None
        if isinstance(ann, ast.Constant) and isinstance(ann.value, str):
            try:
                ann = ast.parse(ann.value, mode="eval").body
            except SyntaxError:
                return None
        if isinstance(ann, ast.BinOp) and isinstance(ann.op, ast.BitOr):
            for side in (ann.left, ann.right):
                c = self.class_from_annotation(side, ctx)
                if c is not None:
                    return c
            return None
        d = dotted(ann)
        if d is None:
            return None
        if d == "Self":
            return None
        return self.find_class(d, ctx)

    def type_of(self, expr: ast.AST, fn: FuncInfo, _depth: int = 0) -> ClassInfo | None:
        if _depth > 6:
            return None
        mod = fn.module
        if isinstance(expr, ast.Name):
            if expr.id in ("self", "cls") and fn.cls is not None:
                return fn.cls
            ann = fn.param_annotation(expr.id)
            if ann is not None:
                c = self.class_from_annotation(ann, mod)
                if c is not None:
                    return c
            # local assignment `x = Class(...)` / `x = call()` with annotated return
            for node in ast.walk(fn.node):
                val = None
                if isinstance(node, ast.Assign) and any(isinstance(t, ast.Name) and t.id == expr.id for t in node.targets):
                    val = node.value
                elif isinstance(node, ast.withitem) and isinstance(node.optional_vars, ast.Name) and node.optional_vars.id == expr.id:
                    val = node.context_expr
                elif isinstance(node, ast.AnnAssign) and isinstance(node.target, ast.Name) and node.target.id == expr.id:
                    c = self.class_from_annotation(node.annotation, mod)
                    if c is not None:
                        return c
                if val is not None:
                    c = self.type_of(val, fn, _depth + 1)
                    if c is not None:
                        return c
            return None
        if isinstance(expr, ast.Call):
            d = dotted(expr.func)
            if d is not None:
                c = self.find_class(d, mod) if (d.split(".")[-1][:1].isupper()) else None
                if c is not None:
                    return c
            for callee in self.resolve_call(expr, fn, record=False, _depth=_depth + 1):
                if isinstance(callee, FuncInfo):
                    if callee.name == "__init__" and callee.cls is not None:
                        return callee.cls
                    if callee.is_classmethod and norm(callee.node.returns or ast.Constant("")) in (
                        callee.cls.name if callee.cls else "", "Self"):
                        return callee.cls
                    c = self.class_from_annotation(callee.node.returns, callee.module)
                    if c is not None:
                        return c
            return None
        if isinstance(expr, ast.Attribute):
            base = self.type_of(expr.value, fn, _depth + 1)
            if base is None:
                return None
            for c in self.mro(base):
                if expr.attr in c.methods and c.methods[expr.attr].is_property:
                    p = c.methods[expr.attr]
                    r = self.class_from_annotation(p.node.returns, p.module)
                    if r is not None:
                        return r
                if expr.attr in c.fields:
                    r = self.class_from_annotation(c.fields[expr.attr].annotation, c.module)
                    if r is not None:
                        return r
                init = c.methods.get("__init__")
                if init is not None:
                    for node in ast.walk(init.node):
                        if isinstance(node, (ast.Assign, ast.AnnAssign)):
                            targets = node.targets if isinstance(node, ast.Assign) else [node.target]
                            for t in targets:
                                if dotted(t) == f"self.{expr.attr}" and node.value is not None:
                                    if isinstance(node, ast.AnnAssign):
                                        r = self.class_from_annotation(node.annotation, c.module)
                                        if r is not None:
                                            return r
                                    r = self.type_of(node.value, init, _depth + 1)
                                    if r is not None:
                                        return r
            return None
        if isinstance(expr, ast.IfExp):
            return self.type_of(expr.body, fn, _depth + 1) or self.type_of(expr.orelse, fn, _depth + 1)
        return None

    # ---- call resolution --------------------------------------------------
    def resolve_name(self, d: str, mod: Module):
        """Resolve a dotted name used in `mod` to FuncInfo / ClassInfo / ('ext', full)."""
        head, _, rest = d.partition(".")
        if not rest:
            if head in mod.funcs:
                return mod.funcs[head]
            if head in mod.classes:
                return mod.classes[head]
            if head in mod.njit_twins:
                return ("twin", mod, head)
            if head in mod.imports:
                full = mod.imports[head]
                m, _, n = full.rpartition(".")
                if m in self.modules:
                    tm = self.modules[m]
                    if n in tm.funcs:
                        return tm.funcs[n]
                    if n in tm.classes:
                        return tm.classes[n]
                    if n in tm.njit_twins:
                        return ("twin", tm, n)
                if full in self.modules:
                    return ("module", self.modules[full])
                return ("ext", full)
            return None
        if head in mod.imports:
            full = mod.imports[head]
            if full in self.modules:
                tm = self.modules[full]
                first, _, more = rest.partition(".")
                if first in tm.funcs and not more:
                    return tm.funcs[first]
                if first in tm.njit_twins and not more:
                    return ("twin", tm, first)
                if first in tm.classes:
                    ci = tm.classes[first]
                    if not more:
                        return ci
                    ms = self.lookup_method(ci, more, with_overrides=False)
                    return ms[0] if ms else None
                if first in tm.consts:
                    return ("const", tm, first, more)
                return None
            m, _, n = full.rpartition(".")
            if m in self.modules and n in self.modules[m].classes:
                ms = self.lookup_method(self.modules[m].classes[n], rest, with_overrides=False)
                return ms[0] if ms else None
            if not full.startswith(PKG):
                return ("ext", f"{full}.{rest}")
        if head in mod.classes:
            ms = self.lookup_method(mod.classes[head], rest, with_overrides=False)
            return ms[0] if ms else None
        return None

    def resolve_call(self, call: ast.Call, fn: FuncInfo, *, record: bool = True, _depth: int = 0) -> list:
        """Candidates for the callee: FuncInfo objects, ('ext', name) or []."""
        if _depth > 6:
            return []
        out = self._resolve_call(call, fn, _depth)
        if record:
            if out:
                self.resolved_count += 1
            else:
                self.unresolved.append(f"{fn.ident}: {norm(call.func)}")
        return out

    def _resolve_call(self, call: ast.Call, fn: FuncInfo, _depth: int = 0) -> list:
        mod = fn.module
        f = call.func
        d = dotted(f)
        if d is not None:
            r = self.resolve_name(d, mod)
            if isinstance(r, FuncInfo):
                return [r]
            if isinstance(r, ClassInfo):
                init = self.lookup_method(r, "__init__", with_overrides=False)
                return init or [("class", r)]
            if isinstance(r, tuple) and r[0] == "twin":
                tm, name = r[1], r[2]
                of = tm.njit_twins[name]["of"]
                if of in tm.funcs:
                    return [tm.funcs[of]]
            if isinstance(r, tuple) and r[0] == "ext":
                return [r]
            head = d.split(".")[0]
            if "." not in d and head in {p for p in fn.params}:
                return [("param", head)]
            if "." not in d and hasattr(builtins, head):
                return [("ext", f"builtins.{head}")]
        if isinstance(f, ast.Attribute):
            base_t = self.type_of(f.value, fn, _depth + 1)
            if base_t is not None:
                ms = self.lookup_method(base_t, f.attr)
                if ms:
                    return ms
                return [("ext", f"{base_t.name}.{f.attr}")]
            # super().__init__ etc.
            if isinstance(f.value, ast.Call) and dotted(f.value.func) == "super" and fn.cls is not None:
                for c in self.mro(fn.cls)[1:]:
                    if f.attr in c.methods:
                        return [c.methods[f.attr]]
                return [("ext", f"super.{f.attr}")]
            # unique-method-name fallback
            cands = self._method_index.get(f.attr, [])
            cands = [c for c in cands if not c.is_abstract] or cands
            if len({c.cls.name for c in cands if c.cls}) == 1 and cands:
                return cands
            return [("ext", f"?.{f.attr}")] if not cands else []
        if isinstance(f, ast.Name):
            return [("local", f.id)]
        return []

    def bind_args(self, call: ast.Call, callee: FuncInfo) -> dict[str, ast.AST]:
        """Map callee parameter names to argument expressions at `call`."""
        params = callee.positional_params
        if callee.cls is not None and not callee.is_staticmethod and params and params[0] in ("self", "cls"):
            params = params[1:]
        bound: dict[str, ast.AST] = {}
        for i, a in enumerate(call.args):
            if isinstance(a, ast.Starred):
                break
            if i < len(params):
                bound[params[i]] = a
        for kw in call.keywords:
            if kw.arg is not None:
                bound[kw.arg] = kw.value
        return bound


def calls_in(node: ast.AST):
    for sub in ast.walk(node):
        if isinstance(sub, ast.Call):
            yield sub


def body_walk(fn_node: ast.FunctionDef):
    """Walk the body of a function (not its decorators / annotations / defaults)."""
    for st in fn_node.body:
        yield from ast.walk(st)


def calls_in_body(fn_node: ast.FunctionDef):
    for sub in body_walk(fn_node):
        if isinstance(sub, ast.Call):
            yield sub


def enclosing_stmt(node: ast.AST) -> ast.stmt:
    cur = node
    while cur is not None and not isinstance(cur, ast.stmt):
        cur = parent(cur)
    if cur is None:
        raise AnalysisError("expression without enclosing statement")
    return cur
