"""Cross-check of the AST store/effect extractors against an independent reading of the same source: each function is
compile()d (never executed) and its bytecode scanned with `dis`; every STORE_SUBSCR / STORE_ATTR instruction must
correspond to a subscript / attribute store that the AST pass sees (thorough tier).  A store form the visitors do not
know would otherwise be silently ignored by the ownership, effect and accumulator rules."""
from __future__ import annotations

import ast
import dis
import types

from .model import AnalysisError, Program


def _ast_counts(fn: ast.FunctionDef) -> tuple[int, int]:
    sub = attr = 0

    def walk(node, top=True):
        nonlocal sub, attr
        for child in ast.iter_child_nodes(node):
            if isinstance(child, (ast.FunctionDef, ast.AsyncFunctionDef, ast.Lambda, ast.ClassDef)):
                continue  # separate code objects
            if isinstance(child, (ast.ListComp, ast.SetComp, ast.DictComp, ast.GeneratorExp)):
                # comprehension bodies are separate code objects in 3.11; their first iterable is evaluated outside
                walk_expr_only(child.generators[0].iter)
                continue
            if isinstance(child, ast.Subscript) and isinstance(child.ctx, ast.Store):
                sub += 1
            if isinstance(child, ast.Attribute) and isinstance(child.ctx, ast.Store):
                attr += 1
            walk(child, False)

    def walk_expr_only(node):
        nonlocal sub, attr
        for n in ast.walk(node):
            if isinstance(n, ast.Subscript) and isinstance(n.ctx, ast.Store):
                sub += 1
            if isinstance(n, ast.Attribute) and isinstance(n.ctx, ast.Store):
                attr += 1

    for st in fn.body:
        holder = ast.Module(body=[st], type_ignores=[])
        walk(holder)
    # decorators/defaults/annotations are evaluated in the enclosing scope
    return sub, attr


def _code_objects(code: types.CodeType):
    yield code
    for c in code.co_consts:
        if isinstance(c, types.CodeType):
            yield from _code_objects(c)


def cross_check(prog: Program, modules: list[str] | None = None) -> dict:
    checked = 0
    mism = []
    # the bytecode is that of the source as written: compare against the model before helper dissolution
    prog = Program(prog.root, prog.overlay, inline=False)
    for mname, m in prog.modules.items():
        if modules is not None and mname not in modules:
            continue
        code = compile(m.src, m.rel, "exec", dont_inherit=True)
        by_line = {}
        for c in _code_objects(code):
            by_line.setdefault((c.co_name, c.co_firstlineno), c)
        for f in m.funcs.values():
            node = f.node
            first = node.decorator_list[0].lineno if node.decorator_list else node.lineno
            c = by_line.get((node.name, first)) or by_line.get((node.name, node.lineno))
            if c is None:
                raise AnalysisError(f"bytecode cross-check: no code object for {f.ident}")
            bs = sum(1 for i in dis.get_instructions(c) if i.opname == "STORE_SUBSCR")
            ba = sum(1 for i in dis.get_instructions(c) if i.opname == "STORE_ATTR")
            asub, aattr = _ast_counts(node)
            checked += 1
            if (bs, ba) != (asub, aattr):
                mism.append(f"{f.ident}: bytecode STORE_SUBSCR/STORE_ATTR = {bs}/{ba}, AST stores = {asub}/{aattr}")
    return {"functions_cross_checked": checked, "mismatches": mism}
