"""Path conditions: which tests are known to have come out which way whenever a statement executes.

A forward must-analysis over the statement CFG: the fact (test expression, outcome) is established on the labelled
out-edge of an `if` / `while` header, survives until a variable it mentions is redefined, and holds at a node when it
holds on every path reaching the node.  Compound tests are split by polarity (`not (a or b)` = `not a` and `not b`;
`a and b` true = both true), so the facts do not depend on whether a guard is written as one `if a or b: raise`, as two
consecutive ifs, as `if ok: work else: raise`, or as `if not ok: raise` followed by the work.

Comparisons are brought to the normal form  p < 0 | p <= 0 | p == 0 | p != 0  over the canonical polynomial of the
operands (after substituting single-definition temporaries at the place of the test), so `start + nsamps > n`,
`n < start + nsamps` and `not (start + nsamps <= n)` are the same fact.
"""
from __future__ import annotations

import ast

from .dataflow import Flow
from .model import dotted
from .poly import Poly, PolyEnv


def split(expr: ast.AST, pol: bool) -> list[tuple[ast.AST, bool]]:
    """Atomic consequences of `expr` evaluating to `pol`."""
    if isinstance(expr, ast.UnaryOp) and isinstance(expr.op, ast.Not):
        return split(expr.operand, not pol)
    if isinstance(expr, ast.BoolOp):
        if (isinstance(expr.op, ast.Or) and not pol) or (isinstance(expr.op, ast.And) and pol):
            out = []
            for v in expr.values:
                out.extend(split(v, pol))
            return out
    if isinstance(expr, ast.Compare) and len(expr.ops) > 1 and pol:
        out = []
        left = expr.left
        for op, right in zip(expr.ops, expr.comparators):
            out.append((ast.copy_location(ast.Compare(left=left, ops=[op], comparators=[right]), expr), True))
            left = right
        return out
    return [(expr, pol)]


_NEG = {ast.Lt: ast.GtE, ast.LtE: ast.Gt, ast.Gt: ast.LtE, ast.GtE: ast.Lt, ast.Eq: ast.NotEq, ast.NotEq: ast.Eq,
        ast.Is: ast.IsNot, ast.IsNot: ast.Is, ast.In: ast.NotIn, ast.NotIn: ast.In}


def normal_compare(left: Poly, op: type, right: Poly, pol: bool = True) -> tuple[str, Poly] | None:
    """(relation, p) with relation in '<0' '<=0' '==0' '!=0'."""
    if not pol:
        op = _NEG.get(op)
        if op is None:
            return None
    d = left - right
    if op is ast.Lt:
        return "<0", d
    if op is ast.LtE:
        return "<=0", d
    if op is ast.Gt:
        return "<0", -d
    if op is ast.GtE:
        return "<=0", -d
    if op in (ast.Eq, ast.NotEq):
        c = d.canon()
        n = (-d)
        if n.canon() < c:
            d = n
        return ("==0" if op is ast.Eq else "!=0"), d
    return None


class Fact:
    __slots__ = ("expr", "pol", "test_node", "names")

    def __init__(self, expr: ast.AST, pol: bool, test_node: int):
        self.expr = expr
        self.pol = pol
        self.test_node = test_node
        self.names = frozenset(n.id for n in ast.walk(expr) if isinstance(n, ast.Name)) | frozenset(
            d for n in ast.walk(expr) if isinstance(n, ast.Attribute) and (d := dotted(n)) is not None)

    def text(self) -> str:
        t = " ".join(ast.unparse(self.expr).split())
        return t if self.pol else f"not ({t})"

    def __repr__(self):
        return f"<Fact {self.text()} @{self.test_node}>"


class PathConditions:
    def __init__(self, flow: Flow):
        self.flow = flow
        self.cfg = flow.cfg
        cfg = self.cfg
        self._facts: list[Fact] = []
        edge_facts: dict[tuple[int, int], set[int]] = {}
        for n in cfg.nodes():
            st = cfg.ast[n]
            if cfg.kind[n] == "test" and isinstance(st, (ast.If, ast.While)):
                for s in cfg.succ[n]:
                    lab = cfg.edge_label(n, s)
                    if lab in ("true", "false"):
                        ids = set()
                        for e, p in split(st.test, lab == "true"):
                            self._facts.append(Fact(e, p, n))
                            ids.add(len(self._facts) - 1)
                        # an if without else whose body falls through joins both outcomes on the same successor
                        key = (n, s)
                        edge_facts[key] = ids if key not in edge_facts else set()
        # variables (re)defined per node
        kills: dict[int, set[str]] = {}
        for d in flow.defs:
            if d.kind in ("assign", "unpack", "aug", "for", "with", "other"):
                kills.setdefault(d.node, set()).add(d.var)
        for n in cfg.nodes():
            st = cfg.ast[n]
            if st is None or cfg.kind[n] not in ("stmt",):
                continue
            for sub in ast.walk(st):
                if isinstance(sub, ast.Attribute) and isinstance(sub.ctx, ast.Store):
                    dn = dotted(sub)
                    if dn:
                        kills.setdefault(n, set()).add(dn)
        allf = frozenset(range(len(self._facts)))
        order = sorted(cfg.reachable_from_entry() | {cfg.entry})
        IN: dict[int, frozenset[int]] = {n: allf for n in order}
        IN[cfg.entry] = frozenset()

        def out(p: int, s: int) -> frozenset[int]:
            cur = IN[p]
            k = kills.get(p)
            if k:
                cur = frozenset(i for i in cur if not any(self._mentions(self._facts[i], v) for v in k))
            extra = edge_facts.get((p, s))
            if extra:
                cur = cur | extra
            return cur

        changed = True
        while changed:
            changed = False
            for n in order:
                if n == cfg.entry:
                    continue
                preds = [p for p in cfg.pred[n] if p in IN]
                if not preds:
                    continue
                new = None
                for p in preds:
                    o = out(p, n)
                    new = o if new is None else (new & o)
                if new != IN[n]:
                    IN[n] = new
                    changed = True
        self._in = IN

    @staticmethod
    def _mentions(f: Fact, var: str) -> bool:
        return var in f.names or any(nm.startswith(var + ".") for nm in f.names)

    # -- queries ------------------------------------------------------------------------------------------
    def facts_at(self, node: int | ast.AST) -> list[Fact]:
        if not isinstance(node, int):
            node = self.cfg.node_for(node)
        facts = [self._facts[i] for i in sorted(self._in.get(node, ()))]
        # unit resolution: not (a and b) with a known true gives not b; (a or b) with a known false gives b
        known = {(ast.dump(f.expr), f.pol) for f in facts}
        changed = True
        while changed:
            changed = False
            for f in list(facts):
                e = f.expr
                if isinstance(e, ast.BoolOp) and ((isinstance(e.op, ast.And) and not f.pol) or (isinstance(e.op, ast.Or) and f.pol)):
                    settled = isinstance(e.op, ast.And)     # conjuncts known true / disjuncts known false are settled
                    rest = []
                    for v in e.values:
                        atoms = split(v, settled)
                        if all((ast.dump(a), p) in known for a, p in atoms):
                            continue
                        rest.append(v)
                    if len(rest) == 1:
                        for a, p in split(rest[0], not settled):
                            if (ast.dump(a), p) not in known:
                                known.add((ast.dump(a), p))
                                facts.append(Fact(a, p, f.test_node))
                                changed = True
        return facts

    def compare_facts(self, node: int | ast.AST, *, stop: set[str] | None = None, env: PolyEnv | None = None) -> list[tuple[str, Poly, Fact]]:
        """Normal-form comparison facts holding at node (operands expanded at the place of their test)."""
        out = []
        for f in self.facts_at(node):
            e = f.expr
            if isinstance(e, ast.Compare) and len(e.ops) == 1:
                try:
                    left = self.flow.expand(e.left, f.test_node, stop=stop)
                    right = self.flow.expand(e.comparators[0], f.test_node, stop=stop)
                    penv = env or PolyEnv()
                    nc = normal_compare(penv.poly(left), type(e.ops[0]), penv.poly(right), f.pol)
                except Exception:
                    nc = None
                if nc is not None:
                    out.append((nc[0], nc[1], f))
        return out

    def knows(self, node: int | ast.AST, rel: str, p: Poly, **kw) -> Fact | None:
        """A fact at node that is (rel, p) - or, for `<=0`, the stronger `<0`."""
        for r, q, f in self.compare_facts(node, **kw):
            if q == p and (r == rel or (rel == "<=0" and r in ("<0", "==0"))):
                return f
            if rel in ("==0", "!=0") and r == rel and (q == p or q == -p):
                return f
        return None

    def truth(self, node: int | ast.AST, pred, expanded: bool = False) -> Fact | None:
        """First fact at node for which pred(expr, polarity) holds; with `expanded`, the expression is given with its
        temporaries resolved at the place of the test (`first = bitorder[0]; first in S` is `bitorder[0] in S`)."""
        for f in self.facts_at(node):
            e = f.expr
            if expanded:
                try:
                    e = self.flow.expand(f.expr, f.test_node)
                except Exception:
                    e = f.expr
            if pred(e, f.pol):
                return f
            if expanded and any(pred(e2, p2) for e2, p2 in _implied(e, f.pol)):
                return f
        return None


def _implied(e: ast.AST, pol: bool, depth: int = 0):
    """Facts that follow from `e` having truth value `pol`: the operands of a false `or` / true `and`, the operand of
    `not`, and for a flag merged from two branches (`True if c else X` known false: c false and X false)."""
    if depth > 6:
        return
    def const(x, v):
        return isinstance(x, ast.Constant) and x.value is v
    subs = []
    if isinstance(e, ast.UnaryOp) and isinstance(e.op, ast.Not):
        subs.append((e.operand, not pol))
    elif isinstance(e, ast.BoolOp) and isinstance(e.op, ast.Or) and not pol:
        subs += [(v, False) for v in e.values]
    elif isinstance(e, ast.BoolOp) and isinstance(e.op, ast.And) and pol:
        subs += [(v, True) for v in e.values]
    elif isinstance(e, ast.IfExp):
        if const(e.body, True) and not pol:        # (True if c else X) is false: c is false and X is false
            subs += [(e.test, False), (e.orelse, False)]
        elif const(e.orelse, True) and not pol:    # (X if c else True) is false: c is true and X is false
            subs += [(e.test, True), (e.body, False)]
        elif const(e.body, False) and pol:         # (False if c else X) is true: c is false and X is true
            subs += [(e.test, False), (e.orelse, True)]
        elif const(e.orelse, False) and pol:       # (X if c else False) is true: c is true and X is true
            subs += [(e.test, True), (e.body, True)]
    for s_, p_ in subs:
        yield s_, p_
        yield from _implied(s_, p_, depth + 1)


_cache: dict[int, PathConditions] = {}


def path_conditions(flow: Flow) -> PathConditions:
    if id(flow) not in _cache:
        _cache[id(flow)] = PathConditions(flow)
    return _cache[id(flow)]


def rejection(pc: PathConditions, fact: Fact) -> set[str] | None:
    """Exception class names raised when the test behind `fact` comes out the other way; None if that outcome can
    still reach a normal return (the fact is then not a rejection guard)."""
    cfg = pc.cfg
    t = fact.test_node
    st = cfg.ast[t]
    # which labelled edge established the fact?  the fact holds on the 'true' edge iff split(test, True) yields it
    est_true = any(e is fact.expr and p == fact.pol for e, p in split(st.test, True)) or \
        any(ast.dump(e) == ast.dump(fact.expr) and p == fact.pol for e, p in split(st.test, True))
    other = "false" if est_true else "true"
    starts = cfg.branch_entry(t, other)
    if not starts:
        return None
    names: set[str] = set()
    for s in starts:
        region = cfg.reachable(s, include_src=True)
        if cfg.exit in region:
            return None
        for n in region:
            r = cfg.ast[n]
            if isinstance(r, ast.Raise) and r.exc is not None:
                c = r.exc.func if isinstance(r.exc, ast.Call) else r.exc
                names.add(dotted(c) or "?")
    return names


def guarded(flow: Flow, at: list, wants: list[tuple[str, Poly]], exc: str | None = "ValueError", **kw) -> tuple[bool, list[str]]:
    """Every node in `at` executes only when each wanted relation (rel, p) holds, and failing it raises `exc`."""
    pc = path_conditions(flow)
    why: list[str] = []
    if not at:
        return False, ["no guarded effect found"]
    for node in at:
        for rel, p in wants:
            f = pc.knows(node, rel, p, **kw)
            if f is None:
                why.append(f"`{p.canon()} {rel[:-1]} 0` is not established before line {getattr(node, 'lineno', '?')}")
                continue
            if exc is not None:
                r = rejection(pc, f)
                if r is None or exc not in r:
                    why.append(f"violating `{f.text()}` does not raise {exc}")
    return not why, why


def _canon_fact(expr: ast.AST, pol: bool) -> tuple[bool, str]:
    """(polarity, canonical text) with negative comparison operators turned positive."""
    e = expr
    pos = {ast.NotEq: ast.Eq, ast.IsNot: ast.Is, ast.NotIn: ast.In}
    if isinstance(e, ast.Compare) and len(e.ops) == 1 and type(e.ops[0]) in pos:
        e = ast.Compare(left=e.left, ops=[pos[type(e.ops[0])]()], comparators=e.comparators)
        pol = not pol
    return pol, PolyEnv().poly(e).canon()


def holds(pc: PathConditions, node, text: str) -> Fact | None:
    """The condition given as source text (`axis is None`, `not keepdims`, `mode != 'basic'`) is known at node."""
    want = _canon_fact(*[(e, p) for e, p in split(ast.parse(text, mode="eval").body, True)][0]) if len(split(ast.parse(text, mode="eval").body, True)) == 1 else None
    if want is None:
        raise ValueError(f"holds(): `{text}` is not an atomic condition")
    for f in pc.facts_at(node):
        if _canon_fact(f.expr, f.pol) == want:
            return f
    return None


def selected_by(pc: PathConditions, node, var: str, value) -> Fact | None:
    """node runs for `var == value`: a fact `var == value`, or `var in {.., value, ..}` with a literal collection."""
    def pred(e, pol):
        if not (isinstance(e, ast.Compare) and len(e.ops) == 1):
            return False
        op, l, r = e.ops[0], e.left, e.comparators[0]
        if isinstance(op, (ast.Eq, ast.NotEq)):
            sides = [l, r]
            names = [" ".join(ast.unparse(x).split()) for x in sides]
            lits = [x.value for x in sides if isinstance(x, ast.Constant)]
            return var in names and value in lits and (isinstance(op, ast.Eq) == pol)
        if isinstance(op, (ast.In, ast.NotIn)) and " ".join(ast.unparse(l).split()) == var:
            try:
                coll = ast.literal_eval(r)
            except Exception:
                return False
            return value in coll and (isinstance(op, ast.In) == pol)
        return False
    return pc.truth(node, pred)
