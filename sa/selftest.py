"""Self-validation of the rule packs: seeded mutants must be reported, refactor twins must not.

Mutants/twins are text edits (old -> new, `old` must occur exactly once) applied
as an in-memory overlay on /repo's current source: nothing is written to disk,
no scratch copy of the repository is made, and the mutated source is parsed but
never executed.  A mutant whose `old` text is absent (the repository moved on)
is reported as skipped, not as a failure.
"""
from __future__ import annotations

import importlib
import os
from concurrent.futures import ProcessPoolExecutor

from .model import AnalysisError, repo_root


def _apply(spec: dict) -> dict[str, str] | None:
    root = repo_root()
    overlay = {}
    edits = spec.get("edits") or [{"file": spec["file"], "old": spec["old"], "new": spec["new"]}]
    for e in edits:
        rel = e["file"]
        src = overlay.get(rel)
        if src is None:
            src = (root / rel).read_text()
        if src.count(e["old"]) != 1:
            return None
        overlay[rel] = src.replace(e["old"], e["new"])
    return overlay


def _idents(prop: str, overlay) -> tuple[set[str], str | None]:
    from .check import analyse
    try:
        res = analyse(prop, "quick", overlay=overlay)
    except AnalysisError as exc:
        return set(), str(exc)
    except SyntaxError as exc:
        return set(), f"syntax: {exc}"
    return {o.ident() for o in res.violations()}, None


def _one(args):
    prop, spec, base = args
    overlay = _apply(spec)
    if overlay is None:
        return spec["id"], "skipped", "edit does not apply to the current source"
    ids, err = _idents(prop, overlay)
    kind = spec.get("kind", "mutant")
    new = sorted(ids - set(base))
    if kind == "twin":
        if err:
            return spec["id"], "failed", f"twin caused analysis error: {err}"
        if new:
            return spec["id"], "failed", f"twin reported: {new[:3]}"
        return spec["id"], "silent", ""
    if err:
        if spec.get("expect") == "error":
            return spec["id"], "caught", f"fail-closed: {err}"
        return spec["id"], "failed", f"mutant caused analysis error instead of a report: {err}"
    exp = spec.get("expect", "")
    hits = [i for i in new if i.startswith(exp)]
    if hits:
        return spec["id"], "caught", hits[0]
    return spec["id"], "failed", f"mutant not reported (expected rule {exp}); new findings: {new[:3]}"


def specs_for(prop: str) -> list[dict]:
    pack = importlib.import_module(f"sa.rules.{prop.lower()}")
    out = []
    for kind, lst in (("mutant", getattr(pack, "MUTANTS", [])), ("twin", getattr(pack, "TWINS", []))):
        for s in lst:
            s = dict(s)
            s.setdefault("kind", kind)
            out.append(s)
    return out


def run_for(prop: str, jobs: int | None = None) -> dict:
    specs = specs_for(prop)
    base, err = _idents(prop, None)
    if err:
        raise AnalysisError(err)
    results = []
    jobs = jobs or min(16, os.cpu_count() or 4)
    work = [(prop, s, sorted(base)) for s in specs]
    if len(work) > 3 and jobs > 1:
        with ProcessPoolExecutor(max_workers=jobs) as ex:
            results = list(ex.map(_one, work))
    else:
        results = [_one(w) for w in work]
    out = {"mutants": 0, "caught": 0, "twins": 0, "silent": 0, "skipped": [], "failed": [], "details": {}}
    for (sid, status, info), spec in zip(results, specs):
        kind = spec.get("kind", "mutant")
        out["details"][sid] = {"kind": kind, "status": status, "info": info[:200]}
        if status == "skipped":
            out["skipped"].append(sid)
            continue
        if kind == "twin":
            out["twins"] += 1
            out["silent"] += status == "silent"
        else:
            out["mutants"] += 1
            out["caught"] += status == "caught"
        if status == "failed":
            out["failed"].append(f"{sid}: {info}")
    return out


if __name__ == "__main__":
    import json
    import sys
    sys.path.insert(0, str(__import__("pathlib").Path(__file__).resolve().parent.parent))
    r = run_for(sys.argv[1])
    print(json.dumps({k: v for k, v in r.items() if k != "details"}, indent=1))
    for k, v in r["details"].items():
        print(k, v["status"], v["info"])
