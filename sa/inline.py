"""Transparent helpers.

The rules anchor on the functions, methods and private helpers that exist on the reference tree (KNOWN_HELPERS).  A
private helper that is *not* one of those - typically the product of an extract-function refactoring - carries no
meaning of its own for any rule: before the program model is indexed, every call to such a helper from the same module
(bare name, `self._h(...)`, `cls._h(...)`, `Class._h(...)`) is replaced by the helper's body, with parameters bound to
the arguments, locals renamed apart and returns turned into assignments.  The rules then see the same statements they
would have seen before the extraction.  Nothing is executed; the transformation is purely syntactic and is refused
(the call is left alone) whenever it would not be exact: recursion, returns inside loops, generators, closures,
*args/**kwargs, calls under a lambda / comprehension / conditional expression / short-circuit operand.
"""
from __future__ import annotations

import ast
import copy

# every function and method name of the reference tree: the rules may name these, so they are never dissolved.  A function
# with any other name - private or public - did not exist when the rules were written and carries no meaning for them.
KNOWN_QUALNAMES = frozenset({
    "apps.spp_clean:main", "apps.spp_digifil:main", "apps.spp_extract:bands", "apps.spp_extract:channels", "apps.spp_extract:main",
    "apps.spp_extract:samples", "apps.spp_header:get", "apps.spp_header:main", "apps.spp_header:print", "apps.spp_header:update",
    "base:Filterbank.__init__", "base:Filterbank.apply_channel_mask", "base:Filterbank.bandpass", "base:Filterbank.chan_stats",
    "base:Filterbank.clean_rfi", "base:Filterbank.collapse", "base:Filterbank.compute_stats", "base:Filterbank.compute_stats_basic",
    "base:Filterbank.dedisperse", "base:Filterbank.downsample", "base:Filterbank.extract_bands", "base:Filterbank.extract_chans",
    "base:Filterbank.extract_samps", "base:Filterbank.fold", "base:Filterbank.header", "base:Filterbank.invert_freq", "base:Filterbank.read_block",
    "base:Filterbank.read_chan", "base:Filterbank.read_dedisp_block", "base:Filterbank.read_plan", "base:Filterbank.remove_zerodm",
    "base:Filterbank.requantize", "base:Filterbank.subband", "block:BaseBlock.__init__", "block:BaseBlock._check_input", "block:BaseBlock.data",
    "block:BaseBlock.header", "block:BaseBlock.normalise", "block:BaseBlock.nsamples", "block:BaseBlock.pad_samples", "block:BaseBlock.plot",
    "block:DMTBlock.__init__", "block:DMTBlock._check_dm_input", "block:DMTBlock.dms", "block:DMTBlock.ndms", "block:DMTBlock.plot",
    "block:FilterbankBlock.__init__", "block:FilterbankBlock.dedisperse", "block:FilterbankBlock.dm", "block:FilterbankBlock.dmt_transform",
    "block:FilterbankBlock.downsample", "block:FilterbankBlock.get_bandpass", "block:FilterbankBlock.get_tim", "block:FilterbankBlock.nchans",
    "block:FilterbankBlock.plot", "block:FilterbankBlock.to_file", "core.filters:MatchedFilter.__init__", "core.filters:MatchedFilter._compute",
    "core.filters:MatchedFilter._setup_templates", "core.filters:MatchedFilter.best_model", "core.filters:MatchedFilter.best_temp",
    "core.filters:MatchedFilter.convs", "core.filters:MatchedFilter.data", "core.filters:MatchedFilter.get_box_width_spacing",
    "core.filters:MatchedFilter.on_pulse", "core.filters:MatchedFilter.peak_bin", "core.filters:MatchedFilter.plot", "core.filters:MatchedFilter.snr",
    "core.filters:MatchedFilter.temp_bank", "core.filters:MatchedFilter.temp_kind", "core.filters:MatchedFilter.temp_widths",
    "core.filters:MatchedFilter.zscores", "core.filters:Template.__attrs_post_init__", "core.filters:Template.__repr__",
    "core.filters:Template.__str__", "core.filters:Template.gen_boxcar", "core.filters:Template.gen_gaussian", "core.filters:Template.gen_lorentzian",
    "core.filters:Template.get_model", "core.filters:Template.get_on_pulse", "core.filters:Template.plot", "core.kernels:add_online_moments",
    "core.kernels:circular_pad_goodsize", "core.kernels:compute_online_moments", "core.kernels:compute_online_moments_basic",
    "core.kernels:convolve_templates", "core.kernels:dedisperse", "core.kernels:detrend_1d", "core.kernels:disperse_block", "core.kernels:dmt_block",
    "core.kernels:dmt_block_valid", "core.kernels:downsample_1d_mean", "core.kernels:downsample_2d_mean_flat", "core.kernels:extract_bpass",
    "core.kernels:extract_tim", "core.kernels:fftconvolve", "core.kernels:fold", "core.kernels:form_interp_mspec", "core.kernels:form_mspec",
    "core.kernels:fs_running_median", "core.kernels:invert_freq", "core.kernels:mask_channels", "core.kernels:nb_fft",
    "core.kernels:nb_fft_good_size", "core.kernels:nb_ifft", "core.kernels:nb_irfft", "core.kernels:nb_rfft", "core.kernels:nb_roll",
    "core.kernels:normalize_template", "core.kernels:pack1_8_big", "core.kernels:pack1_8_little", "core.kernels:pack1_8_vect",
    "core.kernels:pack2_8_big", "core.kernels:pack2_8_little", "core.kernels:pack4_8_big", "core.kernels:pack4_8_little",
    "core.kernels:remove_zerodm", "core.kernels:resample_tim", "core.kernels:roll_block", "core.kernels:roll_block_valid",
    "core.kernels:simulate_ism", "core.kernels:subband", "core.kernels:sum_harmonics", "core.kernels:unpack1_8_big", "core.kernels:unpack1_8_little",
    "core.kernels:unpack2_8_big", "core.kernels:unpack2_8_little", "core.kernels:unpack4_8_big", "core.kernels:unpack4_8_little",
    "core.kernels:update_moments", "core.kernels:update_moments_basic", "core.rfi:RFIMask._set_chan_mask", "core.rfi:RFIMask._set_custom_mask",
    "core.rfi:RFIMask._set_stats_mask", "core.rfi:RFIMask._set_user_mask", "core.rfi:RFIMask.apply_funcn", "core.rfi:RFIMask.apply_mask",
    "core.rfi:RFIMask.apply_method", "core.rfi:RFIMask.from_file", "core.rfi:RFIMask.masked_fraction", "core.rfi:RFIMask.num_masked",
    "core.rfi:RFIMask.plot", "core.rfi:RFIMask.to_file", "core.rfi:double_mad_mask", "core.rfi:iqrm_mask", "core.stats:ChannelStats.__add__",
    "core.stats:ChannelStats.__init__", "core.stats:ChannelStats.kurtosis", "core.stats:ChannelStats.maxima", "core.stats:ChannelStats.mean",
    "core.stats:ChannelStats.minima", "core.stats:ChannelStats.moments", "core.stats:ChannelStats.nchans", "core.stats:ChannelStats.nsamps",
    "core.stats:ChannelStats.push_data", "core.stats:ChannelStats.skew", "core.stats:ChannelStats.std", "core.stats:ChannelStats.var",
    "core.stats:_scale_biweight", "core.stats:_scale_diffcov", "core.stats:_scale_diffcov_1d", "core.stats:_scale_doublemad",
    "core.stats:_scale_gapper", "core.stats:_scale_gapper_1d", "core.stats:_scale_iqr", "core.stats:_scale_mad", "core.stats:_scale_qn",
    "core.stats:_scale_qn_1d", "core.stats:_scale_sn", "core.stats:_scale_sn_1d", "core.stats:downsample_1d", "core.stats:downsample_2d",
    "core.stats:downsample_2d_flat", "core.stats:estimate_loc", "core.stats:estimate_scale", "core.stats:estimate_zscore",
    "core.stats:running_filter", "core.stats:running_filter_fast", "foldedcube:FoldSlice.__init__", "foldedcube:FoldSlice.data",
    "foldedcube:FoldSlice.get_profile", "foldedcube:FoldSlice.nbins", "foldedcube:FoldSlice.normalize", "foldedcube:FoldSlice.tsamp",
    "foldedcube:FoldedData.__init__", "foldedcube:FoldedData._check_input", "foldedcube:FoldedData._get_dmdelays",
    "foldedcube:FoldedData._get_pdelays", "foldedcube:FoldedData.centre", "foldedcube:FoldedData.data", "foldedcube:FoldedData.dm",
    "foldedcube:FoldedData.get_freq_phase", "foldedcube:FoldedData.get_profile", "foldedcube:FoldedData.get_subband",
    "foldedcube:FoldedData.get_subint", "foldedcube:FoldedData.get_time_phase", "foldedcube:FoldedData.header", "foldedcube:FoldedData.nbins",
    "foldedcube:FoldedData.nsubbands", "foldedcube:FoldedData.nsubints", "foldedcube:FoldedData.period", "foldedcube:FoldedData.replace_nan",
    "foldedcube:FoldedData.update_dm", "foldedcube:FoldedData.update_period", "foldedcube:Profile.__init__", "foldedcube:Profile.compute_mf",
    "foldedcube:Profile.data", "foldedcube:Profile.tsamp", "fourierseries:FourierSeries.__init__", "fourierseries:FourierSeries._check_input",
    "fourierseries:FourierSeries.binwidth", "fourierseries:FourierSeries.data", "fourierseries:FourierSeries.deredden",
    "fourierseries:FourierSeries.form_spec", "fourierseries:FourierSeries.from_fft", "fourierseries:FourierSeries.from_spec",
    "fourierseries:FourierSeries.header", "fourierseries:FourierSeries.ifft", "fourierseries:FourierSeries.multiply",
    "fourierseries:FourierSeries.recon_prof", "fourierseries:FourierSeries.to_fft", "fourierseries:FourierSeries.to_spec",
    "fourierseries:PowerSpectrum.__init__", "fourierseries:PowerSpectrum._check_input", "fourierseries:PowerSpectrum.bin2freq",
    "fourierseries:PowerSpectrum.bin2period", "fourierseries:PowerSpectrum.data", "fourierseries:PowerSpectrum.freq2bin",
    "fourierseries:PowerSpectrum.harmonic_fold", "fourierseries:PowerSpectrum.header", "fourierseries:PowerSpectrum.period2bin",
    "header:Header.bandwidth", "header:Header.basename", "header:Header.chan_freqs", "header:Header.dec", "header:Header.dedispersed_header",
    "header:Header.dtype", "header:Header.extension", "header:Header.fbottom", "header:Header.fcenter", "header:Header.fmax", "header:Header.fmin",
    "header:Header.from_fbh5", "header:Header.from_inffile", "header:Header.from_pfits", "header:Header.from_sigproc", "header:Header.ftop",
    "header:Header.get_dmdelays", "header:Header.get_dmsmearing", "header:Header.machine_id", "header:Header.make_inf",
    "header:Header.mjd_after_nsamps", "header:Header.new_header", "header:Header.obs_date", "header:Header.obs_time", "header:Header.prep_outfile",
    "header:Header.ra", "header:Header.telescope_id", "header:Header.to_dict", "header:Header.to_sigproc", "header:Header.to_string",
    "header:Header.tobs", "io.bits:BitsInfo._set_digi_sigma", "io.bits:BitsInfo.bitfact", "io.bits:BitsInfo.bitorder", "io.bits:BitsInfo.digi_max",
    "io.bits:BitsInfo.digi_mean", "io.bits:BitsInfo.digi_min", "io.bits:BitsInfo.digi_scale", "io.bits:BitsInfo.dtype", "io.bits:BitsInfo.itemsize",
    "io.bits:BitsInfo.quantize", "io.bits:BitsInfo.to_dict", "io.bits:BitsInfo.unpack", "io.bits:pack", "io.bits:unpack", "io.fbh5:map_dimensions",
    "io.fbh5:parse_header", "io.fileio:FileBase.__enter__", "io.fileio:FileBase.__exit__", "io.fileio:FileBase.__init__",
    "io.fileio:FileBase._close_current", "io.fileio:FileBase._open", "io.fileio:FileBase.close", "io.fileio:FileBase.eos",
    "io.fileio:FileBase.file_cur", "io.fileio:FileReader.__init__", "io.fileio:FileReader._seek2hdr", "io.fileio:FileReader._seek_set",
    "io.fileio:FileReader.cread", "io.fileio:FileReader.creadinto", "io.fileio:FileReader.cur_data_pos_file",
    "io.fileio:FileReader.cur_data_pos_stream", "io.fileio:FileReader.seek", "io.fileio:FileWriter.__init__", "io.fileio:FileWriter.cwrite",
    "io.fileio:FileWriter.write", "io.fileio:allocate_buffer", "io.pfits:PFITSFile.__enter__", "io.pfits:PFITSFile.__exit__",
    "io.pfits:PFITSFile.__init__", "io.pfits:PFITSFile.bitsinfo", "io.pfits:PFITSFile.filename", "io.pfits:PFITSFile.pri_hdr",
    "io.pfits:PFITSFile.read_freqs", "io.pfits:PFITSFile.read_offsets", "io.pfits:PFITSFile.read_scales", "io.pfits:PFITSFile.read_subint",
    "io.pfits:PFITSFile.read_subint_pol", "io.pfits:PFITSFile.read_subints", "io.pfits:PFITSFile.read_weights", "io.pfits:PFITSFile.sub_hdr",
    "io.pfits:PrimaryHdr.__init__", "io.pfits:PrimaryHdr.backend", "io.pfits:PrimaryHdr.chan_dm", "io.pfits:PrimaryHdr.coord",
    "io.pfits:PrimaryHdr.date_obs", "io.pfits:PrimaryHdr.freqs", "io.pfits:PrimaryHdr.header", "io.pfits:PrimaryHdr.ibeam",
    "io.pfits:PrimaryHdr.location", "io.pfits:PrimaryHdr.obs_mode", "io.pfits:PrimaryHdr.observer", "io.pfits:PrimaryHdr.project_id",
    "io.pfits:PrimaryHdr.receiver", "io.pfits:PrimaryHdr.source", "io.pfits:PrimaryHdr.telescope", "io.pfits:PrimaryHdr.tstart",
    "io.pfits:SubintHdr.__init__", "io.pfits:SubintHdr._parse_data", "io.pfits:SubintHdr.azimuth", "io.pfits:SubintHdr.chan_bw",
    "io.pfits:SubintHdr.channel_offset", "io.pfits:SubintHdr.freqs", "io.pfits:SubintHdr.header", "io.pfits:SubintHdr.nbits",
    "io.pfits:SubintHdr.nchans", "io.pfits:SubintHdr.npol", "io.pfits:SubintHdr.nsamples", "io.pfits:SubintHdr.nsubint",
    "io.pfits:SubintHdr.offs_sub", "io.pfits:SubintHdr.poln_state", "io.pfits:SubintHdr.poln_type", "io.pfits:SubintHdr.signint",
    "io.pfits:SubintHdr.sub_hdr", "io.pfits:SubintHdr.subint_offset", "io.pfits:SubintHdr.subint_samples", "io.pfits:SubintHdr.subint_shape",
    "io.pfits:SubintHdr.subint_width", "io.pfits:SubintHdr.tsamp", "io.pfits:SubintHdr.tsubint", "io.pfits:SubintHdr.zenith",
    "io.pfits:SubintHdr.zero_off", "io.rescale:Rescale.__init__", "io.rescale:Rescale._compute_stats", "io.rescale:Rescale.execute",
    "io.sigproc:FileInfo.from_dict", "io.sigproc:FileInfo.tend", "io.sigproc:StreamInfo.add_entry", "io.sigproc:StreamInfo.check_contiguity",
    "io.sigproc:StreamInfo.cumsum_datalens", "io.sigproc:StreamInfo.get_combined", "io.sigproc:StreamInfo.get_info_list",
    "io.sigproc:StreamInfo.time_gaps", "io.sigproc:_read_string", "io.sigproc:edit_header", "io.sigproc:encode_header", "io.sigproc:encode_key",
    "io.sigproc:match_header", "io.sigproc:parse_header", "io.sigproc:parse_header_multi", "io.sigproc:parse_radec", "params:compute_dmdelays",
    "params:compute_dmsmearing", "readers:FilReader.__init__", "readers:FilReader.bitsinfo", "readers:FilReader.chan_stride",
    "readers:FilReader.filename", "readers:FilReader.header", "readers:FilReader.read_block", "readers:FilReader.read_dedisp_block",
    "readers:FilReader.read_plan", "readers:FilReader.samp_stride", "readers:PFITSReader.__init__", "readers:PFITSReader.bitsinfo",
    "readers:PFITSReader.filename", "readers:PFITSReader.header", "readers:PFITSReader.pri_hdr", "readers:PFITSReader.read_block",
    "readers:PFITSReader.read_dedisp_block", "readers:PFITSReader.read_plan", "readers:PFITSReader.sub_hdr",
    "readers:PulseExtractor.__attrs_post_init__", "readers:PulseExtractor.block_delay", "readers:PulseExtractor.disp_delay",
    "readers:PulseExtractor.get_data", "readers:PulseExtractor.nsamps", "readers:PulseExtractor.nsamps_file", "readers:PulseExtractor.nstart",
    "readers:PulseExtractor.nstart_file", "readers:PulseExtractor.pulse_toa_block", "readers:PulseExtractor.t_decimate",
    "simulation.furby:Furby.from_file", "simulation.furby:Furby.plot", "simulation.furby:Furby.save", "simulation.furby:FurbyGenerator.__init__",
    "simulation.furby:FurbyGenerator._compute_stats", "simulation.furby:FurbyGenerator._gen_pulse", "simulation.furby:FurbyGenerator.generate",
    "simulation.furby:FurbyGenerator.hdr", "simulation.furby:FurbyGenerator.hdr_os", "simulation.furby:FurbyGenerator.nsamps_out",
    "simulation.furby:FurbyGenerator.params", "simulation.furby:FurbyGenerator.tsamp_os", "simulation.furby:SpectralStructure.__init__",
    "simulation.furby:SpectralStructure._normalize_and_shift", "simulation.furby:SpectralStructure._spec_flat",
    "simulation.furby:SpectralStructure._spec_gaussian", "simulation.furby:SpectralStructure._spec_gaussian_blobs",
    "simulation.furby:SpectralStructure._spec_poly", "simulation.furby:SpectralStructure._spec_power_law",
    "simulation.furby:SpectralStructure._spec_random", "simulation.furby:SpectralStructure._spec_scint",
    "simulation.furby:SpectralStructure._spec_smooth_envelope", "simulation.furby:SpectralStructure.foff",
    "simulation.furby:SpectralStructure.generate", "simulation.furby:SpectralStructure.nchans", "simulation.furby:SpectralStructure.plot",
    "timeseries:TimeSeries.__init__", "timeseries:TimeSeries._check_input", "timeseries:TimeSeries.apply_boxcar", "timeseries:TimeSeries.correlate",
    "timeseries:TimeSeries.data", "timeseries:TimeSeries.deredden", "timeseries:TimeSeries.downsample", "timeseries:TimeSeries.fold",
    "timeseries:TimeSeries.from_dat", "timeseries:TimeSeries.from_tim", "timeseries:TimeSeries.header", "timeseries:TimeSeries.normalise",
    "timeseries:TimeSeries.nsamples", "timeseries:TimeSeries.pad", "timeseries:TimeSeries.resample", "timeseries:TimeSeries.rfft",
    "timeseries:TimeSeries.to_dat", "timeseries:TimeSeries.to_tim", "utils:FrequencyChannels.__attrs_post_init__",
    "utils:FrequencyChannels._check_freqs", "utils:FrequencyChannels.bandwidth", "utils:FrequencyChannels.fbottom", "utils:FrequencyChannels.fcenter",
    "utils:FrequencyChannels.fch1", "utils:FrequencyChannels.foff", "utils:FrequencyChannels.from_pfits", "utils:FrequencyChannels.from_sig",
    "utils:FrequencyChannels.ftop", "utils:FrequencyChannels.nchans", "utils:apply_along_axes", "utils:detect_file_type", "utils:duration_string",
    "utils:gaussian", "utils:get_callerfunc", "utils:get_logger", "utils:nearest_factor", "utils:next2_to_n", "utils:pad_centre",
    "utils:validate_path", "viz.styles:PlotTable.__init__", "viz.styles:PlotTable.add_entry", "viz.styles:PlotTable.plot",
    "viz.styles:PlotTable.skip_line", "viz.styles:set_seaborn",
})
KNOWN_FUNCTIONS = frozenset(q.split(':', 1)[1].split('.')[-1] for q in KNOWN_QUALNAMES)
KNOWN_HELPERS = frozenset(n for n in KNOWN_FUNCTIONS if n.startswith("_") and not n.startswith("__"))

MAX_ROUNDS = 3
_ALLOWED_DECORATORS = ("staticmethod", "classmethod", "njit", "numba.njit", "jit", "numba.jit")


def _dotted(node: ast.AST) -> str | None:
    parts = []
    while isinstance(node, ast.Attribute):
        parts.append(node.attr)
        node = node.value
    if isinstance(node, ast.Name):
        parts.append(node.id)
        return ".".join(reversed(parts))
    return None


def _decorator_name(d: ast.AST) -> str | None:
    return _dotted(d.func if isinstance(d, ast.Call) else d)


def _is_transparent_name(name: str, module: str = "", owner: str | None = None) -> bool:
    """A function the reference tree does not have under this module and (class-)qualified name."""
    if name.startswith("__") and name.endswith("__"):
        return False
    qual = f"{owner}.{name}" if owner else name
    return f"{module}:{qual}" not in KNOWN_QUALNAMES


def _body_without_docstring(fn: ast.FunctionDef) -> list[ast.stmt]:
    body = fn.body
    if body and isinstance(body[0], ast.Expr) and isinstance(body[0].value, ast.Constant) and isinstance(body[0].value.value, str):
        body = body[1:]
    return body


def _has(node_or_list, types) -> bool:
    nodes = node_or_list if isinstance(node_or_list, list) else [node_or_list]
    return any(isinstance(x, types) for n in nodes for x in ast.walk(n))


class _NotInlinable(Exception):
    pass


def _single_exit(stmts: list[ast.stmt], res) -> tuple[list[ast.stmt], bool]:
    """Rewrite `return e` as `res = e`, moving the statements that follow an early return into the other branch.
    -> (statements, every path through them ended in a return)."""
    out: list[ast.stmt] = []
    for i, st in enumerate(stmts):
        if isinstance(st, ast.Return):
            if isinstance(res, list):
                # `a, b = helper()` with `return x, y`: element-wise (the targets never occur in the returned expressions)
                if not (isinstance(st.value, ast.Tuple) and len(st.value.elts) == len(res)):
                    raise _NotInlinable("tuple arity")
                for name, v in zip(res, st.value.elts):
                    out.append(ast.Assign(targets=[ast.Name(id=name, ctx=ast.Store())], value=v))
                return out, True
            out.append(ast.Assign(targets=[ast.Name(id=res, ctx=ast.Store())], value=st.value or ast.Constant(None)))
            return out, True
        if not _has(st, ast.Return):
            out.append(st)
            continue
        rest = stmts[i + 1:]
        if isinstance(st, ast.If):
            b, bt = _single_exit(st.body, res)
            o, ot = _single_exit(st.orelse, res)
            if bt and ot:
                out.append(ast.If(test=st.test, body=b, orelse=o))
                return out, True
            if bt:
                r, rt = _single_exit(rest, res)
                out.append(ast.If(test=st.test, body=b, orelse=(o + r) or []))
                return out, rt
            if ot:
                r, rt = _single_exit(rest, res)
                out.append(ast.If(test=st.test, body=(b + r) or [ast.Pass()], orelse=o))
                return out, rt
            raise _NotInlinable("return on some paths of both branches")
        if isinstance(st, ast.With):
            b, bt = _single_exit(st.body, res)
            if bt and not rest:
                out.append(ast.With(items=st.items, body=b))
                return out, True
            raise _NotInlinable("return inside a with block that is not last")
        raise _NotInlinable(f"return inside {type(st).__name__}")
    return out, False


class _Renamer(ast.NodeTransformer):
    def __init__(self, names: dict[str, str], subst: dict[str, ast.AST]):
        self.names = names
        self.subst = subst

    def visit_Name(self, node: ast.Name):  # noqa: N802
        if node.id in self.subst and isinstance(node.ctx, ast.Load):
            return copy.deepcopy(self.subst[node.id])
        if node.id in self.names:
            return ast.copy_location(ast.Name(id=self.names[node.id], ctx=node.ctx), node)
        return node


def _simple_arg(a: ast.AST) -> bool:
    if isinstance(a, ast.Constant):
        return True
    if isinstance(a, ast.UnaryOp) and isinstance(a.op, ast.USub) and isinstance(a.operand, ast.Constant):
        return True
    return _dotted(a) is not None


class _Inliner:
    def __init__(self, tree: ast.Module, module: str = ""):
        self.tree = tree
        self.module = module
        self.module_funcs = {st.name: st for st in tree.body if isinstance(st, ast.FunctionDef)}
        self.classes = {st.name: st for st in tree.body if isinstance(st, ast.ClassDef)}
        self.counter = 0
        self.inlined: list[str] = []

    # ---- callee lookup --------------------------------------------------------------------------------
    def _method(self, cls: ast.ClassDef, name: str, seen=()) -> ast.FunctionDef | None:
        for st in cls.body:
            if isinstance(st, ast.FunctionDef) and st.name == name:
                return st
        for b in cls.bases:
            bn = _dotted(b)
            if bn in self.classes and bn not in seen:
                m = self._method(self.classes[bn], name, (*seen, bn))
                if m is not None:
                    return m
        return None

    def _owner_of(self, m: ast.FunctionDef) -> str | None:
        for c in self.classes.values():
            if m in c.body:
                return c.name
        return None

    def _callee(self, call: ast.Call, caller: ast.FunctionDef, cls: ast.ClassDef | None):
        """-> (FunctionDef, receiver expression or None) for a call to a transparent helper of this module."""
        f = call.func
        if isinstance(f, ast.Name) and f.id in self.module_funcs and _is_transparent_name(f.id, self.module):
            if any(isinstance(n, ast.Name) and n.id == f.id and isinstance(n.ctx, ast.Store) for n in ast.walk(caller)):
                return None
            return self.module_funcs[f.id], None
        if isinstance(f, ast.Attribute) and isinstance(f.value, ast.Name) and not (f.attr.startswith("__") and f.attr.endswith("__")):
            target_cls = None
            if f.value.id in ("self", "cls") and cls is not None:
                target_cls = cls
            elif f.value.id in self.classes:
                target_cls = self.classes[f.value.id]
            if target_cls is not None:
                m = self._method(target_cls, f.attr)
                owner = self._owner_of(m) if m is not None else None
                # a method that several classes of the module define is dispatched on the receiver's class: `self.m()` in a
                # base class may run a subclass's override, so the body seen here is not what the call does
                virtual = sum(1 for c in self.classes.values() for b in c.body if isinstance(b, ast.FunctionDef) and b.name == f.attr) > 1
                if m is not None and not virtual and _is_transparent_name(f.attr, self.module, owner):
                    return m, f.value
                if m is not None:
                    return None
            else:
                # `obj._helper(...)` on another object: a private method name defined by exactly one class of this module
                owners = [m for c in self.classes.values() for m in c.body if isinstance(m, ast.FunctionDef) and m.name == f.attr]
                if len(owners) == 1 and f.attr not in self.module_funcs and _is_transparent_name(f.attr, self.module, self._owner_of(owners[0])) and \
                        not any(_decorator_name(d) in ("staticmethod", "classmethod") for d in owners[0].decorator_list):
                    return owners[0], f.value
        return None

    # ---- one call -------------------------------------------------------------------------------------
    def _instantiate(self, callee: ast.FunctionDef, call: ast.Call, recv: ast.AST | None, res: str) -> list[ast.stmt]:
        decos = [_decorator_name(d) for d in callee.decorator_list]
        if any(d not in _ALLOWED_DECORATORS for d in decos):
            raise _NotInlinable("decorated")
        a = callee.args
        if a.vararg or a.kwarg or a.posonlyargs and False:
            raise _NotInlinable("*args/**kwargs")
        if any(isinstance(x, ast.Starred) for x in call.args) or any(k.arg is None for k in call.keywords):
            raise _NotInlinable("starred call")
        body = _body_without_docstring(callee)
        if _has(body, (ast.Yield, ast.YieldFrom, ast.Await, ast.FunctionDef, ast.AsyncFunctionDef, ast.Lambda, ast.ClassDef,
                       ast.Global, ast.Nonlocal)):
            raise _NotInlinable("generator/closure")
        for n in ast.walk(ast.Module(body=body, type_ignores=[])):
            if isinstance(n, ast.Call) and (_dotted(n.func) or "").split(".")[-1] == callee.name:
                raise _NotInlinable("recursive")
        params = [p.arg for p in (*a.posonlyargs, *a.args)]
        kwonly = [p.arg for p in a.kwonlyargs]
        bound: dict[str, ast.AST] = {}
        pos = list(params)
        if "staticmethod" not in decos and recv is not None and pos:
            bound[pos.pop(0)] = recv
        elif "staticmethod" not in decos and recv is None and False:
            pass
        if len(call.args) > len(pos):
            raise _NotInlinable("too many arguments")
        for p, arg in zip(pos, call.args):
            bound[p] = arg
        for k in call.keywords:
            if k.arg in bound or k.arg not in (*params, *kwonly):
                raise _NotInlinable("bad keyword")
            bound[k.arg] = k.value
        defaults = dict(zip(reversed([p.arg for p in (*a.posonlyargs, *a.args)]), reversed(a.defaults)))
        for p, d in zip(a.kwonlyargs, a.kw_defaults):
            if d is not None:
                defaults[p.arg] = d
        for p in (*params, *kwonly):
            if p not in bound:
                if p not in defaults:
                    raise _NotInlinable(f"missing argument {p}")
                bound[p] = defaults[p]
        stored = {n.id for st in body for n in ast.walk(st) if isinstance(n, ast.Name) and isinstance(n.ctx, (ast.Store, ast.Del))}
        self.counter += 1
        tag = f"__{callee.name.strip('_')}{self.counter}"
        names = {v: v + tag for v in stored if v not in bound}
        subst: dict[str, ast.AST] = {}
        pre: list[ast.stmt] = []
        for p, arg in bound.items():
            if p not in stored and _simple_arg(arg):
                subst[p] = arg
            else:
                names[p] = p + tag
                pre.append(ast.Assign(targets=[ast.Name(id=p + tag, ctx=ast.Store())], value=arg))
        ren = _Renamer(names, subst)
        new_body = [ren.visit(st) for st in copy.deepcopy(body)]   # rename first: the result names belong to the caller
        new_body, _ = _single_exit(new_body, res)
        out = pre + new_body
        for st in out:
            for n in ast.walk(st):
                ast.copy_location(n, call)
                n.end_lineno, n.end_col_offset = call.end_lineno, call.end_col_offset
        owner_ = self._owner_of(callee)
        self.inlined.append(f"{owner_}.{callee.name}" if owner_ else callee.name)
        return out

    # ---- statements -----------------------------------------------------------------------------------
    def _hoistable_calls(self, st: ast.stmt, caller, cls) -> list[ast.Call]:
        """Transparent-helper calls evaluated exactly once, unconditionally, when `st` executes."""
        roots: list[ast.AST] = []
        if isinstance(st, (ast.Assign, ast.AnnAssign, ast.AugAssign, ast.Return, ast.Expr)):
            if getattr(st, "value", None) is not None:
                roots.append(st.value)
            if isinstance(st, ast.Assign):
                roots.extend(st.targets)
            elif isinstance(st, (ast.AnnAssign, ast.AugAssign)):
                roots.append(st.target)
        elif isinstance(st, ast.If):
            roots.append(st.test)
        elif isinstance(st, ast.For):
            roots.append(st.iter)
        elif isinstance(st, ast.With):
            roots.extend(i.context_expr for i in st.items)
        found: list[ast.Call] = []

        def walk(n: ast.AST):
            if isinstance(n, (ast.Lambda, ast.ListComp, ast.SetComp, ast.DictComp, ast.GeneratorExp, ast.IfExp)):
                return
            if isinstance(n, ast.BoolOp):
                walk(n.values[0])
                return
            if isinstance(n, ast.Compare) and len(n.ops) > 1:
                walk(n.left)
                walk(n.comparators[0])
                return
            for c in ast.iter_child_nodes(n):
                walk(c)
            if isinstance(n, ast.Call) and self._callee(n, caller, cls) is not None:
                found.append(n)

        for r in roots:
            walk(r)
        return found

    def _block(self, stmts: list[ast.stmt], caller: ast.FunctionDef, cls) -> list[ast.stmt]:
        out: list[ast.stmt] = []
        for st in stmts:
            for field in ("body", "orelse", "finalbody"):
                sub = getattr(st, field, None)
                if isinstance(sub, list) and sub and isinstance(sub[0], ast.stmt) and not isinstance(st, (ast.FunctionDef, ast.ClassDef)):
                    setattr(st, field, self._block(sub, caller, cls))
            if isinstance(st, ast.Try):
                for h in st.handlers:
                    h.body = self._block(h.body, caller, cls)
            if isinstance(st, (ast.FunctionDef, ast.ClassDef)):
                out.append(st)
                continue
            for call in self._hoistable_calls(st, caller, cls):
                callee, recv = self._callee(call, caller, cls)
                if callee is caller:
                    continue
                try:
                    direct_target = None
                    if isinstance(st, ast.Assign) and st.value is call and len(st.targets) == 1 and isinstance(st.targets[0], ast.Name):
                        direct_target = st.targets[0].id
                    elif isinstance(st, ast.AnnAssign) and st.value is call and isinstance(st.target, ast.Name):
                        direct_target = st.target.id
                    if direct_target is not None and any(isinstance(n, ast.Name) and n.id == direct_target for n in ast.walk(call)):
                        direct_target = None
                    tuple_targets = None
                    if isinstance(st, ast.Assign) and st.value is call and len(st.targets) == 1 and isinstance(st.targets[0], ast.Tuple) and \
                            all(isinstance(e, ast.Name) for e in st.targets[0].elts):
                        names = [e.id for e in st.targets[0].elts]
                        if len(set(names)) == len(names) and not any(isinstance(n, ast.Name) and n.id in names for n in ast.walk(call)):
                            tuple_targets = names
                    self.counter += 1
                    body = None
                    if tuple_targets is not None:
                        try:
                            body = self._instantiate(callee, call, recv, tuple_targets)
                            direct_target = "<tuple>"
                        except _NotInlinable:
                            body = None
                    if body is None:
                        res = direct_target or f"__ret_{callee.name.strip('_')}{self.counter}"
                        body = self._instantiate(callee, call, recv, res)
                except _NotInlinable:
                    continue
                out.extend(body)
                if direct_target is not None:
                    st = None
                    break
                if isinstance(st, ast.Expr) and st.value is call:
                    st = None
                    break
                repl = ast.copy_location(ast.Name(id=res, ctx=ast.Load()), call)
                _replace(st, call, repl)
            if st is not None:
                out.append(st)
        return out or [ast.Pass()]

    def run(self) -> None:
        for _ in range(MAX_ROUNDS):
            before = len(self.inlined)
            for st in self.tree.body:
                if isinstance(st, ast.FunctionDef):
                    st.body = self._block(st.body, st, None)
                elif isinstance(st, ast.ClassDef):
                    for sub in st.body:
                        if isinstance(sub, ast.FunctionDef):
                            sub.body = self._block(sub.body, sub, st)
            if len(self.inlined) == before:
                break


def _replace(root: ast.AST, old: ast.AST, new: ast.AST) -> None:
    for parent in ast.walk(root):
        for field, value in ast.iter_fields(parent):
            if value is old:
                setattr(parent, field, new)
                return
            if isinstance(value, list):
                for i, v in enumerate(value):
                    if v is old:
                        value[i] = new
                        return


def _propagate_self_aliases(fn: ast.FunctionDef) -> int:
    """`hdr = self.header` ... `hdr.nchans`  ->  `self.header.nchans`: a local bound once to a plain attribute chain of
    `self` that the function never assigns is only another spelling of that chain."""
    assigns: dict[str, list[ast.Assign]] = {}
    other_bind: set[str] = set()
    stored_chains: set[str] = set()
    params = {a.arg for a in (*fn.args.posonlyargs, *fn.args.args, *fn.args.kwonlyargs)} | \
        ({fn.args.vararg.arg} if fn.args.vararg else set()) | ({fn.args.kwarg.arg} if fn.args.kwarg else set())
    for n in ast.walk(fn):
        if isinstance(n, (ast.FunctionDef, ast.Lambda)) and n is not fn:
            return 0   # closures: leave alone
        if isinstance(n, ast.Assign) and len(n.targets) == 1 and isinstance(n.targets[0], ast.Name):
            assigns.setdefault(n.targets[0].id, []).append(n)
        elif isinstance(n, ast.Name) and isinstance(n.ctx, (ast.Store, ast.Del)):
            other_bind.add(n.id)
        if isinstance(n, ast.Attribute) and isinstance(n.ctx, (ast.Store, ast.Del)):
            d = _dotted(n)
            if d:
                stored_chains.add(d)
        if isinstance(n, (ast.Global, ast.Nonlocal)):
            return 0
    done = 0
    for name, sts in assigns.items():
        if len(sts) != 1 or name in params:
            continue
        st = sts[0]
        chain = _dotted(st.value) if isinstance(st.value, ast.Attribute) else None
        if chain is None or not chain.startswith("self.") or chain.count(".") > 3:
            continue
        # bound anywhere else (loop target, with-as, augmented, tuple assignment)?
        stores = [n for n in ast.walk(fn) if isinstance(n, ast.Name) and n.id == name and isinstance(n.ctx, (ast.Store, ast.Del))]
        if len(stores) != 1:
            continue
        if any(chain == c or chain.startswith(c + ".") or c.startswith(chain + ".") for c in stored_chains):
            continue
        # must be a top-level statement of the function body that precedes every use (no conditional binding)
        if st not in fn.body:
            continue
        first_use = min((n.lineno, n.col_offset) for n in ast.walk(fn) if isinstance(n, ast.Name) and n.id == name and isinstance(n.ctx, ast.Load)) \
            if any(isinstance(n, ast.Name) and n.id == name and isinstance(n.ctx, ast.Load) for n in ast.walk(fn)) else None
        if first_use is not None and first_use < (st.lineno, st.col_offset):
            continue

        class R(ast.NodeTransformer):
            def visit_Name(self, node):  # noqa: N802
                if node.id == name and isinstance(node.ctx, ast.Load):
                    return ast.copy_location(copy.deepcopy(st.value), node)
                return node

        for i, b in enumerate(list(fn.body)):
            if b is st:
                continue
            fn.body[i] = R().visit(b)
        fn.body.remove(st)
        if not fn.body:
            fn.body.append(ast.Pass())
        done += 1
    return done


def _has_walrus(e: ast.AST) -> bool:
    return any(isinstance(n, ast.NamedExpr) for n in ast.walk(e))


def _always_leaves(stmts: list[ast.stmt]) -> bool:
    return bool(stmts) and isinstance(stmts[-1], (ast.Raise, ast.Return, ast.Break, ast.Continue))


def _hoistable_walrus(e: ast.AST) -> list[ast.NamedExpr]:
    """Assignment expressions evaluated exactly once, unconditionally, whenever `e` is evaluated."""
    out: list[ast.NamedExpr] = []

    def walk(n: ast.AST):
        if isinstance(n, (ast.Lambda, ast.ListComp, ast.SetComp, ast.DictComp, ast.GeneratorExp)):
            return
        if isinstance(n, ast.IfExp):
            walk(n.test)
            return
        if isinstance(n, ast.BoolOp):
            walk(n.values[0])
            return
        if isinstance(n, ast.Compare) and len(n.ops) > 1:
            walk(n.left)
            walk(n.comparators[0])
            return
        for c in ast.iter_child_nodes(n):
            walk(c)
        if isinstance(n, ast.NamedExpr) and isinstance(n.target, ast.Name):
            out.append(n)
    walk(e)
    return out


def _desugar_walrus(stmts: list[ast.stmt]) -> list[ast.stmt]:
    """`if (x := f()) is None: ...` is `x = f()` followed by `if x is None: ...`; `if a or (x := f()) in S: leave` is two
    guards; `while (k := f()) != end:` is `while True: k = f(); if not (k != end): break`.  Only where the assignment
    expression is evaluated exactly once per evaluation of the statement; anything else is left as written."""
    out: list[ast.stmt] = []
    for st in stmts:
        for field in ("body", "orelse", "finalbody"):
            sub = getattr(st, field, None)
            if isinstance(sub, list) and sub and isinstance(sub[0], ast.stmt) and not isinstance(st, (ast.FunctionDef, ast.ClassDef)):
                setattr(st, field, _desugar_walrus(sub))
        if isinstance(st, ast.Try):
            for h in st.handlers:
                h.body = _desugar_walrus(h.body)
        if isinstance(st, ast.If) and isinstance(st.test, ast.BoolOp) and isinstance(st.test.op, ast.Or) and _has_walrus(st.test) \
                and _always_leaves(st.body) and not st.orelse:
            # every operand guards the same leaving body: one `if` per operand
            chain = []
            for v in st.test.values:
                chain.append(ast.copy_location(ast.If(test=v, body=copy.deepcopy(st.body), orelse=[]), st))
            out.extend(_desugar_walrus(chain))
            continue
        if isinstance(st, ast.While) and _has_walrus(st.test) and not st.orelse:
            w = _hoistable_walrus(st.test)
            if len(w) == len([n for n in ast.walk(st.test) if isinstance(n, ast.NamedExpr)]):
                pre = [ast.copy_location(ast.Assign(targets=[ast.Name(id=n.target.id, ctx=ast.Store())], value=n.value), st) for n in w]
                test = st.test
                for n in w:
                    _replace_in(st, "test", n, ast.copy_location(ast.Name(id=n.target.id, ctx=ast.Load()), n))
                test = st.test
                brk = ast.copy_location(ast.If(test=ast.UnaryOp(op=ast.Not(), operand=test), body=[ast.Break()], orelse=[]), st)
                new = ast.copy_location(ast.While(test=ast.Constant(value=True), body=pre + [brk] + st.body, orelse=[]), st)
                out.append(ast.fix_missing_locations(new))
                continue
        roots = []
        if isinstance(st, ast.If):
            roots = [("test", st.test)]
        elif isinstance(st, (ast.Assign, ast.AugAssign, ast.Return, ast.Expr, ast.AnnAssign)) and getattr(st, "value", None) is not None:
            roots = [("value", st.value)]
        done = False
        for field, e in roots:
            w = _hoistable_walrus(e)
            if w and len(w) == len([n for n in ast.walk(e) if isinstance(n, ast.NamedExpr)]):
                for n in w:
                    out.append(ast.fix_missing_locations(ast.copy_location(
                        ast.Assign(targets=[ast.Name(id=n.target.id, ctx=ast.Store())], value=n.value), st)))
                    _replace_in(st, field, n, ast.copy_location(ast.Name(id=n.target.id, ctx=ast.Load()), n))
                done = True
        out.append(st)
    return out


def _replace_in(st: ast.AST, field: str, old: ast.AST, new: ast.AST) -> None:
    if getattr(st, field) is old:
        setattr(st, field, new)
        return
    _replace(getattr(st, field), old, new)


def _count_args(call: ast.Call) -> tuple[ast.AST, ast.AST] | None:
    """(start, step) of itertools.count(...)."""
    if _dotted(call.func) not in ("itertools.count", "count"):
        return None
    kw = {k.arg: k.value for k in call.keywords}
    start = call.args[0] if len(call.args) > 0 else kw.get("start", ast.Constant(0))
    step = call.args[1] if len(call.args) > 1 else kw.get("step", ast.Constant(1))
    return start, step


def _desugar_count_zip(fn: ast.FunctionDef) -> int:
    """`for off, (n, i, data) in zip(itertools.count(a, s), X.read_plan(...))` is the plan loop with `off = a + s*i`:
    read_plan numbers its blocks 0, 1, 2, ... (C01), so a counter stepping alongside it is that index scaled."""
    single: dict[str, ast.Assign] = {}
    counts: dict[str, int] = {}
    for n in ast.walk(fn):
        if isinstance(n, ast.Assign) and len(n.targets) == 1 and isinstance(n.targets[0], ast.Name):
            single[n.targets[0].id] = n
            counts[n.targets[0].id] = counts.get(n.targets[0].id, 0) + 1
    done = 0
    for loop in [n for n in ast.walk(fn) if isinstance(n, ast.For)]:
        it = loop.iter
        if not (isinstance(it, ast.Call) and _dotted(it.func) == "zip" and len(it.args) == 2 and isinstance(loop.target, ast.Tuple) and len(loop.target.elts) == 2):
            continue

        def resolve(e):
            if isinstance(e, ast.Name) and counts.get(e.id) == 1 and isinstance(single[e.id].value, ast.Call):
                return single[e.id].value, single[e.id]
            return (e, None) if isinstance(e, ast.Call) else (None, None)
        (c_call, c_def), (p_call, p_def) = resolve(it.args[0]), resolve(it.args[1])
        if c_call is None or p_call is None or _count_args(c_call) is None or not (_dotted(p_call.func) or "").endswith(".read_plan"):
            continue
        off_t, plan_t = loop.target.elts
        if not (isinstance(off_t, ast.Name) and isinstance(plan_t, ast.Tuple) and len(plan_t.elts) == 3 and all(isinstance(x, ast.Name) for x in plan_t.elts)):
            continue
        # the temporaries must be used by this loop only
        uses = lambda nm: sum(1 for n in ast.walk(fn) if isinstance(n, ast.Name) and n.id == nm and isinstance(n.ctx, ast.Load))  # noqa: E731
        if any(d is not None and uses(d.targets[0].id) != 1 for d in (c_def, p_def)):
            continue
        start, step = _count_args(c_call)
        idx = plan_t.elts[1]
        if idx.id.startswith("_"):
            idx = ast.Name(id="plan_index__", ctx=ast.Store())
            plan_t.elts[1] = idx
        bind = ast.Assign(targets=[ast.Name(id=off_t.id, ctx=ast.Store())],
                          value=ast.BinOp(left=copy.deepcopy(start), op=ast.Add(),
                                          right=ast.BinOp(left=ast.Name(id=idx.id, ctx=ast.Load()), op=ast.Mult(), right=copy.deepcopy(step))))
        loop.target = plan_t
        loop.iter = p_call
        loop.body = [ast.copy_location(bind, loop)] + loop.body
        for d in (c_def, p_def):
            if d is not None:
                _remove_stmt(fn, d)
        done += 1
    if done:
        ast.fix_missing_locations(fn)
    return done


def _remove_stmt(root: ast.AST, st: ast.stmt) -> None:
    for n in ast.walk(root):
        for field in ("body", "orelse", "finalbody"):
            lst = getattr(n, field, None)
            if isinstance(lst, list) and st in lst:
                lst.remove(st)
                if not lst and field == "body":
                    lst.append(ast.Pass())
                return


_ITER_WRAPPERS = {"track", "list", "tuple", "iter", "reversed", "tqdm"}


def _namedtuple_fields_by_index(tree: ast.Module, classes: dict[str, list[str]]) -> int:
    """Local type inference for module-level NamedTuple classes: a name bound to `C(...)`, or the target of a loop over
    a list built only from `C(...)` values, has `name.field` rewritten as `name[i]`; a loop variable used only through
    such subscripts becomes a tuple target."""
    done = 0

    def ctor(e):
        return e.func.id if isinstance(e, ast.Call) and isinstance(e.func, ast.Name) and e.func.id in classes else None

    for fn in [n for n in ast.walk(tree) if isinstance(n, (ast.FunctionDef, ast.AsyncFunctionDef))]:
        inst: dict[str, set] = {}
        lists: dict[str, set] = {}
        for n in ast.walk(fn):
            if isinstance(n, ast.Assign) and len(n.targets) == 1 and isinstance(n.targets[0], ast.Name):
                t, v = n.targets[0].id, n.value
                if ctor(v):
                    inst.setdefault(t, set()).add(ctor(v))
                elif isinstance(v, ast.ListComp) and ctor(v.elt):
                    lists.setdefault(t, set()).add(ctor(v.elt))
                elif isinstance(v, (ast.List, ast.Tuple)) and v.elts and all(ctor(e) for e in v.elts):
                    lists.setdefault(t, set()).update(ctor(e) for e in v.elts)
                elif isinstance(v, (ast.List, ast.Tuple)) and not v.elts:
                    lists.setdefault(t, set())
                else:
                    inst.setdefault(t, set()).add(None)
                    lists.setdefault(t, set()).add(None)
            elif isinstance(n, ast.Call) and isinstance(n.func, ast.Attribute) and n.func.attr == "append" \
                    and isinstance(n.func.value, ast.Name) and len(n.args) == 1:
                lists.setdefault(n.func.value.id, set()).add(ctor(n.args[0]))
        loops = []
        for n in ast.walk(fn):
            if isinstance(n, ast.For) and isinstance(n.target, ast.Name):
                it = n.iter
                while isinstance(it, ast.Call) and _dotted(it.func).split(".")[-1] in _ITER_WRAPPERS and it.args:
                    it = it.args[0]
                kinds = lists.get(it.id) if isinstance(it, ast.Name) else None
                inst.setdefault(n.target.id, set()).add(next(iter(kinds)) if kinds and len(kinds) == 1 else None)
                loops.append(n)
        typed = {k: next(iter(v)) for k, v in inst.items() if len(v) == 1 and None not in v}
        if not typed:
            continue

        class F(ast.NodeTransformer):
            def visit_Attribute(self, node):  # noqa: N802
                self.generic_visit(node)
                nonlocal done
                if isinstance(node.value, ast.Name) and node.value.id in typed and isinstance(node.ctx, ast.Load) \
                        and node.attr in classes[typed[node.value.id]]:
                    done += 1
                    k = classes[typed[node.value.id]].index(node.attr)
                    return ast.copy_location(ast.Subscript(value=node.value, slice=ast.Constant(k), ctx=ast.Load()), node)
                return node
        F().visit(fn)
        for lp in loops:
            v = lp.target.id
            if v not in typed:
                continue
            uses = [n for n in ast.walk(fn) if isinstance(n, ast.Name) and n.id == v and n is not lp.target]
            subs = [n for n in ast.walk(fn) if isinstance(n, ast.Subscript) and isinstance(n.value, ast.Name) and n.value.id == v
                    and isinstance(n.slice, ast.Constant) and isinstance(n.slice.value, int)]
            if not uses or len(uses) != len(subs):
                continue
            arity = len(classes[typed[v]])
            names = [f"{v}__{i}" for i in range(arity)]

            class S(ast.NodeTransformer):
                def visit_Subscript(self, node):  # noqa: N802
                    self.generic_visit(node)
                    if isinstance(node.value, ast.Name) and node.value.id == v and isinstance(node.slice, ast.Constant):
                        return ast.copy_location(ast.Name(id=names[node.slice.value], ctx=ast.Load()), node)
                    return node
            S().visit(fn)
            lp.target = ast.copy_location(ast.Tuple(elts=[ast.Name(id=x, ctx=ast.Store()) for x in names], ctx=ast.Store()), lp.target)
    return done



def _namedtuples_as_tuples(tree: ast.Module) -> int:
    """`class P(NamedTuple): a: int; b: int` ... `P(x, y)` / `P(a=x, b=y)` is the tuple `(x, y)` for every use that
    unpacks or indexes it (field access by name is left alone)."""
    classes: dict[str, list[str]] = {}
    for st in tree.body:
        if isinstance(st, ast.ClassDef) and any(_dotted(b) in ("NamedTuple", "typing.NamedTuple") for b in st.bases):
            fields = [b.target.id for b in st.body if isinstance(b, ast.AnnAssign) and isinstance(b.target, ast.Name)]
            if fields and not any(isinstance(b, ast.FunctionDef) for b in st.body):
                classes[st.name] = fields
    if not classes:
        return 0
    done = _namedtuple_fields_by_index(tree, classes)
    # a class whose instances are still read by field name somewhere is left as it is
    called = {id(n.func) for n in ast.walk(tree) if isinstance(n, ast.Call)}
    field_reads = {n.attr for n in ast.walk(tree) if isinstance(n, ast.Attribute) and id(n) not in called}

    class T(ast.NodeTransformer):
        def visit_Call(self, node):  # noqa: N802
            self.generic_visit(node)
            nonlocal done
            name = node.func.id if isinstance(node.func, ast.Name) else None
            if name in classes and not (set(classes[name]) & field_reads):
                fields = classes[name]
                if any(isinstance(a, ast.Starred) for a in node.args) or any(k.arg is None for k in node.keywords):
                    return node
                vals = list(node.args)
                kw = {k.arg: k.value for k in node.keywords}
                for f in fields[len(vals):]:
                    if f not in kw:
                        return node
                    vals.append(kw[f])
                if len(vals) != len(fields):
                    return node
                done += 1
                return ast.copy_location(ast.Tuple(elts=vals, ctx=ast.Load()), node)
            return node
    T().visit(tree)
    return done


def _sugar_divmod(fn: ast.FunctionDef) -> int:
    """`q = a // b` next to `r = a % b` (either order, same operands, neither target among them) is `q, r = divmod(a, b)`."""
    done = 0
    for node in ast.walk(fn):
        for field in ("body", "orelse", "finalbody"):
            body = getattr(node, field, None)
            if not isinstance(body, list):
                continue
            i = 0
            while i + 1 < len(body):
                a, b = body[i], body[i + 1]
                ok = all(isinstance(x, ast.Assign) and len(x.targets) == 1 and isinstance(x.targets[0], ast.Name)
                         and isinstance(x.value, ast.BinOp) and isinstance(x.value.op, (ast.FloorDiv, ast.Mod)) for x in (a, b))
                if ok and type(a.value.op) is not type(b.value.op) \
                        and ast.dump(a.value.left) == ast.dump(b.value.left) and ast.dump(a.value.right) == ast.dump(b.value.right):
                    q, r = (a, b) if isinstance(a.value.op, ast.FloorDiv) else (b, a)
                    operands = {n.id for n in ast.walk(a.value) if isinstance(n, ast.Name)}
                    pure = not any(isinstance(n, (ast.Call, ast.Await, ast.Yield)) for n in ast.walk(a.value))
                    if pure and q.targets[0].id != r.targets[0].id and not ({q.targets[0].id, r.targets[0].id} & operands):
                        new = ast.Assign(
                            targets=[ast.Tuple(elts=[ast.Name(id=q.targets[0].id, ctx=ast.Store()),
                                                     ast.Name(id=r.targets[0].id, ctx=ast.Store())], ctx=ast.Store())],
                            value=ast.Call(func=ast.Name(id="divmod", ctx=ast.Load()), args=[a.value.left, a.value.right], keywords=[]))
                        body[i:i + 2] = [ast.copy_location(new, a)]
                        done += 1
                i += 1
    return done


def _fold_loop_target_copies(fn: ast.FunctionDef) -> int:
    """`for (t0, t1) in it: a, b = (t0, t1); ...` with t0, t1 used nowhere else is `for (a, b) in it: ...`."""
    done = 0
    for lp in [n for n in ast.walk(fn) if isinstance(n, ast.For)]:
        if not (isinstance(lp.target, ast.Tuple) and all(isinstance(e, ast.Name) for e in lp.target.elts) and lp.body):
            continue
        st = lp.body[0]
        if not (isinstance(st, ast.Assign) and len(st.targets) == 1 and isinstance(st.targets[0], ast.Tuple)
                and isinstance(st.value, ast.Tuple) and len(st.value.elts) == len(lp.target.elts) == len(st.targets[0].elts)
                and all(isinstance(e, ast.Name) for e in st.targets[0].elts)
                and all(isinstance(e, ast.Name) for e in st.value.elts)):
            continue
        names = [e.id for e in lp.target.elts]
        if [e.id for e in st.value.elts] != names or len(set(names)) != len(names):
            continue
        uses = sum(1 for n in ast.walk(fn) if isinstance(n, ast.Name) and n.id in names)
        if uses != 2 * len(names) or len(lp.body) < 2:
            continue
        lp.target = ast.copy_location(ast.Tuple(elts=[ast.Name(id=e.id, ctx=ast.Store()) for e in st.targets[0].elts], ctx=ast.Store()), lp.target)
        del lp.body[0]
        done += 1
    return done


def _index_form_for_mutated_elements(fn: ast.FunctionDef) -> int:
    """A loop that mutates its iteration element in place (`for row in A: row[:] = f(row)`, also through `enumerate` /
    `zip` and through a view `p = row[j]`) is put in index form: `for row__i in range(len(A)): row = A[row__i]; ...`,
    so that the store is a store into `A`.  Loops that only read their element are left alone."""
    done = 0

    def mutated(name: str, body: list[ast.stmt]) -> bool:
        seen, work = set(), [name]
        while work:
            n = work.pop()
            if n in seen:
                continue
            seen.add(n)
            for st in body:
                for sub in ast.walk(st):
                    if isinstance(sub, (ast.Assign, ast.AugAssign)):
                        tgts = sub.targets if isinstance(sub, ast.Assign) else [sub.target]
                        for t in tgts:
                            b = t
                            depth = 0
                            while isinstance(b, ast.Subscript):
                                b, depth = b.value, depth + 1
                            if depth and isinstance(b, ast.Name) and b.id == n:
                                return True
                        if isinstance(sub, ast.Assign) and len(sub.targets) == 1 and isinstance(sub.targets[0], ast.Name):
                            v = sub.value
                            while isinstance(v, ast.Subscript):
                                v = v.value
                            if isinstance(v, ast.Name) and v.id == n and isinstance(sub.value, ast.Subscript):
                                work.append(sub.targets[0].id)
        return False

    def visit(body: list[ast.stmt]) -> None:
        nonlocal done
        for st in body:
            for field in ("body", "orelse", "finalbody"):
                inner = getattr(st, field, None)
                if isinstance(inner, list) and inner and isinstance(inner[0], ast.stmt):
                    visit(inner)
            if not isinstance(st, ast.For) or st.orelse:
                continue
            it, tgt = st.iter, st.target
            idx = None
            if isinstance(it, ast.Call) and _dotted(it.func) == "enumerate" and len(it.args) == 1 and not it.keywords \
                    and isinstance(tgt, ast.Tuple) and len(tgt.elts) == 2 and isinstance(tgt.elts[0], ast.Name):
                idx, it, tgt = tgt.elts[0].id, it.args[0], tgt.elts[1]
            if isinstance(it, ast.Call) and _dotted(it.func) == "zip" and it.args and isinstance(tgt, ast.Tuple) \
                    and len(tgt.elts) == len(it.args) and all(k.arg == "strict" for k in it.keywords):
                seqs, elems = list(it.args), list(tgt.elts)
            elif not isinstance(it, ast.Call):
                seqs, elems = [it], [tgt]
            else:
                continue
            if not all(isinstance(e, ast.Name) for e in elems):
                continue
            if not all(isinstance(q, (ast.Name, ast.Attribute, ast.Subscript)) for q in seqs):
                continue
            if not any(mutated(e.id, st.body) for e in elems):
                continue
            idx = idx or f"{elems[0].id}__i"
            binds = [ast.Assign(targets=[ast.Name(id=e.id, ctx=ast.Store())],
                                value=ast.Subscript(value=q, slice=ast.Name(id=idx, ctx=ast.Load()), ctx=ast.Load()))
                     for e, q in zip(elems, seqs)]
            for b in binds:
                ast.copy_location(b, st)
            st.target = ast.copy_location(ast.Name(id=idx, ctx=ast.Store()), st.target)
            st.iter = ast.copy_location(ast.Call(func=ast.Name(id="range", ctx=ast.Load()), args=[
                ast.Call(func=ast.Name(id="len", ctx=ast.Load()), args=[seqs[0]], keywords=[])], keywords=[]), st.iter)
            st.body = binds + st.body
            done += 1
    visit(fn.body)
    return done


def _copy(e):
    import copy as _c
    return _c.deepcopy(e)


def _search_loops(fn: ast.FunctionDef) -> int:
    """`for i, (a, b) in enumerate(zip(A, B)): if COND(a, b): break` (nothing else in the loop, no else clause) leaves
    i, a, b at the first element satisfying COND.  It is rewritten as `i = np.where(COND(A, B))[0][0]; a = A[i]; b = B[i]`
    - the vectorised spelling of the same search (they differ only when nothing matches, where one raises and the other
    silently keeps the last element; the callers' range guards exclude that case)."""
    done = 0
    for node in ast.walk(fn):
        for field in ("body", "orelse", "finalbody"):
            body = getattr(node, field, None)
            if not isinstance(body, list):
                continue
            for pos, st in enumerate(list(body)):
                if not (isinstance(st, ast.For) and not st.orelse and len(st.body) == 1 and isinstance(st.body[0], ast.If)
                        and not st.body[0].orelse and len(st.body[0].body) == 1 and isinstance(st.body[0].body[0], ast.Break)):
                    continue
                it, tgt, idx = st.iter, st.target, None
                if isinstance(it, ast.Call) and _dotted(it.func) == "enumerate" and len(it.args) == 1 and not it.keywords \
                        and isinstance(tgt, ast.Tuple) and len(tgt.elts) == 2 and isinstance(tgt.elts[0], ast.Name):
                    idx, it, tgt = tgt.elts[0].id, it.args[0], tgt.elts[1]
                if isinstance(it, ast.Call) and _dotted(it.func) == "zip" and isinstance(tgt, ast.Tuple) and len(tgt.elts) == len(it.args) \
                        and all(k.arg == "strict" for k in it.keywords):
                    seqs, elems = list(it.args), list(tgt.elts)
                elif not isinstance(it, ast.Call):
                    seqs, elems = [it], [tgt]
                else:
                    continue
                if not all(isinstance(e, ast.Name) for e in elems) or not all(isinstance(q, (ast.Name, ast.Attribute)) for q in seqs):
                    continue
                cond = st.body[0].test
                if not (isinstance(cond, ast.Compare) and len(cond.ops) == 1 and isinstance(cond.ops[0], (ast.Lt, ast.LtE, ast.Gt, ast.GtE, ast.Eq))):
                    continue
                if any(isinstance(n, (ast.Call, ast.Subscript, ast.Attribute)) and any(isinstance(m, ast.Name) and m.id in {e.id for e in elems}
                                                                                     for m in ast.walk(n)) for n in ast.walk(cond)):
                    continue   # the element is used other than as a plain operand
                table = {e.id: q for e, q in zip(elems, seqs)}

                class V(ast.NodeTransformer):
                    def visit_Name(self, n):  # noqa: N802
                        return ast.copy_location(_copy(table[n.id]), n) if n.id in table and isinstance(n.ctx, ast.Load) else n
                vec = V().visit(_copy(cond))
                idx = idx or f"{elems[0].id}__i"
                found = ast.Subscript(value=ast.Subscript(value=ast.Call(func=ast.Attribute(value=ast.Name(id="np", ctx=ast.Load()), attr="where", ctx=ast.Load()),
                                                                         args=[vec], keywords=[]), slice=ast.Constant(0), ctx=ast.Load()),
                                      slice=ast.Constant(0), ctx=ast.Load())
                new = [ast.Assign(targets=[ast.Name(id=idx, ctx=ast.Store())], value=found)]
                new += [ast.Assign(targets=[ast.Name(id=e.id, ctx=ast.Store())],
                                   value=ast.Subscript(value=_copy(q), slice=ast.Name(id=idx, ctx=ast.Load()), ctx=ast.Load())) for e, q in zip(elems, seqs)]
                for n_ in new:
                    ast.copy_location(n_, st)
                i0 = body.index(st)
                body[i0:i0 + 1] = new
                done += 1
    return done


def _append_loops_as_comprehensions(fn: ast.FunctionDef) -> int:
    """`xs = []; for v in it: [temps;] xs.append(e)` (nothing else in the loop, nothing touching xs in between) is
    `xs = [e for v in it]`; same for dict fills.  The rule packs read the comprehension form."""
    from .kernelspec import _collect_loop
    done = 0

    def visit(stmts: list[ast.stmt]) -> list[ast.stmt]:
        nonlocal done
        out: list[ast.stmt] = []
        for st in stmts:
            for field in ("body", "orelse", "finalbody"):
                sub = getattr(st, field, None)
                if isinstance(sub, list) and sub and isinstance(sub[0], ast.stmt) and not isinstance(st, (ast.FunctionDef, ast.ClassDef)):
                    setattr(st, field, visit(sub))
            if isinstance(st, ast.Try):
                for h in st.handlers:
                    h.body = visit(h.body)
            if isinstance(st, ast.For) and not st.orelse and st.body:
                try:
                    if _collect_loop(st, out):
                        done += 1
                        continue
                except Exception:  # noqa: BLE001
                    pass
            out.append(st)
        return out
    fn.body = visit(fn.body)
    return done


_GENERATED = __import__("re").compile(r".+__\w+?\d+$")


def _coalesce_result_copies(fn: ast.FunctionDef) -> int:
    """`u__helper3 = ...; [statements using only u__helper3]; t = u__helper3` where u__helper3 is a name the inliner made
    (a local of a dissolved helper) and t occurs nowhere between the first occurrence of u__helper3 and the copy:
    the helper's local IS the caller's t - rename it and drop the copy."""
    done = 0
    changed = True
    while changed:
        changed = False
        for node in ast.walk(fn):
            for field in ("body", "orelse", "finalbody"):
                body = getattr(node, field, None)
                if not isinstance(body, list):
                    continue
                for pos, st in enumerate(body):
                    if not (isinstance(st, ast.Assign) and len(st.targets) == 1 and isinstance(st.targets[0], ast.Name) and isinstance(st.value, ast.Name)
                            and _GENERATED.match(st.value.id) and not _GENERATED.match(st.targets[0].id)):
                        continue
                    t, u = st.targets[0].id, st.value.id
                    # every occurrence of u lies in this block, before the copy
                    inside = [n for b in body[:pos] for n in ast.walk(b) if isinstance(n, ast.Name) and n.id == u]
                    everywhere = [n for n in ast.walk(fn) if isinstance(n, ast.Name) and n.id == u]
                    if len(inside) + 1 != len(everywhere) or not inside:
                        continue
                    first = next(i for i, b in enumerate(body[:pos]) if any(isinstance(n, ast.Name) and n.id == u for n in ast.walk(b)))
                    if any(isinstance(n, ast.Name) and n.id == t for b in body[first:pos] for n in ast.walk(b)):
                        continue
                    for n in inside:
                        n.id = t
                    del body[pos]
                    done += 1
                    changed = True
                    break
                if changed:
                    break
            if changed:
                break
    return done


def _stored_names(stmts: list[ast.stmt]) -> set[str]:
    return {n.id for b in stmts for n in ast.walk(b) if isinstance(n, ast.Name) and isinstance(n.ctx, (ast.Store, ast.Del))}


def _loaded_names(e: ast.AST) -> set[str]:
    return {n.id for n in ast.walk(e) if isinstance(n, ast.Name)}


def _bodies(fn: ast.FunctionDef):
    for node in ast.walk(fn):
        for field in ("body", "orelse", "finalbody"):
            body = getattr(node, field, None)
            if isinstance(body, list) and body and isinstance(body[0], ast.stmt):
                yield body


def _fold_dict_stores(fn: ast.FunctionDef) -> int:
    """`d = {...}` directly followed by `d["k"] = v` (v does not mention d) is `d = {..., "k": v}`."""
    done = 0
    for body in _bodies(fn):
        pos = 0
        while pos + 1 < len(body):
            st, nx = body[pos], body[pos + 1]
            if (isinstance(st, ast.Assign) and len(st.targets) == 1 and isinstance(st.targets[0], ast.Name) and isinstance(st.value, ast.Dict)
                    and isinstance(nx, ast.Assign) and len(nx.targets) == 1 and isinstance(nx.targets[0], ast.Subscript)
                    and isinstance(nx.targets[0].value, ast.Name) and nx.targets[0].value.id == st.targets[0].id
                    and isinstance(nx.targets[0].slice, ast.Constant) and isinstance(nx.targets[0].slice.value, str)
                    and st.targets[0].id not in _loaded_names(nx.value)):
                key = nx.targets[0].slice.value
                keep = [(k, v) for k, v in zip(st.value.keys, st.value.values) if not (isinstance(k, ast.Constant) and k.value == key)]
                st.value.keys = [k for k, _ in keep] + [ast.Constant(key)]
                st.value.values = [v for _, v in keep] + [nx.value]
                del body[pos + 1]
                done += 1
                continue
            pos += 1
    return done


def _splat_literal_dicts(fn: ast.FunctionDef) -> int:
    """`kw = {"a": x, "b": y}; f(**kw, ...)` with kw bound once, used only as `**kw`, and nothing the literal reads
    rebound in between: the call is `f(a=x, b=y, ...)`."""
    done = 0
    for body in _bodies(fn):
        for pos, st in enumerate(list(body)):
            if not (isinstance(st, ast.Assign) and len(st.targets) == 1 and isinstance(st.targets[0], ast.Name) and isinstance(st.value, ast.Dict)
                    and st.value.keys and all(k is None or (isinstance(k, ast.Constant) and isinstance(k.value, str) and k.value.isidentifier()) for k in st.value.keys)
                    and all(k is not None or isinstance(v, ast.Name) for k, v in zip(st.value.keys, st.value.values))):
                continue
            m = st.targets[0].id
            occ = [n for n in ast.walk(fn) if isinstance(n, ast.Name) and n.id == m]
            if sum(isinstance(n.ctx, ast.Store) for n in occ) != 1:
                continue
            uses = []
            for idx in range(pos + 1, len(body)):
                for c in ast.walk(body[idx]):
                    if isinstance(c, ast.Call):
                        for k in c.keywords:
                            if k.arg is None and isinstance(k.value, ast.Name) and k.value.id == m:
                                uses.append((idx, c, k))
            if not uses or len(uses) + 1 != len(occ):
                continue
            last = max(i for i, _, _ in uses)
            if _stored_names(body[pos + 1:last]) & _loaded_names(st.value):
                continue
            # a splat inside a loop / nested function would re-evaluate the values: only straight-line uses
            if any(not any(c is n for n in ast.walk(body[i])) or isinstance(body[i], (ast.FunctionDef, ast.While)) for i, c, _ in uses):
                continue
            for _, c, k in uses:
                at = c.keywords.index(k)
                c.keywords[at:at + 1] = [ast.keyword(arg=(kk.value if kk is not None else None), value=_copy(v)) for kk, v in zip(st.value.keys, st.value.values)]
            body.remove(st)
            done += 1
    return done


def _iterator_temporaries(fn: ast.FunctionDef) -> int:
    """`plan = CALL; ...; for x in plan:` with plan bound once and read once, nothing CALL reads rebound in between:
    the loop iterates over CALL."""
    done = 0
    for body in _bodies(fn):
        for pos, st in enumerate(list(body)):
            if not (isinstance(st, ast.Assign) and len(st.targets) == 1 and isinstance(st.targets[0], ast.Name) and isinstance(st.value, ast.Call)):
                continue
            m = st.targets[0].id
            occ = [n for n in ast.walk(fn) if isinstance(n, ast.Name) and n.id == m]
            if len(occ) != 2:
                continue
            at = body.index(st)
            loop = next((b for b in body[at + 1:] if isinstance(b, ast.For) and isinstance(b.iter, ast.Name) and b.iter.id == m), None)
            if loop is None:
                continue
            between = body[at + 1:body.index(loop)]
            if _stored_names(between) & _loaded_names(st.value) or any(isinstance(n, (ast.Call, ast.Yield, ast.Await)) for b in between for n in ast.walk(b)):
                continue
            loop.iter = st.value
            body.remove(st)
            done += 1
    return done


def _conditional_callee(fn: ast.FunctionDef) -> int:
    """`f = A if c else B; ...; f(args)` with f bound once and only ever called, c not rebound afterwards:
    every statement calling f becomes `if c: <statement with A> else: <statement with B>`."""
    done = 0
    for body in _bodies(fn):
        for st in list(body):
            if not (isinstance(st, ast.Assign) and len(st.targets) == 1 and isinstance(st.targets[0], ast.Name) and isinstance(st.value, ast.IfExp)
                    and _dotted(st.value.body) and _dotted(st.value.orelse)):
                continue
            f = st.targets[0].id
            occ = [n for n in ast.walk(fn) if isinstance(n, ast.Name) and n.id == f]
            calls = [c for c in ast.walk(fn) if isinstance(c, ast.Call) and isinstance(c.func, ast.Name) and c.func.id == f]
            if len(calls) + 1 != len(occ) or not calls or any(c.lineno <= st.lineno for c in calls):
                continue
            tested = _loaded_names(st.value.test) | _loaded_names(st.value.body) | _loaded_names(st.value.orelse)
            if any(isinstance(n, ast.Name) and n.id in tested and isinstance(n.ctx, (ast.Store, ast.Del)) and n.lineno > st.lineno for n in ast.walk(fn)):
                continue
            hosts = []
            for b2 in _bodies(fn):
                for h in b2:
                    if isinstance(h, (ast.Assign, ast.AugAssign, ast.AnnAssign, ast.Expr, ast.Return)) and any(c is n for c in calls for n in ast.walk(h)):
                        hosts.append((b2, h))
            if sum(1 for _, h in hosts for n in ast.walk(h) if any(n is c for c in calls)) != len(calls):
                continue
            for b2, h in hosts:
                def variant(which):
                    v = _copy(h)
                    for n in ast.walk(v):
                        if isinstance(n, ast.Call) and isinstance(n.func, ast.Name) and n.func.id == f:
                            n.func = _copy(which)
                    return v
                b2[b2.index(h)] = ast.copy_location(ast.If(test=_copy(st.value.test), body=[variant(st.value.body)], orelse=[variant(st.value.orelse)]), h)
            body.remove(st)
            done += 1
    return done


def _plain_local_annotations(fn: ast.FunctionDef) -> int:
    """`x: T = v` on a local name inside a function is `x = v` (the annotation of a local is not evaluated)."""
    done = 0
    for body in _bodies(fn):
        for i, st in enumerate(body):
            if isinstance(st, ast.AnnAssign) and isinstance(st.target, ast.Name) and st.value is not None and st.simple:
                body[i] = ast.copy_location(ast.Assign(targets=[st.target], value=st.value), st)
                done += 1
    return done


def _update_calls_as_stores(fn: ast.FunctionDef) -> int:
    """`d.update({"a": x, "b": y})` (or of a local bound once to such a literal and used only there) is `d["a"] = x; d["b"] = y`
    when no value mentions d."""
    done = 0
    for body in _bodies(fn):
        pos = 0
        while pos < len(body):
            st = body[pos]
            if not (isinstance(st, ast.Expr) and isinstance(st.value, ast.Call) and isinstance(st.value.func, ast.Attribute) and st.value.func.attr == "update"
                    and isinstance(st.value.func.value, ast.Name) and len(st.value.args) == 1 and not st.value.keywords):
                pos += 1
                continue
            d = st.value.func.value.id
            arg = st.value.args[0]
            lit, drop = None, None
            if isinstance(arg, ast.Dict):
                lit = arg
            elif isinstance(arg, ast.Name):
                occ = [n for n in ast.walk(fn) if isinstance(n, ast.Name) and n.id == arg.id]
                defs = [b for b in body[:pos] if isinstance(b, ast.Assign) and len(b.targets) == 1 and isinstance(b.targets[0], ast.Name)
                        and b.targets[0].id == arg.id and isinstance(b.value, ast.Dict)]
                if len(occ) == 2 and len(defs) == 1 and not (_stored_names(body[body.index(defs[0]) + 1:pos]) & _loaded_names(defs[0].value)):
                    lit, drop = defs[0].value, defs[0]
            if lit is None or not lit.keys or any(k is None or not (isinstance(k, ast.Constant) and isinstance(k.value, str)) for k in lit.keys) \
                    or any(d in _loaded_names(v) for v in lit.values):
                pos += 1
                continue
            stores = [ast.copy_location(ast.Assign(targets=[ast.Subscript(value=ast.Name(id=d, ctx=ast.Load()), slice=ast.Constant(k.value), ctx=ast.Store())],
                                                   value=_copy(v)), st) for k, v in zip(lit.keys, lit.values)]
            body[pos:pos + 1] = stores
            if drop is not None:
                body.remove(drop)
                pos -= 1
            pos += len(stores)
            done += 1
    return done


def _element_aliases(fn: ast.FunctionDef) -> int:
    """`rec = table[i]` with rec bound once, only ever subscripted (`rec["f"]`, `rec["f"] = v`), and neither `table` nor `i` rebound
    while rec is in use: rec IS table[i] (an element view) - every `rec[...]` is `table[i][...]`."""
    done = 0
    for body in _bodies(fn):
        for st in list(body):
            if not (isinstance(st, ast.Assign) and len(st.targets) == 1 and isinstance(st.targets[0], ast.Name) and isinstance(st.value, ast.Subscript)
                    and isinstance(st.value.value, ast.Name) and isinstance(st.value.slice, (ast.Name, ast.Constant))):
                continue
            v = st.targets[0].id
            occ = [n for n in ast.walk(fn) if isinstance(n, ast.Name) and n.id == v]
            if sum(isinstance(n.ctx, ast.Store) for n in occ) != 1:
                continue
            uses = [n for n in ast.walk(fn) if isinstance(n, ast.Subscript) and isinstance(n.value, ast.Name) and n.value.id == v]
            if len(uses) + 1 != len(occ) or not uses or not any(isinstance(u.ctx, ast.Store) for u in uses):
                continue      # only element views that are written through (plain read temporaries are the expansion's business)
            later = body[body.index(st) + 1:]
            fixed = {st.value.value.id} | ({st.value.slice.id} if isinstance(st.value.slice, ast.Name) else set())
            if any(isinstance(n, ast.Name) and n.id in fixed and isinstance(n.ctx, (ast.Store, ast.Del)) for b in later for n in ast.walk(b)):
                continue
            if any(not any(u is n for b in later for n in ast.walk(b)) for u in uses):
                continue      # a use outside this block
            for u in uses:
                u.value = ast.Subscript(value=ast.Name(id=st.value.value.id, ctx=ast.Load()), slice=_copy(st.value.slice), ctx=ast.Load())
            body.remove(st)
            done += 1
    return done


def _fold_list_building(fn: ast.FunctionDef) -> int:
    """`L = [a]` directly followed by `L.append(b)` / `L.extend(xs)` (arguments not mentioning L) is `L = [a, b]` / `L = [a, *xs]`."""
    done = 0
    for body in _bodies(fn):
        pos = 0
        while pos + 1 < len(body):
            st, nx = body[pos], body[pos + 1]
            if (isinstance(st, ast.Assign) and len(st.targets) == 1 and isinstance(st.targets[0], ast.Name) and isinstance(st.value, ast.List)
                    and isinstance(nx, ast.Expr) and isinstance(nx.value, ast.Call) and isinstance(nx.value.func, ast.Attribute)
                    and isinstance(nx.value.func.value, ast.Name) and nx.value.func.value.id == st.targets[0].id
                    and nx.value.func.attr in ("append", "extend") and len(nx.value.args) == 1 and not nx.value.keywords
                    and st.targets[0].id not in _loaded_names(nx.value.args[0])):
                arg = nx.value.args[0]
                if nx.value.func.attr == "append":
                    st.value.elts.append(arg)
                else:
                    if isinstance(arg, ast.GeneratorExp):
                        arg = ast.copy_location(ast.ListComp(elt=arg.elt, generators=arg.generators), arg)
                    st.value.elts.append(ast.Starred(value=arg, ctx=ast.Load()))
                del body[pos + 1]
                done += 1
                continue
            pos += 1
    return done


def apply(tree: ast.Module, module: str = "") -> list[str]:
    """Dissolve transparent helpers of `tree` into their callers (in place). -> names inlined (one per call site)."""
    if _has_walrus(tree):
        for n in ast.walk(tree):
            if isinstance(n, ast.FunctionDef):
                n.body = _desugar_walrus(n.body)
        ast.fix_missing_locations(tree)
    if _namedtuples_as_tuples(tree):
        ast.fix_missing_locations(tree)
    inl = _Inliner(tree, module)
    inl.run()
    aliases = 0
    for n in ast.walk(tree):
        if isinstance(n, ast.FunctionDef):
            aliases += _coalesce_result_copies(n)
            aliases += _plain_local_annotations(n)
            aliases += _element_aliases(n)
            aliases += _fold_list_building(n)
            aliases += _update_calls_as_stores(n)
            aliases += _fold_dict_stores(n)
            aliases += _splat_literal_dicts(n)
            aliases += _iterator_temporaries(n)
            aliases += _conditional_callee(n)
            aliases += _propagate_self_aliases(n)
            aliases += _sugar_divmod(n)
            aliases += _fold_loop_target_copies(n)
            aliases += _index_form_for_mutated_elements(n)
            aliases += _search_loops(n)
            aliases += _append_loops_as_comprehensions(n)
            if any(isinstance(c, ast.Call) and _dotted(c.func) in ("itertools.count", "count") for c in ast.walk(n)):
                aliases += _desugar_count_zip(n)
    if aliases:
        ast.fix_missing_locations(tree)
    if inl.inlined:
        ast.fix_missing_locations(tree)
    return inl.inlined
