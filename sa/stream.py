"""Shared anchors: streaming loops over read_plan, writer handles, header updates."""
from __future__ import annotations

import ast

from .model import AnalysisError, FuncInfo, Program, body_walk, calls_in_body, dotted, norm, parent


class PlanLoop:
    """`for count, index, data in <obj>.read_plan(...)`."""

    def __init__(self, fn: FuncInfo, node: ast.For, call: ast.Call, wrapper: ast.Call | None):
        self.fn = fn
        self.node = node
        self.call = call
        self.wrapper = wrapper
        t = node.target
        if not (isinstance(t, ast.Tuple) and len(t.elts) == 3 and all(isinstance(e, ast.Name) for e in t.elts)):
            raise AnalysisError(f"{fn.ident}: read_plan loop target is not a 3-tuple of names (line {node.lineno})")
        self.count, self.index, self.data = (e.id for e in t.elts)

    def kw(self, name: str) -> ast.AST | None:
        for k in self.call.keywords:
            if k.arg == name:
                return k.value
        return None

    def contains(self, node: ast.AST) -> bool:
        cur = node
        while cur is not None:
            if cur is self.node:
                return True
            cur = parent(cur)
        return False

    def in_body(self, node: ast.AST) -> bool:
        cur = node
        prev = None
        while cur is not None:
            if cur is self.node:
                return prev is not None and any(prev is st for st in self.node.body)
            prev = cur
            cur = parent(cur)
        return False


def plan_loops(fn: FuncInfo) -> list[PlanLoop]:
    out = []
    for sub in body_walk(fn.node):
        if isinstance(sub, ast.For):
            it = sub.iter
            wrapper = None
            # allow track(self.read_plan(...)) style wrappers
            if isinstance(it, ast.Call) and not _is_read_plan(it) and it.args and isinstance(it.args[0], ast.Call) \
                    and _is_read_plan(it.args[0]):
                wrapper, it = it, it.args[0]
            if isinstance(it, ast.Call) and _is_read_plan(it):
                out.append(PlanLoop(fn, sub, it, wrapper))
    return out


def _is_read_plan(call: ast.Call) -> bool:
    return isinstance(call.func, ast.Attribute) and call.func.attr == "read_plan"


def all_plan_loops(prog: Program) -> list[PlanLoop]:
    out = []
    for f in prog.all_funcs():
        out += plan_loops(f)
    return out


class WriterHandle:
    """A local name bound to the FileWriter returned by prep_outfile (directly or via a container)."""

    def __init__(self, fn: FuncInfo, name: str, call: ast.Call, how: str, container: str | None = None):
        self.fn = fn
        self.name = name          # handle variable used for cwrite
        self.call = call          # the prep_outfile call
        self.how = how            # assign | with | list
        self.container = container


def prep_calls(fn: FuncInfo) -> list[ast.Call]:
    return [c for c in calls_in_body(fn.node) if isinstance(c.func, ast.Attribute) and c.func.attr == "prep_outfile"]


def writer_handles(fn: FuncInfo) -> list[WriterHandle]:
    out = []
    for call in prep_calls(fn):
        cur: ast.AST = call
        par = parent(cur)
        # stack.enter_context(prep_outfile(...)) wrapper
        if isinstance(par, ast.Call) and isinstance(par.func, ast.Attribute) and par.func.attr == "enter_context":
            cur, par = par, parent(par)
        if isinstance(par, ast.Assign) and len(par.targets) == 1 and isinstance(par.targets[0], ast.Name):
            out.append(WriterHandle(fn, par.targets[0].id, call, "assign"))
        elif isinstance(par, ast.withitem) and isinstance(par.optional_vars, ast.Name):
            out.append(WriterHandle(fn, par.optional_vars.id, call, "with"))
        elif isinstance(par, ast.ListComp):
            asg = parent(par)
            if isinstance(asg, ast.Assign) and isinstance(asg.targets[0], ast.Name):
                cont = asg.targets[0].id
                # handle names: loop variables iterating the container (`for i, h in enumerate(cont)` / `for h in cont`)
                names = []
                for sub in body_walk(fn.node):
                    if isinstance(sub, ast.For):
                        it = sub.iter
                        if isinstance(it, ast.Call) and dotted(it.func) == "enumerate" and it.args and dotted(it.args[0]) == cont:
                            if isinstance(sub.target, ast.Tuple) and isinstance(sub.target.elts[-1], ast.Name):
                                names.append(sub.target.elts[-1].id)
                        elif dotted(it) == cont and isinstance(sub.target, ast.Name):
                            names.append(sub.target.id)
                        else:
                            # zip(cont, ...) / enumerate(zip(cont, ...)): the target at the container's position
                            z, tg = it, sub.target
                            if isinstance(z, ast.Call) and dotted(z.func) == "enumerate" and z.args and isinstance(tg, ast.Tuple) and len(tg.elts) == 2:
                                z, tg = z.args[0], tg.elts[1]
                            if isinstance(z, ast.Call) and dotted(z.func) == "zip" and isinstance(tg, ast.Tuple):
                                for a_, t_ in zip(z.args, tg.elts):
                                    if dotted(a_) == cont and isinstance(t_, ast.Name):
                                        names.append(t_.id)
                for nm in names or [cont]:
                    out.append(WriterHandle(fn, nm, call, "list", cont))
            else:
                raise AnalysisError(f"{fn.ident}: prep_outfile result in an unrecognised comprehension")
        elif isinstance(par, ast.Return):
            out.append(WriterHandle(fn, "<returned>", call, "return"))
        else:
            raise AnalysisError(f"{fn.ident}: prep_outfile result used in an unrecognised way: {norm(par)[:80]}")
    return out


def cwrite_calls(fn: FuncInfo, handle: str | None = None) -> list[ast.Call]:
    out = []
    for c in calls_in_body(fn.node):
        if isinstance(c.func, ast.Attribute) and c.func.attr == "cwrite":
            if handle is None or dotted(c.func.value) == handle:
                out.append(c)
    return out


def dict_literal_keys(node: ast.AST) -> dict[str, ast.AST] | None:
    if isinstance(node, ast.Dict) and all(isinstance(k, ast.Constant) and isinstance(k.value, str) for k in node.keys):
        return {k.value: v for k, v in zip(node.keys, node.values)}
    return None


# ---------------------------------------------------------------------------
# the selected range length  L = (header.nsamples - start) if nsamps is None else nsamps
# ---------------------------------------------------------------------------
def _is_range_len(node: ast.IfExp, start: str = "start", nsamps: str = "nsamps") -> bool:
    from .poly import Poly, PolyEnv
    t = node.test
    if not (isinstance(t, ast.Compare) and len(t.ops) == 1 and isinstance(t.left, ast.Name) and t.left.id == nsamps
            and isinstance(t.comparators[0], ast.Constant) and t.comparators[0].value is None):
        return False
    if isinstance(t.ops[0], ast.Is):
        none_branch, val_branch = node.body, node.orelse
    elif isinstance(t.ops[0], ast.IsNot):
        none_branch, val_branch = node.orelse, node.body
    else:
        return False
    if not (isinstance(val_branch, ast.Name) and val_branch.id == nsamps):
        return False
    env = PolyEnv()
    return env.poly(none_branch) == Poly.sym("self.header.nsamples") - Poly.sym(start)


class _RangeLen(ast.NodeTransformer):
    def visit_IfExp(self, node: ast.IfExp):  # noqa: N802
        self.generic_visit(node)
        if _is_range_len(node):
            return ast.copy_location(ast.Name(id="RANGE_LEN", ctx=ast.Load()), node)
        return node


def with_range_len(expr: ast.AST) -> ast.AST:
    """Replace the canonical range-length conditional by the symbol RANGE_LEN (on an expanded copy)."""
    return ast.fix_missing_locations(_RangeLen().visit(expr))
