"""Inlining of trivial properties (`self.p` -> the single returned expression) on AST copies."""
from __future__ import annotations

import ast

from .dataflow import clone
from .model import ClassInfo, Program, body_walk, dotted


def property_expr(prog: Program, cls: ClassInfo, name: str) -> ast.AST | None:
    for c in prog.mro(cls):
        m = c.methods.get(name)
        if m is not None:
            if not m.is_property:
                return None
            stmts = [s for s in m.node.body if not (isinstance(s, ast.Expr) and isinstance(s.value, ast.Constant))]
            # a leading `if <no value available>: return None` guard does not change the value when there is one
            stmts = [s for s in stmts if not (isinstance(s, ast.If) and not s.orelse and len(s.body) == 1 and isinstance(s.body[0], ast.Return)
                                              and (s.body[0].value is None or (isinstance(s.body[0].value, ast.Constant) and s.body[0].value.value is None)))]
            if len(stmts) == 1 and isinstance(stmts[0], ast.Return) and stmts[0].value is not None:
                return stmts[0].value
            return None
    return None


def inline_props(prog: Program, cls: ClassInfo | None, expr: ast.AST, depth: int = 4) -> ast.AST:
    """Return a copy of expr with `self.<trivial property>` replaced by its expression (recursively)."""
    if cls is None:
        return clone(expr)

    class T(ast.NodeTransformer):
        def __init__(self, d):
            self.d = d

        def visit_Attribute(self, node: ast.Attribute):  # noqa: N802
            node = self.generic_visit(node)
            if isinstance(node.value, ast.Name) and node.value.id == "self" and self.d > 0:
                pe = property_expr(prog, cls, node.attr)
                if pe is not None:
                    return T(self.d - 1).visit(clone(pe))
            return node

    return ast.fix_missing_locations(T(depth).visit(clone(expr)))


def transparent_casts(kind, name, inner):
    """PolyEnv atom_hook: int()/float() casts are transparent for the algebra."""
    if kind == "cast":
        return inner
    return None
