"""C16 - RFI cleaning masks exactly the flagged channels and nothing else (structural clauses)."""
from __future__ import annotations

import ast

from .. import kernelspec
from ..dataflow import flow_of
from ..model import AnalysisError, Program, body_walk, calls_in_body, dotted, norm, parent
from ..report import Result, depends
from ..stream import cwrite_calls
from ..streamops import KMOD, StreamOp

TITLE = "RFI cleaning masks exactly the flagged channels and nothing else"
LEVEL = "other"
TECHNIQUE = ("static analysis: monotone-update discipline on the mask field, kernel-vs-reference comparison, call dominance, "
             "type-level writer/reader field agreement for the mask file")
EXPLANATION = (
    "Decides: (R1) every assignment to RFIMask.chan_mask is np.logical_or(self.chan_mask, <the component mask stored in the "
    "same method>), so masks only grow and the total is the union of user, statistics and custom masks; the user mask is "
    "the closed frequency-range test on chan_freqs, the statistics mask the OR of the variance/skewness/kurtosis outlier "
    "masks of the chosen method, and unknown methods raise; (R2) the mask kernel stores only the mask value, only under "
    "mask[c], only in column c (reference definition); (R3) apply_channel_mask runs the kernel on each block before writing "
    "that same block, with a boolean mask and the value cast to the file dtype, and clean_rfi forwards the final chan_mask "
    "and the same (gulp, start, nsamps) to both passes; (R4) every Header field is either of a type that to_file stores "
    "generically or is stored and reloaded explicitly by name, and all arrays and the threshold are stored and reloaded. "
    "Not decided: which channels the statistics flag (numeric). "
    "Since F43-F45: clean_rfi runs its statistics pass on every call over the range it cleans (R3); every component mask is OR-ed into, like chan_mask (R1); the strided lag window of iqrm_mask uses the strides of the array it views (R1)."
    " Since F59 / wave 6: to_file's type filter accepts the numpy scalar form of every generically stored header field (R4); the lags compared by iqrm_mask are exactly -radius..-1 and 1..radius as a set of integer intervals affine in radius (R1); no optional numeric parameter (mask_value, start) is used for its truth value (R3)."
)
RFI = "sigpyproc.core.rfi"
BASE = "sigpyproc.base"
HEADER = "sigpyproc.header"
FIELD_EXCEPTIONS = {"stream_info": "per-file bookkeeping of the input files, not observational metadata"}


def _affine(e: ast.AST):
    """(c0, c1) with e = c0 + c1 * radius, or None."""
    if isinstance(e, ast.Constant) and isinstance(e.value, int) and not isinstance(e.value, bool):
        return (e.value, 0)
    if isinstance(e, ast.Name) and e.id == "radius":
        return (0, 1)
    if isinstance(e, ast.UnaryOp) and isinstance(e.op, ast.USub):
        a = _affine(e.operand)
        return None if a is None else (-a[0], -a[1])
    if isinstance(e, ast.BinOp) and isinstance(e.op, (ast.Add, ast.Sub)):
        a, b = _affine(e.left), _affine(e.right)
        if a is None or b is None:
            return None
        sg = 1 if isinstance(e.op, ast.Add) else -1
        return (a[0] + sg * b[0], a[1] + sg * b[1])
    if isinstance(e, ast.BinOp) and isinstance(e.op, ast.Mult):
        a, b = _affine(e.left), _affine(e.right)
        if a is None or b is None:
            return None
        if a[1] == 0:
            return (a[0] * b[0], a[0] * b[1])
        if b[1] == 0:
            return (a[0] * b[0], a[1] * b[0])
    return None


def _lag_intervals(e: ast.AST):
    """A list of half-open integer intervals (lo, hi), bounds affine in radius >= 1, denoted by an index-set expression:
    np.arange(a, b), np.concatenate([...]) / np.hstack / np.r_[...], X + k, X[X != k].  None when the expression is none of these."""
    if isinstance(e, ast.Call) and dotted(e.func) in ("np.arange", "range") and 1 <= len(e.args) <= 2 and not any(k.arg in ("step",) for k in e.keywords):
        lo = _affine(e.args[0]) if len(e.args) == 2 else (0, 0)
        hi = _affine(e.args[-1])
        return None if lo is None or hi is None else [(lo, hi)]
    if isinstance(e, ast.Call) and dotted(e.func) in ("np.concatenate", "np.hstack") and e.args and isinstance(e.args[0], (ast.List, ast.Tuple)):
        out = []
        for x in e.args[0].elts:
            iv = _lag_intervals(x)
            if iv is None:
                return None
            out += iv
        return out
    if isinstance(e, ast.Subscript) and dotted(e.value) == "np.r_":
        out = []
        for x in (e.slice.elts if isinstance(e.slice, ast.Tuple) else [e.slice]):
            if isinstance(x, ast.Slice) and x.step is None and x.upper is not None:
                lo = _affine(x.lower) if x.lower is not None else (0, 0)
                hi = _affine(x.upper)
                if lo is None or hi is None:
                    return None
                out.append((lo, hi))
            else:
                iv = _lag_intervals(x)
                if iv is None:
                    return None
                out += iv
        return out
    if isinstance(e, ast.BinOp) and isinstance(e.op, (ast.Add, ast.Sub)):
        iv, k = _lag_intervals(e.left), _affine(e.right)
        if iv is None and isinstance(e.op, ast.Add):
            iv, k = _lag_intervals(e.right), _affine(e.left)
        if iv is None or k is None:
            return None
        sg = 1 if isinstance(e.op, ast.Add) else -1
        return [((lo[0] + sg * k[0], lo[1] + sg * k[1]), (hi[0] + sg * k[0], hi[1] + sg * k[1])) for lo, hi in iv]
    if isinstance(e, ast.Subscript) and isinstance(e.slice, ast.Compare) and len(e.slice.ops) == 1 and isinstance(e.slice.ops[0], ast.NotEq) \
            and norm(e.slice.left) == norm(e.value):
        iv, k = _lag_intervals(e.value), _affine(e.slice.comparators[0])
        if iv is None or k is None:
            return None
        out = []
        for lo, hi in iv:
            # the point k is inside [lo, hi) for every radius >= 1 iff lo <= k < hi at radius = 1 and the bounds move apart
            inside = all(lo[0] + lo[1] * r <= k[0] + k[1] * r < hi[0] + hi[1] * r for r in (1, 2, 7))
            outside = all(not (lo[0] + lo[1] * r <= k[0] + k[1] * r < hi[0] + hi[1] * r) for r in (1, 2, 7))
            if inside:
                out += [(lo, k), ((k[0] + 1, k[1]), hi)]
            elif outside:
                out.append((lo, hi))
            else:
                return None
        return [(a, b) for a, b in out if a != b]
    return None


def _show_intervals(ivs) -> str:
    def t(c):
        return f"{c[1]}*radius{c[0]:+d}".replace("1*radius", "radius").replace("0*radius", "").replace("+0", "") or "0"
    return ", ".join(f"[{t(lo)}, {t(hi)})" for lo, hi in sorted(ivs or []))


def run(prog: Program, res: Result, tier: str) -> None:
    prog.consulted.update({RFI, BASE, HEADER, KMOD})
    cls = prog.cls(RFI, "RFIMask")
    # ---- R1 monotone union ------------------------------------------------------------------
    from ..normalform import canon, normal_form
    n1 = 0
    for m in cls.methods.values():
        if not any(isinstance(s, ast.Assign) and any(dotted(t) == "self.chan_mask" for t in (s.targets[0].elts if isinstance(s.targets[0], ast.Tuple) else s.targets))
                   for s in body_walk(m.node)):
            continue
        nfm = normal_form(m)
        for e in nfm.sets("self.chan_mask"):
            n1 += 1
            key = f"union:{m.name}"
            pre = "np.logical_or(self.chan_mask, "
            ok = e.text().startswith(pre) and e.text().endswith(")")
            comp = e.text()[len(pre):-1] if ok else ""
            # the component must be the mask this method records, on the same path
            stored = [o for o in nfm.effects if o.kind == "set" and o.target.startswith("self.") and o.target != "self.chan_mask" and set(o.ctx) == set(e.ctx)]
            comp_ok = ok and any(comp in (o.target, o.text()) for o in stored)
            if ok and comp_ok:
                res.ok("R1", m, m.node, f"chan_mask |= {comp[:60]} (the component mask this method stores)", key=key, construct=f"{m.name}: chan_mask")
            else:
                res.bad("R1", m, m.node, f"chan_mask is assigned `{e.text()[:120]}`: not np.logical_or(self.chan_mask, <component stored here>) - a later "
                        f"mask could clear channels or diverge from its recorded component", key=key, construct=f"{m.name}: chan_mask")
    res.notes.append(f"assignments to RFIMask.chan_mask: {n1} (3 methods confirmed by hand; enforced through the R1 floor)")
    am = cls.methods["apply_mask"]
    nfa = normal_form(am)
    zeros = {canon(f"np.zeros(self.header.nchans, dtype={d})") for d in ("'bool'", "bool", "np.bool_")}
    acc = [e for e in nfa.effects if e.kind == "set" and e.target.startswith("$") and e.text() in zeros]
    ok = len(acc) == 1
    if ok:
        v = acc[0].target
        F, L = "self.header.chan_freqs", "L<in freq_mask>"
        lo_, hi_ = f"cmp[LtE]({L}[0], {F})", f"cmp[LtE]({F}, {L}[1])"
        # the two comparisons are boolean arrays: logical_and and & agree on them (and | with the boolean accumulator)
        inr = {f"np.logical_and({lo_}, {hi_})", f"np.logical_and({hi_}, {lo_})", f"BitAnd({lo_}, {hi_})", f"BitAnd({hi_}, {lo_})"}
        ups = [e for e in nfa.effects if e.kind == "set" and e.target == v and e is not acc[0]]
        # every range takes part: the update is not skipped under any condition (a quick reject written in terms of the band edges
        # is wrong for one orientation of the band)
        ok = len(ups) == 1 and not any(c.startswith(("if ", "ifnot ")) for c in ups[0].ctx) and \
            ups[0].text() in {f"{o}({v}, {r})" for r in inr for o in ("np.logical_or", "BitOr")} | \
            {f"{o}({r}, {v})" for r in inr for o in ("np.logical_or", "BitOr")} and \
            [e.text() for e in nfa.sets("self.user_mask")] in ([f"np.logical_or(self.user_mask, {v})"], [f"np.logical_or({v}, self.user_mask)"],
                                                               [f"BitOr(self.user_mask, {v})"], [f"BitOr({v}, self.user_mask)"])
    (res.ok if ok else res.bad)("R1", am, am.node, "the union over ranges of (lo <= chan_freqs <= hi), built from all-False, is OR-ed into the stored user mask "
                                "(the component only ever gains channels, like chan_mask)" if ok else
                                "apply_mask no longer ORs the closed-range union (built from an all-False mask) into the stored user mask: a second "
                                "application replaces the first, and chan_mask is no longer the union of its components", construct="apply_mask", key="apply_mask")
    ap = cls.methods["apply_method"]
    nfp = normal_form(ap)
    sm = nfp.sets("self.stats_mask")
    ok = len(sm) == 2
    for e in sm:
        fnm = "double_mad_mask" if nfp.selects(e, "method", "mad") else "iqrm_mask" if nfp.selects(e, "method", "iqrm") else None
        if fnm is None:
            ok = False
            continue
        parts = ", ".join(f"{fnm}(self.{c}, self.threshold)" for c in ("chan_var", "chan_skew", "chan_kurt"))
        ok = ok and e.text() in (f"np.logical_or.reduce((self.stats_mask, {parts}))", f"np.logical_or.reduce([self.stats_mask, {parts}])",
                                 f"np.logical_or(self.stats_mask, np.logical_or.reduce(({parts})))")
    ok = ok and any(e.excludes("method", "mad", "iqrm") for e in nfp.raises())
    (res.ok if ok else res.bad)("R1", ap, ap.node, "stored stats mask |= var | skew | kurtosis outliers of the chosen method at self.threshold" if ok else
                                "apply_method no longer ORs the variance, skewness and kurtosis masks of the chosen method into the stored stats mask", construct="apply_method", key="apply_method")
    f = prog.func(RFI, "double_mad_mask")
    nfd = normal_form(f)
    ok = [e.text() for e in nfd.returns()] == ["cmp[Lt](threshold, np.abs(stats.estimate_zscore(array, scale_method='doublemad').data))"] and \
        any(e.under("threshold <= 0") for e in nfd.raises())
    (res.ok if ok else res.bad)("R1", f, f.node, "double_mad_mask: |z| > threshold (strict), threshold must be positive" if ok else
                                "double_mad_mask: thresholding of the z-scores changed", construct="double_mad_mask", key="double_mad_mask")
    f = prog.func(RFI, "iqrm_mask")
    nfq = normal_form(f)
    accq = [e for e in nfq.effects if e.kind == "set" and e.target.startswith("$") and e.text() in
            {canon(f"np.zeros_like(array, dtype={d})") for d in ("'bool'", "bool", "np.bool_")}]
    ok = len(accq) == 1 and any(e.under("threshold <= 0") for e in nfq.raises())
    if ok:
        v = accq[0].target
        ups = [e for e in nfq.effects if e.kind == "set" and e.target == v and e is not accq[0]]
        ok = len(ups) == 1 and any(ups[0].text().startswith(f"{o}({v}, cmp[Lt](threshold, np.abs(stats.estimate_zscore(L<in ") for o in ("np.logical_or", "BitOr")) and \
            ups[0].text().endswith(">, scale_method='iqr').data)))") and [e.text() for e in nfq.returns()] == [v]
    (res.ok if ok else res.bad)("R1", f, f.node, "iqrm_mask: |z| > threshold (strict), threshold must be positive" if ok else
                                "iqrm_mask: thresholding of the z-scores changed", construct="iqrm_mask", key="iqrm_mask")
    # the strided window view of iqrm_mask walks the array it is given: its strides are that array's own (F44)
    views = [c for c in calls_in_body(f.node) if (dotted(c.func) or "").endswith("as_strided")]
    okv = bool(views)
    flq = flow_of(f)
    for c in views:
        st_ = next((k.value for k in c.keywords if k.arg == "strides"), c.args[2] if len(c.args) > 2 else None)
        base_ = canon(flq.expand(c.args[0], flq.cfg.node_for(c))) if c.args else "?"
        got_ = canon(flq.expand(st_, flq.cfg.node_for(c))) if st_ is not None else "?"
        okv = okv and got_ in (canon(f"({base_}).strides * 2"), canon(f"({base_}).strides + ({base_}).strides"), canon(f"(({base_}).strides[0], ({base_}).strides[0])"))
    (res.ok if okv else res.bad)("R1", f, views[0] if views else f.node, "the lag window is a strided view with the strides of the padded copy it walks" if okv else
                                 "iqrm_mask: as_strided is given strides that are not those of the array it views (a non-contiguous statistics vector then "
                                 "gives a wrong mask and out-of-bounds reads)", construct="as_strided", key="iqrm_mask:strides")
    # the lags compared are every offset -radius..-1 and 1..radius, once: as a set of integer intervals with bounds affine in
    # `radius` (np.arange / concatenate / r_ / a `!= 0` filter), whatever the spelling
    def _stmt_of(n_):
        while n_ is not None and not isinstance(n_, ast.stmt):
            n_ = parent(n_)
        return n_
    lag_uses = []
    for n_ in ast.walk(f.node):
        if isinstance(n_, ast.Subscript) and isinstance(n_.slice, ast.Tuple) and len(n_.slice.elts) == 2 and isinstance(n_.ctx, ast.Load) \
                and isinstance(n_.slice.elts[0], ast.Slice) and not isinstance(n_.slice.elts[1], ast.Slice):
            col_ = flq.expand(n_.slice.elts[1], flq.cfg.node_for(_stmt_of(n_)))
            if "radius" in norm(col_):
                lag_uses.append((n_, col_))
    okl, whyl = False, "the window of neighbours is no longer selected as `view[:, lags + radius]`"
    if len(lag_uses) == 1:
        col = lag_uses[0][1]
        lag_uses = [lag_uses[0][0]]
        ivs = _lag_intervals(col)
        want_iv = sorted([((0, 0), (0, 1)), ((1, 1), (1, 2))])     # columns [0, radius) and [radius + 1, 2 radius + 1)
        okl = ivs is not None and sorted(ivs) == want_iv
        whyl = (f"the lags selected are columns {_show_intervals(ivs)} of the padded window, not [0, radius) and [radius+1, 2*radius+1): "
                "a neighbour at distance radius (or the channel itself) is compared wrongly" if ivs is not None else
                f"the set of lags `{norm(col)[:100]}` is not an arange / concatenate / filter expression in radius")
    (res.ok if okl else res.bad)("R1", f, (lag_uses[0] if not isinstance(lag_uses[0], tuple) else lag_uses[0][0]) if lag_uses else f.node, "every lag -radius..-1 and 1..radius is compared, once" if okl else f"iqrm_mask: {whyl}",
                                 construct="lags", key="iqrm_mask:lags")
    # the custom component is monotone too
    cf = cls.methods["apply_funcn"]
    nfc_ = normal_form(cf)
    okc = [e.text() for e in nfc_.sets("self.custom_mask")] in (["np.logical_or(self.custom_mask, custom_funcn(self.chan_mask))"],
                                                                ["BitOr(self.custom_mask, custom_funcn(self.chan_mask))"])
    (res.ok if okc else res.bad)("R1", cf, cf.node, "stored custom mask |= custom_funcn(chan_mask)" if okc else
                                 "apply_funcn replaces the stored custom mask instead of OR-ing into it", construct="apply_funcn", key="apply_funcn")
    from .c15 import check_doublemad_symmetry
    scratch = Result("C15", prog)
    check_doublemad_symmetry(prog, scratch, "R5")
    for o in scratch.obligations:
        res.add("R1", None, None, o.ok, f"[{o.rule}] (method 'mad' thresholds double-MAD z-scores) {o.detail}", construct=o.construct,
                key=f"{o.rule}:{o.key}", where=o.where)
        res.obligations[-1].file, res.obligations[-1].line = o.file, o.line
    dfl = {m.name: m for m in cls.methods.values() if m.name.startswith("_set_")}
    ok = all([e.text() for e in normal_form(m).returns()] in ([z] for z in zeros) for m in dfl.values()) and len(dfl) == 4
    (res.ok if ok else res.bad)("R1", None, cls.node, "all four masks start as all-False of length nchans" if ok else
                                "a mask no longer defaults to all-False", construct="defaults", key="defaults", where=f"{RFI}::RFIMask")

    # ---- R2 kernel -------------------------------------------------------------------------------
    fn = prog.func(KMOD, "mask_channels")
    verdict, why = kernelspec.compare(fn)
    if verdict == "incomparable":
        raise AnalysisError(f"kernel mask_channels cannot be compared with its reference definition: {why[0]}")
    (res.ok if verdict == "same" else res.bad)("R2", fn, fn.node, ("; ".join(why))[:500], construct="mask_channels", key="mask_channels")

    # ---- R3 apply_channel_mask / clean_rfi ----------------------------------------------------------
    op = StreamOp(prog, prog.func(BASE, "Filterbank.apply_channel_mask"))
    f = op.fn
    if len(op.loops) != 1:
        raise AnalysisError("apply_channel_mask: expected one read_plan loop")
    lp = op.loops[0]
    kcs = [(c, k) for c, k in op.kernel_calls(lp) if k.name == "mask_channels"]
    if len(kcs) != 1:
        raise AnalysisError("apply_channel_mask: expected one mask_channels call in the loop")
    call, k = kcs[0]
    op.check_roles(res, "R3", lp, call, k, {"array": "data", "nchans": "nchans", "nsamps": "count"})
    b = prog.bind_args(call, k)
    from ..normalform import argument
    km = prog.bind_args(call, k)
    mask_x = canon(op.flow.expand(km["mask"], op.cfg.node_for(call))) if "mask" in km else None
    ok = mask_x in (canon("np.array(chan_mask).astype('bool')"), canon("np.array(chan_mask).astype(bool)"), canon("np.asarray(chan_mask).astype(bool)"),
                    canon("np.asarray(chan_mask, dtype=bool)"), canon("np.array(chan_mask, dtype=bool)"))
    (res.ok if ok else res.bad)("R3", f, call, "the kernel receives the caller's channel mask as booleans" if ok else
                                f"the mask given to the kernel is `{mask_x}`, not np.array(chan_mask).astype(bool)", key="acm:mask")
    val_x = canon(op.flow.expand(km["maskvalue"], op.cfg.node_for(call))) if "maskvalue" in km else None
    import re as _re0
    ok = val_x is not None and _re0.sub(r"@\d+", "", val_x) == canon("np.float32(mask_value).astype(self.header.dtype)")
    (res.ok if ok else res.bad)("R3", f, call, "the mask value is cast to the file's sample type" if ok else
                                f"the mask value `{val_x}` is not cast to header.dtype before use", key="acm:value")
    cws = [c for c in cwrite_calls(f) if lp.in_body(c)]
    ok = len(cws) == 1 and norm(cws[0].args[0]) == lp.data and op.cfg.must_pass(op.cfg.node_for(lp.node), op.cfg.node_for(cws[0]), {op.cfg.node_for(call)})
    (res.ok if ok else res.bad)("R3", f, cws[0] if cws else f.node, "each block is written after, and only after, the kernel masked it in place" if ok else
                                "the block written is not the block the kernel just masked", key="acm:order", construct="cwrite order")
    cr = prog.func(BASE, "Filterbank.clean_rfi")
    nfr = normal_form(cr)
    same_range = "gulp=gulp, start=start, nsamps=nsamps, **plan_kwargs"
    built = [e for e in nfr.effects if e.kind == "set" and e.target.startswith("$") and e.text() == canon(
        "RFIMask(threshold, self.header, self.chan_stats.mean, self.chan_stats.var, self.chan_stats.skew, self.chan_stats.kurtosis, "
        "self.chan_stats.maxima, self.chan_stats.minima)")]
    M = built[0].target if len(built) == 1 else "?"
    um, sm_, cm = nfr.calls(f"{M}.apply_mask"), nfr.calls(f"{M}.apply_method"), nfr.calls(f"{M}.apply_funcn")
    median = f"np.median(self.chan_stats.mean[~{M}.chan_mask])"
    rets = nfr.returns()

    def written(e) -> bool:
        import re as _re
        m_ = _re.fullmatch(_re.escape(f"(self.apply_channel_mask({M}.chan_mask, ") + r"(?P<v>.+?), " +
                           _re.escape(canon(f"f({same_range}, outfile_name=outfile_name)")[2:] + f", {M})"), e.text())
        if m_ is None:
            return False
        v = m_.group("v")
        return v == median if e.under("mask_value is None") or any(c.startswith("if cmp[Is]($v") for c in e.ctx) else (v.startswith("$v") or v == "mask_value")

    checks = [
        ("statistics pass uses the same (gulp, start, nsamps)", [e.text() for e in nfr.calls("self.compute_stats")] == [canon(f"self.compute_stats({same_range})")]),
        ("the statistics are computed on every call, for the range that is cleaned (statistics cached by an earlier call may be of another range, or the two-moment kind)",
         len(built) == 1 and len(nfr.calls("self.compute_stats")) == 1 and set(nfr.calls("self.compute_stats")[0].ctx) <= set(built[0].ctx)
         and nfr.before(nfr.calls("self.compute_stats")[0], built[0])),
        ("mask built from mean, var, skew, kurtosis, maxima, minima of this file", len(built) == 1),
        ("user mask, then statistics mask, then custom mask are applied (each optional one only when given)",
         len(um) == 1 and len(sm_) == 1 and len(cm) == 1 and um[0].text() == f"{M}.apply_mask(freq_mask)" and um[0].under("freq_mask is not None") and
         sm_[0].text() == f"{M}.apply_method(method)" and set(sm_[0].ctx) == set(built[0].ctx) and cm[0].text() == f"{M}.apply_funcn(custom_funcn)" and
         cm[0].under("custom_funcn is not None") and nfr.before(um[0], sm_[0]) and nfr.before(sm_[0], cm[0])),
        ("the file is written with the final chan_mask over the same (gulp, start, nsamps)", bool(rets) and all(written(e) for e in rets) and
         all(nfr.before(cm[0], e) for e in rets) if cm else False),
        ("default mask value = median of the unmasked channel means", any(median in e.text() for e in rets)),
        ("the mask returned is the one that was applied", bool(rets) and all(e.text().endswith(f", {M})") for e in rets)),
        ("unknown method raises before any work", any(e.ctx == (" ".join(__import__("sa.normalform", fromlist=["cond"]).cond("method not in {'mad', 'iqrm'}")),)
                                                    for e in nfr.raises())),
    ]
    for what, ok in checks:
        (res.ok if ok else res.bad)("R3", cr, cr.node, what if ok else f"clean_rfi no longer satisfies: {what}", construct=what, key=f"clean:{what[:40]}")

    # ---- R4 mask file -------------------------------------------------------------------------------------
    tf, ff = cls.methods["to_file"], cls.methods["from_file"]
    hdr = prog.cls(HEADER, "Header")
    isin = [c for c in calls_in_body(tf.node) if dotted(c.func) == "isinstance" and len(c.args) == 2]
    stored_types = set()
    for c in isin:
        t = c.args[1]
        parts = []
        def flat(x):
            if isinstance(x, ast.BinOp) and isinstance(x.op, ast.BitOr):
                flat(x.left); flat(x.right)
            elif isinstance(x, ast.Tuple):
                for e in x.elts:
                    flat(e)
            else:
                parts.append(norm(x))
        flat(t)
        stored_types |= set(parts)
    generic = {"int": {"int", "np.integer"}, "float": {"float", "np.floating"}, "str": {"str"}, "bool": {"int", "bool", "np.integer"}}
    # a Header rebuilt by from_file holds what h5py hands back - numpy scalars: the filter has to accept those too, or a
    # mask that was loaded, saved and loaded again loses the field (F59).  Unless from_file converts them (.item()).
    numpy_form = {"int": {"np.integer", "np.generic"}, "float": {"np.floating", "np.generic", "np.number"}, "str": {"str", "np.str_", "np.generic"},
                  "bool": {"np.bool_", "np.bool", "np.generic"}}
    converts = ".item()" in norm(ff.node) or ".tolist()" in norm(ff.node)
    tsrc, fsrc = norm(tf.node), norm(ff.node)
    hdr_loop = "for key, value in attrs.asdict(self.header).items():" in tsrc and "fp.attrs[key] = value" in tsrc
    (res.ok if hdr_loop else res.bad)("R4", tf, tf.node, "header fields of generic types are stored as HDF5 attributes by name" if hdr_loop else
                                      "to_file no longer stores the header fields as attributes", construct="to_file header", key="file:header-loop")
    for name in hdr.attrs_fields:
        ann = norm(hdr.fields[name].annotation)
        key = f"file:field:{name}"
        if name in FIELD_EXCEPTIONS:
            res.ok("R4", tf, hdr.fields[name], f"named exception: {FIELD_EXCEPTIONS[name]}", key=key)
            continue
        if ann in generic and generic[ann] & stored_types:
            if converts or numpy_form[ann] & stored_types:
                res.ok("R4", tf, hdr.fields[name], f"Header.{name}: {ann} is stored generically (as a Python value and as the numpy scalar a loaded header holds)", key=key)
            else:
                res.bad("R4", tf, hdr.fields[name], f"Header.{name}: a header loaded by from_file holds this {ann} field as a numpy scalar, which to_file's isinstance filter "
                        f"({sorted(stored_types)}) skips: a mask that is loaded, saved and loaded again has the default {name}", key=key)
            continue
        # explicit: some attribute derived from self.header.<name> is written, and from_file rebuilds hdr_checked[<name>]
        w_ok = f"self.header.{name}" in tsrc
        r_ok = f"hdr_checked['{name}'] =" in fsrc
        if w_ok and r_ok:
            res.ok("R4", tf, hdr.fields[name], f"Header.{name}: {ann} is stored and rebuilt explicitly", key=key)
        else:
            res.bad("R4", tf, hdr.fields[name], f"Header.{name} has type {ann}, which to_file's isinstance filter ({sorted(stored_types)}) skips, and it is "
                    f"not stored/reloaded explicitly: a mask loaded from file has the default {name}", key=key)
    # what from_file hands to the constructor, by keyword (a keyword mapping built in a local has been expanded by the pre-pass)
    ctor_ff = [c for c in calls_in_body(ff.node) if dotted(c.func) == "cls"]
    ctor_kw = {k.arg: norm(k.value) for c in ctor_ff for k in c.keywords}
    ok = "fp.attrs['threshold'] = self.threshold" in tsrc and ("'threshold': fp_attrs['threshold']" in fsrc or ctor_kw.get("threshold") == "fp_attrs['threshold']")
    (res.ok if ok else res.bad)("R4", tf, tf.node, "threshold is stored and reloaded" if ok else "threshold is not stored/reloaded", construct="threshold", key="file:threshold")
    ok = "for key, value in attrs.asdict(self).items():" in tsrc and "if isinstance(value, np.ndarray): fp.create_dataset(key, data=value)" in tsrc and \
        "fp_stats = {key: np.array(val) for key, val in fp.items()}" in fsrc and ("**fp_stats" in fsrc or ctor_kw.get(None) == "fp_stats")
    arr_fields = [n for n in cls.attrs_fields if norm(cls.fields[n].annotation) == "np.ndarray"]
    (res.ok if ok and len(arr_fields) == 10 else res.bad)("R4", tf, tf.node, f"all {len(arr_fields)} array fields are stored as datasets by field name and passed back by name"
                                                          if ok else "array fields are no longer stored/reloaded by field name", construct="arrays", key="file:arrays")
    ok = "if key in attrs.fields_dict(Header)" in fsrc and ("'header': Header(**hdr_checked)" in fsrc or ctor_kw.get("header") == "Header(**hdr_checked)")
    (res.ok if ok else res.bad)("R4", ff, ff.node, "the header is rebuilt from the stored attributes that are Header fields" if ok else
                                "from_file no longer rebuilds the Header from the stored attributes", construct="from_file header", key="file:rebuild")
    # ---- R1 (cont.) the z-scores the masks threshold (shared with C15.R1) ----------------------------------------------
    depends(res, "R1", prog, tier, "C15", accept=lambda o: (o.key or "").startswith(("zscore:", "estimator:")),
            why="both mask methods threshold estimate_zscore(...).data: C15's rules for that function are re-evaluated here")
    from ..lints import check_no_falsy_zero
    check_no_falsy_zero(prog, res, "R3", ["sigpyproc.base", RFI], "mask_value = 0 (or start = 0) would be treated as not given")
    res.floor("R1", 13)
    res.floor("R2", 1)
    res.floor("R3", 13)
    res.floor("R4", 28)


RF = "sigpyproc/core/rfi.py"
B = "sigpyproc/base.py"
MUTANTS = [
    {"id": "c16-revert-F44", "file": "sigpyproc/core/rfi.py", "expect": "C16.R1",
     "old": "        strides=padded.strides * 2,\n", "new": "        strides=array.strides * 2,\n"},
    {"id": "c16-revert-F45-user", "file": "sigpyproc/core/rfi.py", "expect": "C16.R1",
     "old": "        self.user_mask = np.logical_or(self.user_mask, user_mask)\n", "new": "        self.user_mask = user_mask\n"},
    {"id": "c16-revert-F45-custom", "file": "sigpyproc/core/rfi.py", "expect": "C16.R1",
     "old": "        self.custom_mask = np.logical_or(self.custom_mask, custom_funcn(self.chan_mask))\n", "new": "        self.custom_mask = custom_funcn(self.chan_mask)\n"},
    {"id": "c16-revert-F45-stats", "file": "sigpyproc/core/rfi.py", "expect": "C16.R1",
     "old": "            (self.stats_mask, mask_var, mask_skew, mask_kurtosis),\n", "new": "            (mask_var, mask_skew, mask_kurtosis),\n"},
    {"id": "c16-mask-replaced", "file": RF, "expect": "C16.R1",
     "old": "        self.chan_mask = np.logical_or(self.chan_mask, self.stats_mask)", "new": "        self.chan_mask = self.stats_mask"},
    {"id": "c16-mask-and", "file": RF, "expect": "C16.R1",
     "old": "        self.chan_mask = np.logical_or(self.chan_mask, self.user_mask)", "new": "        self.chan_mask = np.logical_and(self.chan_mask, self.user_mask)"},
    {"id": "c16-custom-or-other", "file": RF, "expect": "C16.R1",
     "old": "        self.chan_mask = np.logical_or(self.chan_mask, self.custom_mask)", "new": "        self.chan_mask = np.logical_or(self.chan_mask, self.user_mask)"},
    {"id": "c16-range-open", "file": RF, "expect": "C16.R1",
     "old": "                self.header.chan_freqs <= freq_range[1],", "new": "                self.header.chan_freqs < freq_range[1],"},
    {"id": "c16-stats-drop-kurt", "file": RF, "expect": "C16.R1",
     "old": "            (self.stats_mask, mask_var, mask_skew, mask_kurtosis),\n", "new": "            (self.stats_mask, mask_var, mask_skew),\n"},
    {"id": "c16-threshold-ge", "file": RF, "expect": "C16.R1",
     "old": "    return np.abs(zscore.data) > threshold", "new": "    return np.abs(zscore.data) >= threshold"},
    {"id": "c16-kernel-neighbour", "file": "sigpyproc/core/kernels.py", "expect": "C16.R2",
     "old": "                array[nchans * isamp + ichan] = maskvalue", "new": "                array[nchans * isamp + ichan - 0 * isamp + 0] = maskvalue\n                array[nchans * isamp + min(ichan + 1, nchans - 1)] = maskvalue"},
    {"id": "c16-clean-wrong-mask", "file": B, "expect": "C16.R3",
     "old": "        out_file = self.apply_channel_mask(\n            rfimask.chan_mask,", "new": "        out_file = self.apply_channel_mask(\n            rfimask.stats_mask,"},
    {"id": "c16-clean-stats-whole-file", "file": B, "expect": "C16.R3",
     "old": "        self.compute_stats(gulp=gulp, start=start, nsamps=nsamps, **plan_kwargs)", "new": "        self.compute_stats(gulp=gulp, **plan_kwargs)"},
    {"id": "c16-revert-F43", "file": "sigpyproc/base.py", "expect": "C16.R3",
     "old": "        self.compute_stats(gulp=gulp, start=start, nsamps=nsamps, **plan_kwargs)\n\n        if not isinstance",
     "new": "        if self.chan_stats is None:\n            self.compute_stats(gulp=gulp, start=start, nsamps=nsamps, **plan_kwargs)\n\n        if not isinstance"},
    {"id": "c16-mask-not-bool", "file": B, "expect": "C16.R3",
     "old": "        mask = np.array(chan_mask).astype(\"bool\")", "new": "        mask = np.array(chan_mask)"},
    {"id": "c16-revert-F20", "file": RF, "expect": "C16.R4",
     "old": "            fp.attrs[\"coord_ra_deg\"] = self.header.coord.ra.deg\n            fp.attrs[\"coord_dec_deg\"] = self.header.coord.dec.deg\n", "new": ""},
    {"id": "c16-zenith-not-reloaded", "file": RF, "expect": "C16.R4",
     "old": "            hdr_checked[\"zenith\"] = Angle(fp_attrs[\"zenith_deg\"], unit=\"deg\")\n", "new": ""},
    {"id": "c16-threshold-not-stored", "file": RF, "expect": "C16.R4",
     "old": "            fp.attrs[\"threshold\"] = self.threshold\n", "new": ""},
]
MUTANTS += [
    {"id": "c16-revert-F59", "file": "sigpyproc/core/rfi.py", "expect": "C16.R4",
     "old": "                    np.integer | np.floating | np.bool_ | int | float | str,\n", "new": "                    np.integer | np.floating | int | float | str,\n"},
]
MUTANTS += [
    {"id": "c16-iqrm-lags-half-open", "file": "sigpyproc/core/rfi.py", "expect": "C16.R1",
     "old": "    lags = np.concatenate([np.arange(-radius, 0), np.arange(1, radius + 1)])", "new": "    lags = np.arange(-radius, radius)\n    lags = lags[lags != 0]"},
]
MUTANTS += [
    {"id": "c16-apply-mask-edge-reject", "file": "sigpyproc/core/rfi.py", "expect": "C16.R1",
     "old": "        for freq_range in freq_mask:\n", "new": "        for freq_range in freq_mask:\n            if freq_range[0] > self.header.ftop or freq_range[1] < self.header.fbottom:\n                continue\n"},
]
TWINS = [
    {"id": "c16-twin-iqrm-lags-filter", "file": "sigpyproc/core/rfi.py",
     "old": "    lags = np.concatenate([np.arange(-radius, 0), np.arange(1, radius + 1)])", "new": "    lags = np.arange(-radius, radius + 1)\n    lags = lags[lags != 0]"},
]
