"""C06 - streaming reductions are independent of gulp size (structural clauses)."""
from __future__ import annotations

import ast

from .. import kernelspec
from ..dataflow import flow_of
from ..model import AnalysisError, FuncInfo, Program, body_walk, calls_in_body, dotted, norm, parent
from ..poly import Poly, PolyEnv
from ..report import Result, depends
from ..streamops import KMOD, StreamOp

TITLE = "Streaming reductions are independent of gulp size and equal their definitions"
LEVEL = "other"
TECHNIQUE = ("static analysis: kernel-vs-reference comparison modulo polynomial normal form, overlap-save offset algebra, "
             "accumulator discipline, range-length dataflow")
EXPLANATION = (
    "For collapse, bandpass, dedisperse, read_chan and compute_stats(_basic) the check decides, from the source: (R1) every "
    "value that sizes the result, fills header nsamples or normalises a statistic equals the selected range length "
    "L = (header.nsamples-start if nsamps is None else nsamps), minus the plan's skipback where the definition says so; "
    "(R2) each block's output offset is block_index*(gulp-skipback) for the very gulp/skipback handed to read_plan and the "
    "kernel's maxdelay is that skipback; (R3) buffers that a kernel updates with += start from np.zeros and the bandpass "
    "divisor is the running sum of yielded counts; (R4) the kernels extract_tim, extract_bpass, dedisperse and the online "
    "moment kernels equal their reference definitions on the time-major layout modulo renaming and polynomial normal form; "
    "(R5) kernel dimension parameters receive (header.nchans, yielded count, this block); (R6) the read plan these loops consume "
    "satisfies C01's rules (re-evaluated here, including the multi-file stream rules of C02). Together these make the result "
    "a function of the range only, not of the gulp. Not decided: float32 summation values and the read_plan integer lattice. "
    "Since F38, R2 also requires that no negative delay reaches the dedispersion kernel."
)
BASE = "sigpyproc.base"
STATS = "sigpyproc.core.stats"


def run(prog: Program, res: Result, tier: str) -> None:
    prog.consulted.update({BASE, KMOD, STATS})
    # ---- R4 kernels equal their definitions ---------------------------------------------
    for name in ("extract_tim", "extract_bpass", "dedisperse", "compute_online_moments", "compute_online_moments_basic"):
        fn = prog.func(KMOD, name)
        verdict, why = kernelspec.compare(fn)
        if verdict == "incomparable":
            raise AnalysisError(f"kernel {name} cannot be compared with its reference definition: {why[0]}")
        (res.ok if verdict == "same" else res.bad)(
            "R4", fn, fn.node, ("; ".join(why))[:600], construct=name, key=name)

    L = Poly.sym("RANGE_LEN")

    # ---- collapse ------------------------------------------------------------------------
    _kernel_reduction(prog, res, "collapse", "extract_tim",
                      {"inarray": "data", "nchans": "nchans", "nsamps": "count", "index": "index"}, "outarray", L)
    # ---- dedisperse ----------------------------------------------------------------------
    _kernel_reduction(prog, res, "dedisperse", "dedisperse",
                      {"inarray": "data", "nchans": "nchans", "nsamps": "count", "index": "index", "maxdelay": "maxdelay"},
                      "outarray", L, minus_skipback=True)
    # ---- bandpass ------------------------------------------------------------------------
    op = StreamOp(prog, prog.func(BASE, "Filterbank.bandpass"))
    fn = op.fn
    if len(op.loops) != 1:
        raise AnalysisError("bandpass: expected one read_plan loop")
    lp = op.loops[0]
    kcs = [(c, k) for c, k in op.kernel_calls(lp) if k.name == "extract_bpass"]
    if len(kcs) != 1:
        raise AnalysisError("bandpass: expected one extract_bpass call in the loop")
    call, k = kcs[0]
    op.check_roles(res, "R5", lp, call, k, {"inarray": "data", "nchans": "nchans", "nsamps": "count"})
    op.check_accumulators(res, "R3", lp, call, k, consumed_in_loop=False)
    out = prog.bind_args(call, k).get("outarray")
    alloc = op.allocation(out.id, call) if isinstance(out, ast.Name) else None
    key = "bandpass:size"
    if alloc is not None and alloc.args and op.poly(alloc.args[0], alloc) == Poly.sym("self.header.nchans"):
        res.ok("R1", fn, alloc, "bandpass accumulator has one entry per channel", key=key)
    else:
        res.bad("R1", fn, call, "bandpass accumulator is not sized by header.nchans", key=key)
    # divisor: running sum of yielded counts, applied once after the loop
    divs = [s for s in body_walk(fn.node) if isinstance(s, ast.AugAssign) and isinstance(s.op, ast.Div)
            and isinstance(out, ast.Name) and dotted(s.target) == out.id]
    key = "bandpass:divisor"
    okdiv = False
    if len(divs) == 1 and isinstance(divs[0].value, ast.Name) and not lp.contains(divs[0]):
        dname = divs[0].value.id
        ds = op.flow.reaching(dname, op.cfg.node_for(divs[0]))
        inits = [d for d in ds if d.kind == "assign" and isinstance(d.value, ast.Constant) and d.value.value == 0]

        def adds_count(d) -> bool:
            """`n += count` or `n = n + count` (either operand order) inside the loop"""
            if not lp.in_body(d.stmt):
                return False
            if d.kind == "aug":
                return isinstance(d.stmt.op, ast.Add) and norm(d.value) == lp.count
            return d.kind == "assign" and d.value is not None and PolyEnv().poly(d.value) == Poly.sym(dname) + Poly.sym(lp.count)

        augs = [d for d in ds if adds_count(d)]
        okdiv = len(inits) == 1 and len(augs) == 1 and len(ds) == 2 and \
            op.cfg.dominates(op.cfg.node_for(lp.node), op.cfg.node_for(divs[0]))
    if okdiv:
        res.ok("R3", fn, divs[0], "bandpass is divided once, after the loop, by the running sum of yielded sample counts", key=key)
    else:
        res.bad("R3", fn, divs[0] if divs else fn.node, "the bandpass sum is not divided (once, after the loop) by the number of "
                "samples actually accumulated", key=key, construct="bandpass divisor")

    # ---- read_chan -----------------------------------------------------------------------------
    op = StreamOp(prog, prog.func(BASE, "Filterbank.read_chan"))
    fn = op.fn
    if len(op.loops) != 1:
        raise AnalysisError("read_chan: expected one read_plan loop")
    lp = op.loops[0]
    G, S, stride = op.stride(lp)
    g = op.gulp_name(lp)
    stores = [s for s in body_walk(fn.node) if isinstance(s, ast.Assign) and lp.in_body(s) and isinstance(s.targets[0], ast.Subscript)]
    key = "read_chan:store"
    if len(stores) != 1 or not isinstance(stores[0].targets[0].slice, ast.Slice):
        res.bad("R2", fn, lp.node, "read_chan does not store one slice per block", key=key)
    else:
        st = stores[0]
        tgt = st.targets[0]
        lo = op.poly(tgt.slice.lower, st, stop={g, lp.index}) if tgt.slice.lower is not None else Poly.const(0)
        hi = op.poly(tgt.slice.upper, st, stop={g, lp.index, lp.count}) if tgt.slice.upper is not None else None
        want_lo = Poly.sym(lp.index) * stride
        ok_hi = hi is not None and hi in (want_lo + G, want_lo + Poly.sym(lp.count))
        if lo == want_lo and ok_hi and S.is_zero():
            res.ok("R2", fn, st, f"block {lp.index} lands at [{want_lo.canon()}, +block) of the output", key=key)
        else:
            res.bad("R2", fn, st, f"block output slice is [{lo.canon()} : {hi.canon() if hi is not None else ''}], expected to "
                    f"start at {want_lo.canon()} and span one block", key=key)
        # the column taken: data.reshape(count, nchans)[:, ichan]
        v = op.flow.expand(st.value, op.cfg.node_for(st))
        want = f"{lp.data}.reshape({lp.count}, self.header.nchans)[:, ichan]"
        key2 = "read_chan:column"
        if norm(v) == want:
            res.ok("R4", fn, st, "stored values are column `ichan` of the block viewed as (samples, channels)", key=key2)
        else:
            res.bad("R4", fn, st, f"stored values are `{norm(v)}`, expected `{want}`", key=key2)
        arr = dotted(tgt.value)
        alloc = op.allocation(arr, st) if arr else None
        _size_rule(res, op, fn, "read_chan", alloc, L)
        _returned_with_header(res, op, fn, "read_chan", arr, L)

    # ---- compute_stats / compute_stats_basic ---------------------------------------------------------
    for name, mode in (("compute_stats", "full"), ("compute_stats_basic", "basic")):
        op = StreamOp(prog, prog.func(BASE, f"Filterbank.{name}"))
        fn = op.fn
        if len(op.loops) != 1:
            raise AnalysisError(f"{name}: expected one read_plan loop")
        lp = op.loops[0]
        ctor = [c for c in calls_in_body(fn.node) if dotted(c.func) == "ChannelStats"]
        key = f"{name}:normaliser"
        if len(ctor) != 1 or len(ctor[0].args) < 2:
            res.bad("R1", fn, fn.node, "ChannelStats is not constructed with (nchans, nsamps)", construct=name, key=key)
        else:
            p0 = op.poly(ctor[0].args[0], ctor[0])
            p1 = op.poly(ctor[0].args[1], ctor[0])
            if p0 == Poly.sym("self.header.nchans") and p1 == L:
                res.ok("R1", fn, ctor[0], "statistics are normalised by the selected range length", key=key)
            else:
                res.bad("R1", fn, ctor[0], f"ChannelStats normaliser is `{norm(ctor[0].args[1])}` = {p1.canon()}, expected the "
                        f"selected range length (header.nsamples-start if nsamps is None else nsamps): variance/skew/kurtosis "
                        f"of a sub-range are scaled by the wrong count", key=key)
    check_push_data(prog, res, "R5")
    res.assumptions += ["read_plan delivers the selected range exactly once in blocks of at most gulp samples (C01)",
                        "sample values are integer-valued so that float32 sums are exact (property's own quantifier)"]
    # ---- R2 (cont.) no negative delay reaches the dedispersion kernel (shared with C09.R3; F38) ----------------------------
    from ..lints import check_delay_sign
    check_delay_sign(prog, res, "R2", only={"dedisperse"})
    # ---- R6 the plan the reductions consume (shared with C01) ----------------------------------------------------
    depends(res, "R6", prog, tier, "C01", why="the blocks these loops consume come from read_plan: the plan rules of C01 (and, through them, the multi-file stream rules of C02) are re-evaluated here")
    res.floor("R6", 40)
    res.floor("R1", 5)
    res.floor("R2", 3)
    res.floor("R3", 3)
    res.floor("R4", 6)
    res.floor("R5", 13)


def check_push_data(prog: Program, res, rule: str) -> None:
    """Chunked feeding of the accumulator: each block and its index are pushed once; push_data forwards the index as the
    first-chunk flag to the kernel of the chosen mode (shared with C10.R3)."""
    for name, mode in (("compute_stats", "full"), ("compute_stats_basic", "basic")):
        op = StreamOp(prog, prog.func(BASE, f"Filterbank.{name}"))
        fn = op.fn
        if len(op.loops) != 1:
            raise AnalysisError(f"{name}: expected one read_plan loop")
        lp = op.loops[0]
        pushes = [c for c in calls_in_body(fn.node) if isinstance(c.func, ast.Attribute) and c.func.attr == "push_data" and lp.in_body(c)]
        key = f"{name}:push"
        if len(pushes) != 1:
            res.bad(rule, fn, lp.node, "expected one push_data per block", key=key)
        else:
            c = pushes[0]
            md = [k.value for k in c.keywords if k.arg == "mode"] + c.args[2:3]
            def is_mode(e) -> bool:
                if isinstance(e, ast.Constant):
                    return e.value == mode
                # a keyword parameter of this method whose default is the mode of this entry point
                if isinstance(e, ast.Name) and e.id in fn.params:
                    a_ = fn.node.args
                    names = [x.arg for x in (*a_.posonlyargs, *a_.args)]
                    dflt = dict(zip(reversed(names), reversed(a_.defaults)))
                    dflt.update({k.arg: d for k, d in zip(a_.kwonlyargs, a_.kw_defaults) if d is not None})
                    d = dflt.get(e.id)
                    stored = any(isinstance(n, ast.Name) and n.id == e.id and isinstance(n.ctx, ast.Store) for n in ast.walk(fn.node))
                    return isinstance(d, ast.Constant) and d.value == mode and not stored
                return False

            okp = len(c.args) >= 2 and norm(c.args[0]) == lp.data and norm(c.args[1]) == lp.index and bool(md) and is_mode(md[0])
            if okp:
                res.ok(rule, fn, c, f"each block and its index are pushed once (mode={mode}); block 0 initialises min/max", key=key)
            else:
                res.bad(rule, fn, c, f"push_data does not receive (this block, block index, mode={mode!r}): min/max are initialised from the "
                        f"first sample exactly when the index is 0", key=key)
    pd = prog.func(STATS, "ChannelStats.push_data")
    want = {"compute_online_moments_basic": "basic", "compute_online_moments": "full"}
    seen = set()
    for c in calls_in_body(pd.node):
        d = dotted(c.func) or ""
        nm = d.split(".")[-1]
        if nm in want:
            seen.add(nm)
            k = prog.func(KMOD, nm)
            b = prog.bind_args(c, k)
            ok = norm(b.get("array", ast.Constant(None))) == "array" and norm(b.get("moments", ast.Constant(None))) == "self._moments" \
                and norm(b.get("startflag", ast.Constant(None))) == "start_index"
            from ..pathcond import path_conditions
            pc = path_conditions(flow_of(pd))

            def mode_is(value: str, truth: bool):
                def pred(e, pol):
                    if not (isinstance(e, ast.Compare) and len(e.ops) == 1):
                        return False
                    l, r = e.left, e.comparators[0]
                    names = {norm(l), norm(r)}
                    if names != {"mode", repr(value)}:
                        return False
                    return (isinstance(e.ops[0], ast.Eq) and pol == truth) or (isinstance(e.ops[0], ast.NotEq) and pol != truth)
                return pred

            if nm == "compute_online_moments_basic":
                okbr = pc.truth(c, mode_is("basic", True)) is not None
            else:
                okbr = pc.truth(c, mode_is("basic", False)) is not None or pc.truth(c, mode_is("full", True)) is not None
            key = f"push_data:{nm}"
            if ok and okbr:
                res.ok(rule, pd, c, f"{nm}(array, self._moments, startflag=start_index) on the {want[nm]} branch", key=key)
            else:
                res.bad(rule, pd, c, f"push_data does not forward (array, moments, start_index) to {nm} on the {want[nm]} branch: without the index every "
                        f"chunk re-seeds min/max", key=key)
    if seen != set(want):
        raise AnalysisError("push_data no longer calls both moment kernels")


def _size_rule(res, op: StreamOp, fn: FuncInfo, tag: str, alloc: ast.Call | None, want: Poly) -> None:
    key = f"{tag}:size"
    if alloc is None or not alloc.args:
        res.bad("R1", fn, fn.node, "the output array is not allocated by a single np.zeros/np.empty call", construct=tag, key=key)
        return
    p = op.poly(alloc.args[0], alloc)
    if p == want:
        res.ok("R1", fn, alloc, f"output length = {want.canon()} (RANGE_LEN = selected range)", key=key)
    else:
        res.bad("R1", fn, alloc, f"output array has length `{norm(alloc.args[0])}` = {p.canon()}, expected {want.canon()} "
                f"(RANGE_LEN = header.nsamples-start if nsamps is None else nsamps): for a sub-range the result has the wrong "
                f"length / an uninitialised tail", key=key)


def _returned_with_header(res, op: StreamOp, fn: FuncInfo, tag: str, arr: str | None, want: Poly) -> None:
    """The container is built from the accumulated array (header nsamples is C08's business)."""
    rets = [s for s in body_walk(fn.node) if isinstance(s, ast.Return) and isinstance(s.value, ast.Call)]
    key = f"{tag}:return"
    ok = any(s.value.args and norm(s.value.args[0]) == arr for s in rets)
    if ok:
        res.ok("R2", fn, rets[0], f"the result container wraps the accumulated array '{arr}'", key=key)
    else:
        res.bad("R2", fn, fn.node, f"the function does not return a container built from '{arr}'", construct=tag, key=key)


def _kernel_reduction(prog: Program, res, fname: str, kname: str, roles: dict[str, str], outparam: str, L: Poly,
                      minus_skipback: bool = False) -> None:
    op = StreamOp(prog, prog.func(BASE, f"Filterbank.{fname}"))
    fn = op.fn
    if len(op.loops) != 1:
        raise AnalysisError(f"{fname}: expected one read_plan loop")
    lp = op.loops[0]
    kcs = [(c, k) for c, k in op.kernel_calls(lp) if k.name == kname]
    if len(kcs) != 1:
        raise AnalysisError(f"{fname}: expected one kernels.{kname} call in the loop")
    call, k = kcs[0]
    op.check_roles(res, "R5", lp, call, k, {p: r for p, r in roles.items() if r in ("data", "count", "nchans")})
    # overlap-save roles under R2
    op.check_roles(res, "R2", lp, call, k, {p: r for p, r in roles.items() if r in ("index", "maxdelay")})
    op.check_accumulators(res, "R3", lp, call, k, consumed_in_loop=False)
    G, S, stride = op.stride(lp)
    out = prog.bind_args(call, k).get(outparam)
    arr = out.id if isinstance(out, ast.Name) else None
    alloc = op.allocation(arr, call) if arr else None
    want = L - S if minus_skipback else L
    _size_rule(res, op, fn, fname, alloc, want)
    if alloc is not None and dotted(alloc.func) not in ("np.zeros",) and not any(a.aug for a in []):
        pass
    # plain-store kernels must still cover every element: np.zeros or np.empty both fine; += kernels handled by R3
    _returned_with_header(res, op, fn, fname, arr, want)


B = "sigpyproc/base.py"
K = "sigpyproc/core/kernels.py"
S = "sigpyproc/core/stats.py"
MUTANTS = [
    {"id": "c06-revert-F38", "file": "sigpyproc/base.py", "expect": "C06.R2",
     "old": "        chan_delays = self.header.get_dmdelays(dm)\n        # Channels that lead the reference (ascending band, negative DM) have\n        # negative delays: count them from the earliest channel instead\n        min_delay = min(0, int(chan_delays.min()))\n        chan_delays = chan_delays - min_delay\n        max_delay = int(chan_delays.max())\n        gulp = max(2 * max_delay, gulp)\n        nsamps_range = ", "new": "        chan_delays = self.header.get_dmdelays(dm)\n        min_delay = 0\n        max_delay = int(chan_delays.max())\n        gulp = max(2 * max_delay, gulp)\n        nsamps_range = "},
    {"id": "c06-bpass-local-accumulator-overwrites", "file": K, "expect": "C06.R4",
     "old": "    for ichan in prange(nchans):\n        for isamp in range(nsamps):\n            outarray[ichan] += inarray[nchans * isamp + ichan]",
     "new": "    for ichan in prange(nchans):\n        chan_sum = 0.0\n        for isamp in range(nsamps):\n            chan_sum += inarray[nchans * isamp + ichan]\n        outarray[ichan] = chan_sum"},
    {"id": "c06-dedisp-offset-gulp", "file": B, "expect": "C06.R2",
     "old": "                nsamps_r,\n                ii * (gulp - max_delay),\n            )\n        return TimeSeries(", "new": "                nsamps_r,\n                ii * gulp,\n            )\n        return TimeSeries("},
    {"id": "c06-dedisp-empty", "file": B, "expect": "C06.R3",
     "old": "        tim_ar = np.zeros(tim_len, dtype=np.float32)\n        for nsamps_r, ii, data in self.read_plan(\n            gulp=gulp,\n            start=start,\n            nsamps=nsamps,\n            skipback=max_delay,",
     "new": "        tim_ar = np.empty(tim_len, dtype=np.float32)\n        for nsamps_r, ii, data in self.read_plan(\n            gulp=gulp,\n            start=start,\n            nsamps=nsamps,\n            skipback=max_delay,"},
    {"id": "c06-bpass-index-transposed", "file": K, "expect": "C06.R4",
     "old": "            outarray[ichan] += inarray[nchans * isamp + ichan]", "new": "            outarray[ichan] += inarray[nsamps * ichan + isamp]"},
    {"id": "c06-bpass-divisor-gulp", "file": B, "expect": "C06.R3",
     "old": "            num_samples += nsamps_r\n", "new": "            num_samples += gulp\n"},
    {"id": "c06-collapse-swap-dims", "file": B, "expect": "C06.R5",
     "old": "kernels.extract_tim(data, tim_ar, self.header.nchans, nsamps_r, ii * gulp)", "new": "kernels.extract_tim(data, tim_ar, nsamps_r, self.header.nchans, ii * gulp)"},
    {"id": "c06-dedisp-sign", "file": K, "expect": "C06.R4",
     "old": "            outarray[index + isamp] += inarray[nchans * (isamp + delays[ichan]) + ichan]", "new": "            outarray[index + isamp] += inarray[nchans * (isamp - delays[ichan]) + ichan]"},
    {"id": "c06-dedisp-range-full", "file": K, "expect": "C06.R4",
     "old": "    for isamp in prange(nsamps - maxdelay):\n        for ichan in range(nchans):\n            outarray[index + isamp] +=", "new": "    for isamp in prange(nsamps - maxdelay + 1):\n        for ichan in range(nchans):\n            outarray[index + isamp] +="},
    {"id": "c06-tim-partial-sum", "file": K, "expect": "C06.R4",
     "old": "outarray[index + isamp] = np.sum(inarray[nchans * isamp : nchans * (isamp + 1)])", "new": "outarray[index + isamp] = np.sum(inarray[nchans * isamp : nchans * (isamp + 1) - 1])"},
    {"id": "c06-stats-startflag-zero", "file": S, "expect": "C06.R5",
     "old": "            kernels.compute_online_moments(array, self._moments, start_index)", "new": "            kernels.compute_online_moments(array, self._moments, 0)"},
    {"id": "c06-stats-push-constant-index", "file": B, "expect": "C06.R5",
     "old": "            bag.push_data(data, ii, mode=\"full\")", "new": "            bag.push_data(data, 1, mode=\"full\")"},
    {"id": "c06-moments-minmax-in-loop", "file": K, "expect": "C06.R4",
     "old": "    if startflag == 0:\n        for ichan in range(nchans):\n            moments[ichan][\"min\"] = array[ichan]\n            moments[ichan][\"max\"] = array[ichan]\n\n    for ichan in prange(nchans):\n        m1, m2 = moments",
     "new": "    if startflag >= 0:\n        for ichan in range(nchans):\n            moments[ichan][\"min\"] = array[ichan]\n            moments[ichan][\"max\"] = array[ichan]\n\n    for ichan in prange(nchans):\n        m1, m2 = moments"},
    {"id": "c06-readchan-offset", "file": B, "expect": "C06.R2",
     "old": "            tim_ar[ii * gulp : (ii + 1) * gulp] = data_2d[:, ichan]", "new": "            tim_ar[ii * nsamps_r : (ii + 1) * nsamps_r] = data_2d[:, ichan]"},
    {"id": "c06-readchan-reshape-swapped", "file": B, "expect": "C06.R4",
     "old": "            data_2d = data.reshape(nsamps_r, self.header.nchans)\n            tim_ar[ii * gulp", "new": "            data_2d = data.reshape(self.header.nchans, nsamps_r).T\n            tim_ar[ii * gulp"},
    {"id": "c06-dedisp-skipback-off", "file": B, "expect": "C06.R",
     "old": "            skipback=max_delay,\n            **plan_kwargs,\n        ):\n            kernels.dedisperse(", "new": "            skipback=max_delay - 1,\n            **plan_kwargs,\n        ):\n            kernels.dedisperse("},
]
MUTANTS += [
    {"id": "c06-revert-F04", "file": B, "expect": "C06.R1",
     "old": "        tim_len = nsamps_range - max_delay\n", "new": "        tim_len = self.header.nsamples - max_delay\n"},
    {"id": "c06-revert-F05", "file": B, "expect": "C06.R1",
     "old": "        tim_ar = np.empty(tim_len, dtype=np.float32)\n", "new": "        tim_ar = np.empty(self.header.nsamples, dtype=np.float32)\n"},
    {"id": "c06-stats-norm-gulp", "file": B, "expect": "C06.R1",
     "old": "        bag = ChannelStats(self.header.nchans, nsamps_range)\n        for _, ii, data in self.read_plan(\n            gulp=gulp,\n            start=start,\n            nsamps=nsamps,\n            **plan_kwargs,\n        ):\n            bag.push_data(data, ii, mode=\"full\")",
     "new": "        bag = ChannelStats(self.header.nchans, self.header.nsamples)\n        for _, ii, data in self.read_plan(\n            gulp=gulp,\n            start=start,\n            nsamps=nsamps,\n            **plan_kwargs,\n        ):\n            bag.push_data(data, ii, mode=\"full\")"},
    {"id": "c06-collapse-len-plus1", "file": B, "expect": "C06.R1",
     "old": "        tim_len = (self.header.nsamples - start) if nsamps is None else nsamps\n        tim_ar = np.zeros(tim_len, dtype=np.float32)",
     "new": "        tim_len = (self.header.nsamples - start) if nsamps is None else nsamps + 1\n        tim_ar = np.zeros(tim_len, dtype=np.float32)"},
]
TWINS = [
    {"id": "c06-twin-bpass-local-accumulator", "file": K,
     "old": "    for ichan in prange(nchans):\n        for isamp in range(nsamps):\n            outarray[ichan] += inarray[nchans * isamp + ichan]",
     "new": "    for ichan in prange(nchans):\n        chan_sum = 0.0\n        for isamp in range(nsamps):\n            chan_sum += inarray[nchans * isamp + ichan]\n        outarray[ichan] += chan_sum"},
    {"id": "c06-twin-offset-temp", "file": B,
     "old": "            kernels.extract_tim(data, tim_ar, self.header.nchans, nsamps_r, ii * gulp)",
     "new": "            offset = gulp * ii\n            kernels.extract_tim(data, tim_ar, self.header.nchans, nsamps_r, offset)"},
    {"id": "c06-twin-kernel-rename", "file": K,
     "old": "    for ichan in prange(nchans):\n        for isamp in range(nsamps):\n            outarray[ichan] += inarray[nchans * isamp + ichan]",
     "new": "    for chan in prange(nchans):\n        for t in range(nsamps):\n            pos = t * nchans + chan\n            outarray[chan] += inarray[pos]"},
    {"id": "c06-twin-dedisp-distribute", "file": K,
     "old": "            outarray[index + isamp] += inarray[nchans * (isamp + delays[ichan]) + ichan]",
     "new": "            outarray[isamp + index] += inarray[nchans * isamp + nchans * delays[ichan] + ichan]"},
]
