"""C10 - online channel statistics do not depend on chunking or merging (exact-arithmetic monoid proof)."""
from __future__ import annotations

import ast

from .. import kernelspec
from ..model import AnalysisError, Program, body_walk, calls_in_body, dotted, norm, parent
from ..moments import FIELDS, run_merge, run_update, sym_state
from ..poly import Poly, Rat
from ..report import Result

TITLE = "Online channel statistics do not depend on how the stream is chunked or merged"
LEVEL = "proof"
TECHNIQUE = ("static analysis: the moment recurrences are read from the source as rational functions and compared in canonical "
             "polynomial form (value numbering with algebraic identities); structural rules for count/min/max and guarded divisions")
EXPLANATION = (
    "In exact arithmetic (float rounding is the property's own tolerance) the accumulator is a commutative monoid "
    "homomorphism: (R1) update_moments equals add_online_moments specialised to a singleton right operand, and "
    "update_moments_basic is its (count, m1, m2) projection, as identities of rational functions read from the source in "
    "statement order; (R2) add_online_moments is associative, commutative and has the empty accumulator as identity - so "
    "any partition into consecutive chunks and any merge split give the same (count, m1..m4); (R3) the count grows by "
    "exactly one per sample, min/max are updated per sample and merged with np.minimum/np.maximum, the first chunk "
    "initialises min/max from sample 0 of each channel before the parallel loop, and ChannelStats.__add__ merges the two "
    "moment arrays into a fresh accumulator whose sample count is the sum; (R4) variance, skewness and kurtosis are the "
    "textbook functions of the sums with the divisions guarded by m2 != 0 into zero-filled outputs, so constant channels "
    "give 0 and nothing is NaN or infinite. Quick runs associativity up to the third moment; thorough adds the fourth "
    "(5.4k-term numerator). Not decided: the magnitude of float32 accumulation error. "
    "Since F42/F50: third and higher powers of a count are taken in floating point in the merge kernel (R2), and an operand with count 0 does not take part in the merged extremes (R3)."
    ' Since F60: the derived statistics equal the textbook forms as canonical expressions and raise a stored float32 moment to a power only after converting it to float64 (R4); a product of counts is never materialised as an integer array of its own (R2).'
)
K = "sigpyproc.core.kernels"
STATS = "sigpyproc.core.stats"


def _eq(res, rule, fn, node, name, lhs: Rat, rhs: Rat, what: str) -> None:
    ok = lhs.equals(rhs)
    if ok:
        res.ok(rule, fn, node, f"{what}: identity holds for {name}", construct=f"{what}:{name}", key=f"{what}:{name}")
    else:
        diff = (lhs.n * rhs.d - rhs.n * lhs.d)
        res.bad(rule, fn, node, f"{what}: {name} differs; numerator of the difference has {len(diff.t)} term(s), e.g. {diff.canon()[:160]}",
                construct=f"{what}:{name}", key=f"{what}:{name}")


def run(prog: Program, res: Result, tier: str) -> None:
    prog.consulted.update({K, STATS, "sigpyproc.base"})
    upd = prog.func(K, "update_moments")
    updb = prog.func(K, "update_moments_basic")
    mrg = prog.func(K, "add_online_moments")
    a = sym_state("a")
    x = Rat.sym("x")
    single = {"count": Rat.const(1), "m1": x, "m2": Rat.const(0), "m3": Rat.const(0), "m4": Rat.const(0)}
    # ---- R1 ----------------------------------------------------------------------------------
    try:
        u = run_update(upd, {upd.params[0]: x, **{p: a[f] for p, f in zip(upd.params[1:], ("m1", "m2", "m3", "m4", "count"))}})
        ub = run_update(updb, {updb.params[0]: x, **{p: a[f] for p, f in zip(updb.params[1:], ("m1", "m2", "count"))}})
        m, other = run_merge(mrg, a, single)
    except AnalysisError as exc:
        raise AnalysisError(f"moment recurrences not interpretable: {exc}") from exc
    if len(u) != 5 or len(ub) != 3:
        raise AnalysisError("update_moments must return (m1, m2, m3, m4, n) and update_moments_basic (m1, m2, n)")
    for nm, val in zip(("m1", "m2", "m3", "m4", "count"), u):
        _eq(res, "R1", upd, upd.node, nm, val, m[nm], "update_moments == merge(acc, singleton)")
    for nm, val in zip(("m1", "m2", "count"), ub):
        _eq(res, "R1", updb, updb.node, nm, val, m[nm], "update_moments_basic == projection of merge(acc, singleton)")
    # count +1 exactly
    _eq(res, "R3", upd, upd.node, "count+1", u[4], a["count"] + Rat.const(1), "each sample increases the count by one")
    _eq(res, "R3", updb, updb.node, "count+1", ub[2], a["count"] + Rat.const(1), "each sample increases the count by one (basic)")

    # ---- R2 monoid laws -------------------------------------------------------------------------
    b, c = sym_state("b"), sym_state("c")
    ab, _ = run_merge(mrg, a, b)
    ba, _ = run_merge(mrg, b, a)
    for f in FIELDS:
        _eq(res, "R2", mrg, mrg.node, f, ab[f], ba[f], "commutativity merge(a,b) == merge(b,a)")
    zero = {f: Rat.const(0) for f in FIELDS}
    for side, args, what in (("right", (a, zero), "right identity merge(a, empty) == a"), ("left", (zero, a), "left identity merge(empty, a) == a")):
        try:
            r_, _ = run_merge(mrg, *args)
        except AnalysisError as exc:
            for f in FIELDS:
                res.bad("R2", mrg, mrg.node, f"{what}: merging with the empty accumulator is undefined ({exc})", construct=f"{what}:{f}", key=f"{what}:{f}")
            continue
        for f in FIELDS:
            _eq(res, "R2", mrg, mrg.node, f, r_[f], a[f], what)
    abc1, _ = run_merge(mrg, ab, c)
    bc, _ = run_merge(mrg, b, c)
    abc2, _ = run_merge(mrg, a, bc)
    fields = FIELDS if tier == "thorough" else FIELDS[:4]
    for f in fields:
        _eq(res, "R2", mrg, mrg.node, f, abc1[f], abc2[f], "associativity merge(merge(a,b),c) == merge(a,merge(b,c))")
    if tier != "thorough":
        res.notes.append("associativity of m4 (5402-term numerator, ~8 s) is checked in the thorough tier; "
                         "m4's merge formula is still pinned by R1 and commutativity/identity in quick")
    # min/max combiners
    key = "merge:minmax"
    def guarded_extreme(txt: str | None, fld: str, comb: str) -> bool:
        """np.where(a.count == 0, b.X, np.where(b.count == 0, a.X, comb(a.X, b.X))): an operand that has seen no sample holds a
        placeholder 0, which is not an extreme of anything (F50)."""
        if txt is None:
            return False
        try:
            e = ast.parse(txt, mode="eval").body
        except SyntaxError:
            return False

        def where(e_):
            return e_.args if isinstance(e_, ast.Call) and dotted(e_.func) == "np.where" and len(e_.args) == 3 else None
        w1 = where(e)
        if w1 is None:
            return False
        w2 = where(w1[2])
        if w2 is None:
            return False
        first = {norm(w1[0]): norm(w1[1]), norm(w2[0]): norm(w2[1])}
        want = {"a['count'] == 0": f"b['{fld}']", "b['count'] == 0": f"a['{fld}']"}
        both = norm(w2[2]) in (f"{comb}(a['{fld}'], b['{fld}'])", f"{comb}(b['{fld}'], a['{fld}'])")
        return first == want and both
    def guarded_extreme_cases(txt: str | None, fld: str, comb: str) -> bool:
        """The same requirement decided case by case: whatever nest of np.where over `a.count == 0` / `!= 0` / `b.count ...` is
        written, for (a empty, b empty) in the four combinations the selected value must be b.X / a.X for one empty side, comb(a.X, b.X)
        for none, and either stored value for both."""
        if txt is None:
            return False
        try:
            e0 = ast.parse(txt, mode="eval").body
        except SyntaxError:
            return False

        def truth(t, a_empty, b_empty):
            if isinstance(t, ast.UnaryOp) and isinstance(t.op, (ast.Not, ast.Invert)):
                v = truth(t.operand, a_empty, b_empty)
                return None if v is None else (not v)
            if isinstance(t, ast.Compare) and len(t.ops) == 1 and isinstance(t.ops[0], (ast.Eq, ast.NotEq)):
                l_, r_ = norm(t.left), norm(t.comparators[0])
                if l_ == "0":
                    l_, r_ = r_, l_
                if r_ != "0" or l_ not in ("a['count']", "b['count']"):
                    return None
                empty = a_empty if l_.startswith("a") else b_empty
                return empty if isinstance(t.ops[0], ast.Eq) else (not empty)
            return None

        def pick(e_, a_empty, b_empty):
            if isinstance(e_, ast.Call) and dotted(e_.func) == "np.where" and len(e_.args) == 3:
                v = truth(e_.args[0], a_empty, b_empty)
                if v is None:
                    return None
                return pick(e_.args[1] if v else e_.args[2], a_empty, b_empty)
            return norm(e_)
        both = {f"{comb}(a['{fld}'], b['{fld}'])", f"{comb}(b['{fld}'], a['{fld}'])"}
        return pick(e0, True, False) == f"b['{fld}']" and pick(e0, False, True) == f"a['{fld}']" and pick(e0, False, False) in both and \
            pick(e0, True, True) in {f"a['{fld}']", f"b['{fld}']"} | both
    plain = other.get("max") == "np.maximum(a['max'], b['max'])" and other.get("min") == "np.minimum(a['min'], b['min'])"
    if (guarded_extreme(other.get("max"), "max", "np.maximum") and guarded_extreme(other.get("min"), "min", "np.minimum")) or \
            (guarded_extreme_cases(other.get("max"), "max", "np.maximum") and guarded_extreme_cases(other.get("min"), "min", "np.minimum")):
        res.ok("R3", mrg, mrg.node, "merge takes the elementwise maximum of maxima and minimum of minima, and an operand with count 0 contributes nothing "
               "(the empty accumulator is the identity for the extremes too)", construct="minmax", key=key)
    elif plain:
        res.bad("R3", mrg, mrg.node, "merge takes np.maximum / np.minimum of the stored extremes unconditionally: an accumulator that never received data "
                "holds 0 for both, so merging at split point 0 or n reports min 0 for all-positive data (max 0 for all-negative)", construct="minmax", key=key)
    else:
        res.bad("R3", mrg, mrg.node, f"merge combines min/max as {other}", construct="minmax", key=key)

    # ---- R3 kernels and __add__ ---------------------------------------------------------------------
    for name in ("compute_online_moments", "compute_online_moments_basic"):
        fn = prog.func(K, name)
        verdict, why = kernelspec.compare(fn)
        if verdict == "incomparable":
            raise AnalysisError(f"kernel {name} cannot be compared with its reference definition: {why[0]}")
        (res.ok if verdict == "same" else res.bad)(
            "R3", fn, fn.node, ("per channel: load sums, one update + min/max per sample in time order, single write-back; min/max "
                                "initialised from sample 0 when startflag == 0; " if verdict == "same" else "") + ("; ".join(why))[:500],
            construct=name, key=f"kernel:{name}")
    # chunked feeding: push_data forwards the block index as the first-chunk flag to both kernels, and the streaming
    # callers pass the block index (shared with C06.R5)
    from .c06 import check_push_data
    check_push_data(prog, res, "R3")
    cs = prog.cls(STATS, "ChannelStats")
    add = cs.methods.get("__add__")
    if add is None:
        raise AnalysisError("ChannelStats.__add__ not found")
    from ..normalform import canon, normal_form
    nfa = normal_form(add)
    fresh = [e for e in nfa.effects if e.kind == "set" and e.target.startswith("$o") and e.text() == canon("ChannelStats(self.nchans, self.nsamps + other.nsamps)")]
    oka = len(fresh) == 1
    if oka:
        o = fresh[0].target
        merges = nfa.calls("kernels.add_online_moments")
        # `moments` is the read-only property returning `_moments`
        oka = len(merges) == 1 and merges[0].text().replace("._moments", ".moments") == f"kernels.add_online_moments(self.moments, other.moments, {o}.moments)" and \
            [e.text() for e in nfa.returns()] == [o] and nfa.before(fresh[0], merges[0]) and \
            any(e.under("not isinstance(other, ChannelStats)") for e in nfa.raises()) and \
            not [e for e in nfa.effects if e.kind == "set" and e.target.startswith(o) and e is not fresh[0]]
    (res.ok if oka else res.bad)("R3", add, add.node, "a + b merges both moment arrays into a fresh accumulator with nsamps = sum" if oka else
                                 "ChannelStats.__add__ no longer merges (self, other) into a fresh accumulator with the summed sample count",
                                 construct="__add__", key="__add__")
    init = cs.methods["__init__"]
    oki = [e.text() for e in normal_form(init).sets("self._moments")] == [canon("np.zeros(nchans, dtype=kernels.moments_dtype)")]
    (res.ok if oki else res.bad)("R3", init, init.node, "a new accumulator is the all-zero (empty) element" if oki else
                                 "a new ChannelStats does not start from the all-zero accumulator", construct="__init__", key="__init__")

    # ---- R4 derived statistics ---------------------------------------------------------------------------
    want = {
        "mean": "self._moments['m1']",
        "var": "self._moments['m2'] / self.nsamps",
        "std": "np.sqrt(self.var)",
        "skew": "np.divide(self._moments['m3'], np.power(self._moments['m2'], 1.5), out=np.zeros_like(self._moments['m3']), "
                "where=self._moments['m2'] != 0) * np.sqrt(self.nsamps)",
        "kurtosis": "np.divide(self._moments['m4'], np.power(self._moments['m2'], 2.0), out=np.zeros_like(self._moments['m4']), "
                    "where=self._moments['m2'] != 0) * self.nsamps - 3.0",
        "maxima": "self._moments['max']",
        "minima": "self._moments['min']",
    }
    import copy as _copy
    from ..dataflow import flow_of as _flow_of

    def _is_f64(x: ast.AST) -> bool:
        return norm(x) in ("np.float64", "float", "'float64'", "'f8'", "np.double")

    def _cast_operand(x: ast.AST):
        """x of `x.astype(np.float64)`, `np.float64(x)`, `np.asarray(x, dtype=np.float64)`; None if x is not such a cast."""
        if isinstance(x, ast.Call) and isinstance(x.func, ast.Attribute) and x.func.attr == "astype" and x.args and _is_f64(x.args[0]):
            return x.func.value
        if isinstance(x, ast.Call) and dotted(x.func) in ("np.float64", "np.double") and len(x.args) == 1:
            return x.args[0]
        if isinstance(x, ast.Call) and dotted(x.func) in ("np.asarray", "np.array", "np.asanyarray") and x.args and any(k.arg == "dtype" and _is_f64(k.value) for k in x.keywords):
            return x.args[0]
        return None

    class _StripCasts(ast.NodeTransformer):
        def visit_Call(self, node):  # noqa: N802
            self.generic_visit(node)
            inner = _cast_operand(node)
            if inner is not None:
                return inner
            if dotted(node.func) == "np.float_power":   # np.power evaluated in float64
                return ast.Call(func=ast.parse("np.power", mode="eval").body, args=node.args, keywords=node.keywords)
            return node

    for nm, w in want.items():
        m_ = cs.methods.get(nm)
        if m_ is None:
            raise AnalysisError(f"ChannelStats.{nm} not found")
        rets = [s for s in body_walk(m_.node) if isinstance(s, ast.Return)]
        key = f"stat:{nm}"
        fl_ = _flow_of(m_, prog)
        full = fl_.expand(rets[0].value, fl_.cfg.node_for(rets[0])) if len(rets) == 1 and rets[0].value is not None else None
        # the textbook form, modulo temporaries, operand order and float64 conversions (which do not change the value)
        got = canon(_StripCasts().visit(_copy.deepcopy(full))) if full is not None else None
        if got is not None and got == canon(w):
            res.ok("R4", m_, rets[0], f"{nm} = {w[:70]}", key=key)
        else:
            guarded = nm in ("skew", "kurtosis")
            shown = norm(rets[0].value)[:160] if rets and rets[0].value is not None else None
            if guarded and got is not None and "where=cmp[NotEq](0, self._moments['m2'])" in got.replace("cmp[NotEq](self._moments['m2'], 0)", "cmp[NotEq](0, self._moments['m2'])") \
                    and "out=np.zeros_like" in got:
                res.bad("R4", m_, rets[0], f"{nm} is `{shown}`, expected `{w[:160]}`", key=key)
            elif guarded:
                res.bad("R4", m_, rets[0] if rets else m_.node, f"{nm}: the division by a power of m2 is not guarded by where=m2 != 0 with a "
                        f"zero-filled out= (constant channels would give NaN/inf)", key=key)
            else:
                res.bad("R4", m_, rets[0] if rets else m_.node, f"{nm} is `{shown}`, expected `{w}`", key=key)
        # powers of a float32 moment are taken in float64 (F60): m2**2 overflows float32 from m2 ~ 1.8e19 on, long before
        # the ratio m4 / m2**2 leaves the float32 range - the statistic then reads -3 (or 0) for finite, correct moments
        if full is not None:
            for n_ in ast.walk(full):
                base = expo = None
                if isinstance(n_, ast.Call) and dotted(n_.func) in ("np.power", "np.float_power") and len(n_.args) >= 2:
                    base, expo = n_.args[0], n_.args[1]
                    if dotted(n_.func) == "np.float_power" or any(k.arg == "dtype" and _is_f64(k.value) for k in n_.keywords):
                        continue
                elif isinstance(n_, ast.BinOp) and isinstance(n_.op, ast.Pow):
                    base, expo = n_.left, n_.right
                if base is None or not (isinstance(expo, ast.Constant) and isinstance(expo.value, (int, float)) and expo.value > 1):
                    continue
                if "self._moments" not in norm(base):
                    continue
                okp = _cast_operand(base) is not None
                (res.ok if okp else res.bad)("R4", m_, rets[0], f"{nm}: the power of the stored moment is taken in float64" if okp else
                                             f"{nm}: `{norm(base)[:80]}` is raised to the power {expo.value} in the float32 it is stored in: the power overflows "
                                             "(m2 above ~1.8e19) although the moments and the ratio are finite, and the statistic silently reads -3 / 0",
                                             key=f"stat:{nm}:power-precision")
    res.trusted_base += ["exact rational arithmetic: the identities hold before float32 rounding",
                         "numba evaluates the recurrences in the written statement order"]
    # ---- R2 (cont.) the identities above are over the rationals; in the kernel the counts are integers: a third (or higher) power
    # of a count is taken in floating point, because count ** 3 wraps int64 at count = 2**21 (F42) -----------------------------
    from ..dataflow import flow_of as _flow_of
    fm = _flow_of(mrg)
    npow = 0
    for sub in body_walk(mrg.node):
        if isinstance(sub, ast.BinOp) and isinstance(sub.op, ast.Pow) and isinstance(sub.right, ast.Constant) and isinstance(sub.right.value, int) and sub.right.value >= 2:
            st = sub
            while st is not None and not isinstance(st, ast.stmt):
                st = parent(st)
            base = fm.expand(sub.left, fm.cfg.node_for(st))
            txt = norm(base)
            if "'count'" not in txt and '"count"' not in txt:
                continue
            npow += 1
            as_float = any(isinstance(n_, ast.Call) and ((isinstance(n_.func, ast.Attribute) and n_.func.attr == "astype") or norm(n_.func) in ("np.float64", "float"))
                           for n_ in ast.walk(base))
            key = f"count-power:{norm(sub)[:40]}"
            if sub.right.value >= 3 and not as_float:
                res.bad("R2", mrg, sub, f"`{norm(sub)}` is an integer power: it wraps int64 once the merged count reaches 2**21 samples, and the merged fourth moment "
                        "(kurtosis) is garbage from there on", key=key)
            else:
                res.ok("R2", mrg, sub, f"`{norm(sub)}`: " + ("taken in floating point" if as_float else "a square of a count (no overflow below 3e9 samples)"), key=key)
    if npow < 3:
        raise AnalysisError(f"only {npow} powers of a count found in add_online_moments (5 confirmed by hand)")
    # a product of counts that is *materialised* (bound to a local) is an array of the counts' own int32: inside one array
    # expression numba multiplies the scalars wide, as a statement of its own the product wraps at n_a * n_b = 2**31
    def _kind(e: ast.AST) -> str:
        """'int' for arithmetic on count fields and integer literals only, 'float' as soon as a moment field, a float literal, a true
        division or a float conversion takes part."""
        if isinstance(e, ast.Constant):
            return "int" if isinstance(e.value, int) and not isinstance(e.value, bool) else "float"
        if isinstance(e, ast.Subscript):
            return "int" if isinstance(e.slice, ast.Constant) and e.slice.value == "count" else "float"
        if isinstance(e, ast.UnaryOp):
            return _kind(e.operand)
        if isinstance(e, ast.BinOp):
            if isinstance(e.op, ast.Div):
                return "float"
            return "int" if _kind(e.left) == "int" and _kind(e.right) == "int" else "float"
        if isinstance(e, ast.Name):
            ds_ = [d_ for d_ in fm.defs if d_.var == e.id and d_.kind == "assign" and d_.value is not None]
            return _kind(ds_[0].value) if len(ds_) == 1 else "float"
        return "float"
    for st_ in body_walk(mrg.node):
        if isinstance(st_, ast.Assign) and len(st_.targets) == 1 and isinstance(st_.targets[0], ast.Name) and _kind(st_.value) == "int" and \
                any(isinstance(n_, ast.BinOp) and isinstance(n_.op, (ast.Mult, ast.Pow)) for n_ in ast.walk(st_.value)) and "count" in norm(st_.value):
            res.bad("R2", mrg, st_, f"`{norm(st_)[:80]}` materialises a product of counts as an array of the counts' own int32: it wraps once n_a * n_b reaches 2**31 "
                    "(two accumulators of ~46000 samples each), and the merged variance, skewness and kurtosis are garbage from there on", key=f"count-product:{norm(st_.targets[0])}")
    res.floor("R1", 8)
    res.floor("R2", 20 if tier == "thorough" else 19)
    res.floor("R3", 11)
    res.floor("R4", 7)


KF = "sigpyproc/core/kernels.py"
SF = "sigpyproc/core/stats.py"
MUTANTS = [
    {"id": "c10-revert-F50", "file": "sigpyproc/core/kernels.py", "expect": "C10.R3",
     "old": "    c[\"min\"][:] = np.where(\n        a[\"count\"] == 0,\n        b[\"min\"],\n        np.where(b[\"count\"] == 0, a[\"min\"], np.minimum(a[\"min\"], b[\"min\"])),\n    )\n",
     "new": "    c[\"min\"][:] = np.minimum(a[\"min\"], b[\"min\"])\n"},
    {"id": "c10-empty-side-swapped", "file": "sigpyproc/core/kernels.py", "expect": "C10.R3",
     "old": "        a[\"count\"] == 0,\n        b[\"max\"],\n", "new": "        a[\"count\"] == 0,\n        a[\"max\"],\n"},
    {"id": "c10-revert-F42", "file": "sigpyproc/core/kernels.py", "expect": "C10.R2",
     "old": "        / (ncount**3)\n", "new": "        / (c[\"count\"] ** 3)\n"},
    {"id": "c10-m4-coeff", "file": KF, "expect": "C10.R1",
     "old": "m4 += term * delta_n2 * (n * n - 3 * n + 3) + 6 * delta_n2 * m2 - 4 * delta_n * m3", "new": "m4 += term * delta_n2 * (n * n - 3 * n + 1) + 6 * delta_n2 * m2 - 4 * delta_n * m3"},
    {"id": "c10-m4-drop-term", "file": KF, "expect": "C10.R1",
     "old": "m4 += term * delta_n2 * (n * n - 3 * n + 3) + 6 * delta_n2 * m2 - 4 * delta_n * m3", "new": "m4 += term * delta_n2 * (n * n - 3 * n + 3) + 6 * delta_n2 * m2"},
    {"id": "c10-order-m2-first", "file": KF, "expect": "C10.R1",
     "old": "    m4 += term * delta_n2 * (n * n - 3 * n + 3) + 6 * delta_n2 * m2 - 4 * delta_n * m3\n    m3 += term * delta_n * (n - 2) - 3 * delta_n * m2\n    m2 += term\n    return m1, m2, m3, m4, n",
     "new": "    m2 += term\n    m4 += term * delta_n2 * (n * n - 3 * n + 3) + 6 * delta_n2 * m2 - 4 * delta_n * m3\n    m3 += term * delta_n * (n - 2) - 3 * delta_n * m2\n    return m1, m2, m3, m4, n"},
    {"id": "c10-merge-m3-sign", "file": KF, "expect": "C10.R",
     "old": "        * (a[\"count\"] - b[\"count\"])\n", "new": "        * (b[\"count\"] - a[\"count\"])\n"},
    {"id": "c10-merge-m2-denominator", "file": KF, "expect": "C10.R",
     "old": "c[\"m2\"][:] = a[\"m2\"] + b[\"m2\"] + delta2 * a[\"count\"] * b[\"count\"] / c[\"count\"]", "new": "c[\"m2\"][:] = a[\"m2\"] + b[\"m2\"] + delta2 * a[\"count\"] * b[\"count\"] / a[\"count\"]"},
    {"id": "c10-merge-m4-six", "file": KF, "expect": "C10.R",
     "old": "        6\n        * delta2\n", "new": "        4\n        * delta2\n"},
    {"id": "c10-basic-n-minus-1", "file": KF, "expect": "C10.R1",
     "old": "    m2 += delta * delta_n * (n - 1)\n    return m1, m2, n", "new": "    m2 += delta * delta_n * n\n    return m1, m2, n"},
    {"id": "c10-merge-min-max-swapped", "file": KF, "expect": "C10.R3",
     "old": "np.maximum(a[\"max\"], b[\"max\"])),", "new": "np.maximum(a[\"max\"], b[\"min\"])),"},
    {"id": "c10-minmax-init-in-prange", "file": KF, "expect": "C10.R3",
     "old": "        count = moments[ichan][\"count\"]\n        min_val, max_val = moments[ichan][\"min\"], moments[ichan][\"max\"]\n\n        for isamp in range(nsamps):\n            val = array[isamp * nchans + ichan]\n            m1, m2, count = update_moments_basic(val, m1, m2, count)",
     "new": "        count = moments[ichan][\"count\"]\n        min_val, max_val = array[ichan], array[ichan]\n\n        for isamp in range(nsamps):\n            val = array[isamp * nchans + ichan]\n            m1, m2, count = update_moments_basic(val, m1, m2, count)"},
    {"id": "c10-skew-unguarded", "file": SF, "expect": "C10.R4",
     "old": "            out=np.zeros_like(self._moments[\"m3\"]),\n            where=self._moments[\"m2\"] != 0,\n        ) * np.sqrt(self.nsamps)", "new": "        ) * np.sqrt(self.nsamps)"},
    {"id": "c10-kurt-no-minus3", "file": SF, "expect": "C10.R4",
     "old": "            * self.nsamps\n            - 3.0\n", "new": "            * self.nsamps\n"},
    {"id": "c10-add-nsamps-self", "file": SF, "expect": "C10.R3",
     "old": "combined = ChannelStats(self.nchans, self.nsamps + other.nsamps)", "new": "combined = ChannelStats(self.nchans, self.nsamps)"},
    {"id": "c10-add-merge-self-twice", "file": SF, "expect": "C10.R3",
     "old": "kernels.add_online_moments(self._moments, other._moments, combined._moments)", "new": "kernels.add_online_moments(self._moments, self._moments, combined._moments)"},
    {"id": "c10-var-n-minus-1", "file": SF, "expect": "C10.R4",
     "old": "        return self._moments[\"m2\"] / self.nsamps", "new": "        return self._moments[\"m2\"] / (self.nsamps - 1)"},
]
MUTANTS += [
    {"id": "c10-revert-F60-kurtosis", "file": "sigpyproc/core/stats.py", "expect": "C10.R4",
     "old": "                np.power(m2, 2.0),\n", "new": "                np.power(self._moments[\"m2\"], 2.0),\n"},
    {"id": "c10-revert-F60-skew", "file": "sigpyproc/core/stats.py", "expect": "C10.R4",
     "old": "            np.power(m2, 1.5),\n", "new": "            np.power(self._moments[\"m2\"], 1.5),\n"},
]
MUTANTS += [
    {"id": "c10-count-product-materialised", "file": "sigpyproc/core/kernels.py", "expect": "C10.R2",
     "old": "    c[\"m2\"][:] = a[\"m2\"] + b[\"m2\"] + delta2 * a[\"count\"] * b[\"count\"] / c[\"count\"]", "new": "    npair = a[\"count\"] * b[\"count\"]\n    c[\"m2\"][:] = a[\"m2\"] + b[\"m2\"] + delta2 * npair / c[\"count\"]"},
]
TWINS = [
    {"id": "c10-twin-count-product-float", "file": "sigpyproc/core/kernels.py",
     "old": "    c[\"m2\"][:] = a[\"m2\"] + b[\"m2\"] + delta2 * a[\"count\"] * b[\"count\"] / c[\"count\"]", "new": "    npair = a[\"count\"].astype(np.float64) * b[\"count\"]\n    c[\"m2\"][:] = a[\"m2\"] + b[\"m2\"] + delta2 * npair / c[\"count\"]"},
    {"id": "c10-twin-kurtosis-float-power", "file": "sigpyproc/core/stats.py",
     "old": "                np.power(m2, 2.0),\n", "new": "                np.float_power(self._moments[\"m2\"], 2.0),\n"},
    {"id": "c10-twin-update-regroup", "file": KF,
     "old": "    term = delta * delta_n * (n - 1)\n\n    m1 += delta_n\n    m4 +=", "new": "    term = (n - 1) * delta_n * delta\n\n    m1 = m1 + delta_n\n    m4 +="},
    {"id": "c10-twin-merge-m1", "file": KF,
     "old": "c[\"m1\"][:] = (a[\"count\"] * a[\"m1\"] + b[\"count\"] * b[\"m1\"]) / c[\"count\"]", "new": "c[\"m1\"][:] = a[\"m1\"] + delta * b[\"count\"] / c[\"count\"]"},
]
