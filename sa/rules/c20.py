"""C20 - a partially written output is a valid prefix (header first, append only, write through)."""
from __future__ import annotations

import ast

from ..dataflow import flow_of
from ..model import AnalysisError, ClassInfo, FuncInfo, Program, body_walk, calls_in_body, dotted, norm, parent
from ..report import Result
from ..stream import cwrite_calls, plan_loops, prep_calls, writer_handles

TITLE = "A partially written output is always a valid prefix of the final file"
LEVEL = "proof"
EXPLANATION = (
    "Static proof of the crash-prefix clause for every SIGPROC output: (O1) the writer class is constructed only in "
    "Header.prep_outfile, where the encoded header is written on every path before the handle is returned; (O2) the "
    "writer class and every function holding a writer never seek, truncate or re-open the output, and open modes "
    "truncate-then-append ('w'/'w+'); (O3) the handle is the raw unbuffered io.FileIO, so each write has reached the "
    "OS when it returns; (O4) every streaming writer writes exactly the block of the current read_plan iteration "
    "inside the loop (time order, nothing accumulated across iterations) and single-shot writers write once after the "
    "header; (O5) the in-place header editor is reachable only from the spp_header app; (O6) the reader derives the "
    "sample count by floor division of the data length, so a torn trailing sample is ignored; (O7) what each iteration writes is "
    "exactly the block just computed, a whole number of output samples (C07's written-slice rules). Together these give: "
    "after every write the file is header + prefix of the final data section."
    ' Since wave 6: O7 also re-evaluates C07.R4 for downsample (no decimation group straddles a gulp) and C04.R1 (the writer writes exactly the array it was given, converted).'
)
TECHNIQUE = "static analysis: who-may-call + CFG dominance (must-pass-through) + effect ordering over the call graph"

FILEIO = "sigpyproc.io.fileio"
HEADER = "sigpyproc.header"
SIGPROC = "sigpyproc.io.sigproc"
NON_SIGPROC_WRITERS = {
    # function -> reason it is not a SIGPROC-header output (enumerated so that a NEW direct writer is reported)
    "sigpyproc.header::Header.make_inf": "PRESTO .inf text side-car",
    "sigpyproc.fourierseries::FourierSeries.to_fft": "PRESTO raw .fft (no SIGPROC header by format)",
    "sigpyproc.timeseries::TimeSeries.to_dat": "PRESTO raw .dat (no SIGPROC header by format)",
    "sigpyproc.core.rfi::RFIMask.to_file": "HDF5 mask file",
    "sigpyproc.simulation.furby::Furby.save": "HDF5 furby file",
    "sigpyproc.io.sigproc::edit_header": "in-place header editor (see O5)",
    "sigpyproc.io.fileio::FileWriter.cwrite": "the writer primitive itself",
    "sigpyproc.io.fileio::FileWriter.write": "the writer primitive itself",
}


def _writer_class(prog: Program) -> ClassInfo:
    """The class with a `tofile` effect on an owned handle."""
    hits = []
    for m in prog.modules.values():
        for c in m.classes.values():
            for meth in c.methods.values():
                for call in calls_in_body(meth.node):
                    if isinstance(call.func, ast.Attribute) and call.func.attr == "tofile" and call.args \
                            and (dotted(call.args[0]) or "").startswith("self."):
                        hits.append(c)
    hits = list({id(c): c for c in hits}.values())
    if len(hits) != 1:
        raise AnalysisError(f"expected exactly one writer class with a tofile effect on an owned handle, found {len(hits)}")
    return hits[0]


def run(prog: Program, res: Result, tier: str) -> None:
    wcls = _writer_class(prog)
    prog.consulted.update({FILEIO, HEADER, SIGPROC, "sigpyproc.base", "sigpyproc.block", "sigpyproc.timeseries",
                           "sigpyproc.fourierseries"})

    # ---- O1 header first ------------------------------------------------------
    ctor_sites = []
    for f in prog.all_funcs():
        for call in calls_in_body(f.node):
            d = dotted(call.func)
            if d and d.split(".")[-1] == wcls.name:
                ctor_sites.append((f, call))
    if not ctor_sites:
        raise AnalysisError(f"no construction site of {wcls.name} found")
    prep = prog.func(HEADER, "Header.prep_outfile")
    for f, call in ctor_sites:
        if f.node is prep.node:
            res.ok("O1a", f, call, f"{wcls.name} constructed in Header.prep_outfile", key=f.ident)
        else:
            res.bad("O1a", f, call, f"{wcls.name} is constructed outside Header.prep_outfile: the header-first "
                    f"discipline is bypassed", key=f.ident)
    flow = flow_of(prep)
    cfg = flow.cfg
    # header write: X.write(arg) with arg depending on encode_header(...)
    hdr_writes = []
    for call in calls_in_body(prep.node):
        if isinstance(call.func, ast.Attribute) and call.func.attr == "write" and call.args:
            deps = flow.deps(call.args[0])
            if any(d.startswith("call:") and d.endswith("encode_header") for d in deps):
                hdr_writes.append(call)
    if not hdr_writes:
        res.bad("O1b", prep, prep.node, "prep_outfile never writes encode_header(...) to the new file", construct="prep_outfile",
                key="hdrwrite")
    rets = [s for s in body_walk(prep.node) if isinstance(s, ast.Return) and s.value is not None]
    if not rets:
        raise AnalysisError("prep_outfile has no return")
    wnodes = {cfg.node_for(c) for c in hdr_writes}
    for r in rets:
        rn = cfg.node_for(r)
        handle = dotted(r.value)
        same = [c for c in hdr_writes if dotted(c.func.value) == handle]
        if same and cfg.must_pass(cfg.entry, rn, {cfg.node_for(c) for c in same}):
            res.ok("O1b", prep, r, "every path to the return of the writer passes the header write", key="ret:" + norm(r))
        else:
            res.bad("O1b", prep, r, "a path reaches `return <writer>` without the complete header having been written "
                    "to that same handle", key="ret:" + norm(r))
    for c in cwrite_calls(prep):
        cn = cfg.node_for(c)
        if not cfg.must_pass(cfg.entry, cn, wnodes):
            res.bad("O1c", prep, c, "data is written before the header in prep_outfile", key=norm(c))
    # encode header must describe new header: argument comes from to_sigproc of the updated header
    for c in hdr_writes:
        deps = flow.deps(c.args[0])
        ok = any(d.endswith("to_sigproc") for d in deps) and any(d.endswith("new_header") for d in deps)
        (res.ok if ok else res.bad)("O1d", prep, c, "header bytes are encode_header(new_header(updates).to_sigproc())"
                                    if ok else "header bytes are not derived from the updated header", key="hdrsrc")

    # ---- O2 append-only ----------------------------------------------------------
    for c in prog.mro(wcls):
        for meth in c.methods.values():
            for call in calls_in_body(meth.node):
                if isinstance(call.func, ast.Attribute) and call.func.attr in ("seek", "truncate"):
                    res.bad("O2a", meth, call, f"{c.name}.{meth.name} repositions/truncates the output handle",
                            key=f"{c.name}.{meth.name}:{norm(call.func)}")
        res.ok("O2a", None, None, f"class {c.name}: no seek/truncate in any method", construct=c.name, key=c.name,
               where=f"{c.module.name}::{c.name}")
    for f, call in ctor_sites:
        mode = None
        for kw in call.keywords:
            if kw.arg == "mode":
                mode = kw.value
        init = wcls.methods.get("__init__")
        if mode is None and init is not None:
            mode = init.param_default("mode")
        lit = mode.value if isinstance(mode, ast.Constant) else None
        if lit in ("w", "w+", "wb", "wb+"):
            res.ok("O2b", f, call, f"output opened with mode {lit!r} (created empty, then only appended to)", key=f.ident)
        else:
            res.bad("O2b", f, call, f"output open mode is {norm(mode) if mode is not None else '?'}: not a "
                    f"truncate-on-open write mode", key=f.ident)
    holders = []
    for f in prog.all_funcs():
        try:
            hs = writer_handles(f)
        except AnalysisError as exc:
            res.bad("O2c", f, f.node, str(exc), construct=f.qualname, key=f.ident)
            continue
        if not hs:
            continue
        holders.append((f, hs))
        names = {h.name for h in hs} | {h.container for h in hs if h.container}
        offending = []
        for call in calls_in_body(f.node):
            fn_ = call.func
            if isinstance(fn_, ast.Attribute) and fn_.attr in ("seek", "truncate", "_open", "readinto"):
                base = dotted(fn_.value) or ""
                if base.split(".")[0] in names:
                    offending.append(call)
            d = dotted(fn_) or ""
            if d.split(".")[-1] in ("edit_header", "memmap") or d in ("open", "io.open", "os.truncate", "os.ftruncate"):
                offending.append(call)
            if isinstance(fn_, ast.Attribute) and fn_.attr == "open" and d not in ("fits.open",):
                offending.append(call)
        if offending:
            for call in offending:
                res.bad("O2c", f, call, "a function holding an output writer repositions, truncates or re-opens a file",
                        key=f"{f.ident}:{norm(call.func)}")
        else:
            res.ok("O2c", f, f.node, "writer holder never seeks/truncates/re-opens", construct=f.qualname, key=f.ident)

    # ---- O3 write-through -----------------------------------------------------------
    base = prog.cls(FILEIO, "FileBase")
    init = base.methods.get("__init__")
    opener = None
    if init is not None:
        for sub in body_walk(init.node):
            if isinstance(sub, ast.Assign) and any(dotted(t) == "self.opener" for t in sub.targets):
                opener = sub
    if opener is None:
        raise AnalysisError("FileBase.__init__ no longer assigns self.opener")
    if dotted(opener.value) in ("io.FileIO", "FileIO"):
        res.ok("O3a", init, opener, "file handles are raw unbuffered io.FileIO objects", key="opener")
    else:
        res.bad("O3a", init, opener, f"opener is {norm(opener.value)}, not the unbuffered io.FileIO: written bytes may sit "
                f"in a user-space buffer when the process dies (writers are not closed on all paths)", key="opener")
    for name, c in list(prog.module(FILEIO).classes.items()):
        for meth in c.methods.values():
            for sub in body_walk(meth.node):
                if isinstance(sub, ast.Assign) and any(dotted(t) in ("self.opener",) for t in sub.targets) and sub is not opener:
                    res.bad("O3a", meth, sub, "opener is re-assigned", key=f"{c.name}.{meth.name}")
    openm = base.methods.get("_open")
    if openm is None:
        raise AnalysisError("FileBase._open not found")
    uses_opener = [c for c in calls_in_body(openm.node) if dotted(c.func) == "self.opener"]
    others = [c for c in calls_in_body(openm.node) if (dotted(c.func) or "") in ("open", "io.open", "io.BufferedWriter")]
    if uses_opener and not others:
        res.ok("O3b", openm, uses_opener[0], "_open creates the handle through self.opener only", key="_open")
    else:
        res.bad("O3b", openm, openm.node, "_open does not (only) use self.opener", construct="_open", key="_open")
    cw = wcls.methods.get("cwrite")
    if cw is None:
        raise AnalysisError("writer class has no cwrite")
    tofiles = [c for c in calls_in_body(cw.node) if isinstance(c.func, ast.Attribute) and c.func.attr == "tofile"]
    for c in tofiles:
        if c.args and dotted(c.args[0]) == "self.file_obj":
            res.ok("O3c", cw, c, "cwrite writes straight to the raw handle with ndarray.tofile", key=norm(c))
        else:
            res.bad("O3c", cw, c, "cwrite writes to something other than the owned raw handle", key=norm(c))
    # exactly one tofile on every path through cwrite
    fl = flow_of(cw)
    tnodes = {fl.cfg.node_for(c) for c in tofiles}
    if tofiles and fl.cfg.must_pass(fl.cfg.entry, fl.cfg.exit, tnodes):
        multi = any(t2 in fl.cfg.reachable(t1) for t1 in tnodes for t2 in tnodes)
        if multi:
            res.bad("O3d", cw, cw.node, "a cwrite call can issue more than one tofile", construct="cwrite", key="one-tofile")
        else:
            res.ok("O3d", cw, cw.node, "every cwrite issues exactly one tofile", construct="cwrite", key="one-tofile")
    else:
        res.bad("O3d", cw, cw.node, "some path through cwrite writes nothing", construct="cwrite", key="one-tofile")

    # ---- O4 time order, one block per iteration ----------------------------------------
    nstream = nsingle = 0
    for f, hs in holders:
        if f.node is prep.node:
            continue
        loops = plan_loops(f)
        flw = flow_of(f, prog)
        handle_names = {h.name for h in hs}
        cws = [c for c in cwrite_calls(f) if (dotted(c.func.value) or "") in handle_names]
        if not cws:
            res.bad("O4", f, f.node, "holds an output writer but never writes data to it", construct=f.qualname, key=f.ident)
            continue
        if loops:
            nstream += 1
            for c in cws:
                key = f"{f.ident}:{norm(c)}"
                lp = [l for l in loops if l.in_body(c)]
                if not lp:
                    res.bad("O4", f, c, "data is written outside the read_plan loop (blocks accumulated and flushed "
                            "later, or written out of time order)", key=key)
                    continue
                deps = flw.deps(c.args[0]) if c.args else set()
                l0 = lp[0]
                if l0.data not in deps:
                    res.bad("O4", f, c, f"the array written does not depend on this iteration's block '{l0.data}'", key=key)
                    continue
                # no accumulation container: argument must not depend on a list/array that collects blocks
                acc = _accumulators(f, l0)
                used = sorted(a for a in acc if a in deps)
                if used:
                    res.bad("O4", f, c, f"the array written depends on {used}, which collects blocks across iterations",
                            key=key)
                    continue
                # every prep_outfile for this handle precedes the loop
                res.ok("O4", f, c, "one block of the current iteration is written inside the read_plan loop", key=key)
            for h in hs:
                cfg_ = flw.cfg
                pn = cfg_.node_for(h.call)
                for l in loops:
                    ln = cfg_.node_for(l.node)
                    if any(l.in_body(c) and (dotted(c.func.value) or "") == h.name for c in cws) and not cfg_.dominates(pn, ln):
                        res.bad("O4", f, h.call, "the output file is prepared inside/after the streaming loop", key=f"{f.ident}:prep")
        else:
            nsingle += 1
            for c in cws:
                key = f"{f.ident}:{norm(c)}"
                inloop = False
                cur = parent(c)
                while cur is not None and cur is not f.node:
                    if isinstance(cur, (ast.For, ast.While)):
                        inloop = True
                    cur = parent(cur)
                if len(cws) == 1 and not inloop:
                    res.ok("O4", f, c, "single-shot writer: one write of the whole array after the header", key=key)
                else:
                    res.bad("O4", f, c, "single-shot writer writes more than once", key=key)
    res.notes.append(f"streaming writers: {nstream}, single-shot writers: {nsingle}")

    # direct writers outside prep_outfile are enumerated
    for f in prog.all_funcs():
        direct = []
        for call in calls_in_body(f.node):
            fn_ = call.func
            d = dotted(fn_) or ""
            if isinstance(fn_, ast.Attribute) and fn_.attr == "tofile":
                direct.append(call)
            elif d in ("h5py.File",) and any(isinstance(a, ast.Constant) and "w" in str(a.value) for a in call.args[1:]):
                direct.append(call)
            elif isinstance(fn_, ast.Attribute) and fn_.attr == "open" and any(
                    _write_mode(a) for a in list(call.args) + [k.value for k in call.keywords]):
                direct.append(call)
            elif d == "open" and any(_write_mode(a) for a in list(call.args[1:]) + [k.value for k in call.keywords]):
                direct.append(call)
        for call in direct:
            if f.ident in NON_SIGPROC_WRITERS:
                res.ok("O4b", f, call, f"direct writer, not a SIGPROC-header output: {NON_SIGPROC_WRITERS[f.ident]}",
                       key=f"{f.ident}:{norm(call.func)}")
            else:
                res.bad("O4b", f, call, "a file is written outside Header.prep_outfile / FileWriter by a function that is not "
                        "in the enumerated list of non-SIGPROC writers", key=f"{f.ident}:{norm(call.func)}")

    # ---- O7 each write appends whole samples of the block just computed (shared with C07.R5) ------------------
    from ..report import depends as _depends
    _depends(res, "O7", prog, tier, "C07",
             accept=lambda o: (o.rule == "C07.R5" and (o.key.endswith(":written") or o.key.endswith(":scratch") or o.key.endswith(":selection"))) or
             (o.rule == "C07.R4" and "downsample" in (o.where or "")),
             why="what each write appends is C07's business: the written slices, and for downsample that no decimation group straddles a gulp "
                 "(otherwise the samples appended after the first gulp are not those of the full result)")
    _depends(res, "O7", prog, tier, "C04", accept=lambda o: o.rule == "C04.R1" or (o.rule == "C04.R2" and "to_file" in (o.key or "") + (o.construct or "")),
             why="FileWriter.cwrite writes exactly the array it was given, converted (C04.R1): a writer that keeps state between calls could append stale bytes")

    # ---- O5 no patching ------------------------------------------------------------------
    prog.func(SIGPROC, "edit_header")
    n5 = 0
    for f in prog.all_funcs():
        for call in calls_in_body(f.node):
            d = dotted(call.func) or ""
            if d.split(".")[-1] == "edit_header":
                n5 += 1
                if f.module.name == "sigpyproc.apps.spp_header":
                    res.ok("O5", f, call, "edit_header is called only from the spp_header app", key=f.ident)
                else:
                    res.bad("O5", f, call, "the in-place header editor is called from library code: a written header "
                            "may be patched afterwards", key=f.ident)
    if n5 == 0:
        res.notes.append("edit_header has no caller in the package")

    # ---- O6 reader side ----------------------------------------------------------------------
    ph = prog.func(SIGPROC, "parse_header")
    found = False
    for sub in body_walk(ph.node):
        if isinstance(sub, ast.Assign) and any(norm(t) == "header['nsamples']" for t in sub.targets):
            found = True
            fph = flow_of(ph)
            v = fph.expand(sub.value, fph.cfg.node_for(sub))   # through temporaries and dissolved helpers
            divs = [b for b in ast.walk(v) if isinstance(b, ast.BinOp) and isinstance(b.op, (ast.Div, ast.FloorDiv))]
            src_txt = norm(sub.value) + " " + norm(v)
            if divs and all(isinstance(b.op, ast.FloorDiv) for b in divs) and any(w in src_txt for w in ("datalen", "hdrlen", "filelen", ".tell")):
                res.ok("O6", ph, sub, "sample count = floor(8*datalen/nbits/nchans): a torn trailing sample is ignored", key="nsamples")
            else:
                res.bad("O6", ph, sub, "sample count is not the floor of the data length over the sample size", key="nsamples")
    if not found:
        raise AnalysisError("parse_header no longer assigns header['nsamples']")

    res.trusted_base += ["ndarray.tofile on a raw io.FileIO handle flushes to the OS before returning",
                         "POSIX: a file opened with O_TRUNC and written sequentially without seeks grows by appending"]
    # ---- O8 a batched writer opens every output name once ------------------------------------------------------
    # extract_chans / extract_bands open their outputs in batches (`for batch_start in range(0, n, batch_size)`), each with mode "w+":
    # a name that comes round again in a later batch truncates a file that was already complete.  The names of a batch must be the
    # slice [batch_start:batch_end] of a list built once, before the loop, from the global index - or mention the global index.
    n8 = 0
    for qual in ("Filterbank.extract_chans", "Filterbank.extract_bands"):
        f = prog.func("sigpyproc.base", qual)
        fl8 = flow_of(f)
        for lp in [n_ for n_ in body_walk(f.node) if isinstance(n_, ast.For) and isinstance(n_.target, ast.Name) and isinstance(n_.iter, ast.Call)
                   and dotted(n_.iter.func) == "range" and len(n_.iter.args) == 3]:
            bvar = lp.target.id
            for c in [c_ for c_ in calls_in_body(lp) if (dotted(c_.func) or "").endswith("prep_outfile") and c_.args]:
                n8 += 1
                key = f"{qual}:names"
                name_arg = c.args[0]
                ok8, why8 = False, "the output name is not taken from a per-batch slice of a list of all names"
                # the comprehension / loop variable naming this file, and the sequence it iterates
                comp = parent(c)
                while comp is not None and not isinstance(comp, (ast.ListComp, ast.GeneratorExp, ast.For)):
                    comp = parent(comp)
                seq = None
                if isinstance(name_arg, ast.Name) and comp is not None:
                    gens = comp.generators if not isinstance(comp, ast.For) else [comp]
                    for g in gens:
                        it = g.iter
                        tg = g.target
                        if isinstance(it, ast.Call) and dotted(it.func) in ("zip", "enumerate"):
                            elts = tg.elts if isinstance(tg, ast.Tuple) else [tg]
                            if dotted(it.func) == "enumerate" and len(elts) == 2 and norm(elts[1]) == name_arg.id:
                                seq = it.args[0]
                            elif dotted(it.func) == "zip":
                                for e_, a_ in zip(elts, it.args):
                                    if norm(e_) == name_arg.id:
                                        seq = a_
                        elif norm(tg) == name_arg.id:
                            seq = it
                if seq is not None:
                    sx = fl8.expand(seq, fl8.cfg.node_for(lp.body[0]), stop={bvar})
                    if isinstance(sx, ast.Subscript) and isinstance(sx.slice, ast.Slice) and sx.slice.lower is not None and norm(sx.slice.lower) == bvar:
                        base_ = sx.value
                        whole = base_
                        if isinstance(base_, ast.Name):
                            ds_ = [d_ for d_ in fl8.reaching(base_.id, fl8.cfg.node_for(lp)) if d_.kind == "assign"]
                            whole = ds_[0].value if len(ds_) == 1 and len(fl8.reaching(base_.id, fl8.cfg.node_for(lp))) == 1 else None
                        if isinstance(whole, ast.ListComp) and len(whole.generators) == 1:
                            cv = {n_.id for n_ in ast.walk(whole.generators[0].target) if isinstance(n_, ast.Name)}
                            used = {n_.id for n_ in ast.walk(whole.elt) if isinstance(n_, ast.Name)}
                            ok8 = bool(cv & used)
                            why8 = "" if ok8 else "the list of names does not depend on its index"
                        else:
                            why8 = "the sliced list of names is not built once, before the batch loop, as a comprehension over the global index"
                    elif isinstance(sx, ast.Subscript) and isinstance(sx.slice, ast.Slice):
                        why8 = f"the names of a batch are the slice `{norm(sx)[:60]}`, which does not start at the batch start: batches share names"
                    elif isinstance(sx, ast.ListComp) and len(sx.generators) == 1:
                        # names built inside the loop: they must be a function of the GLOBAL index (the element mentions batch_start, or the
                        # comprehension runs over range(batch_start, ...) / a slice starting at batch_start) - a count of files is not enough
                        g_ = sx.generators[0]
                        mentions = lambda e_: any(isinstance(n_, ast.Name) and n_.id == bvar for n_ in ast.walk(e_))  # noqa: E731
                        it_ = g_.iter
                        from_start = (isinstance(it_, ast.Call) and dotted(it_.func) == "range" and len(it_.args) >= 2 and mentions(it_.args[0])) or \
                            (isinstance(it_, ast.Subscript) and isinstance(it_.slice, ast.Slice) and it_.slice.lower is not None and mentions(it_.slice.lower))
                        ok8 = mentions(sx.elt) or from_start
                        why8 = "" if ok8 else (f"the names of a batch are numbered from 0 in every batch (`{norm(sx)[:80]}`): a later batch re-opens (and truncates) "
                                               "the files of the first")
                    elif any(isinstance(n_, ast.Name) and n_.id == bvar for n_ in ast.walk(sx)):
                        ok8 = True
                    else:
                        why8 = f"the names of a batch (`{norm(sx)[:70]}`) do not depend on the batch start: a later batch re-opens (and truncates) the files of the first"
                elif any(isinstance(n_, ast.Name) and n_.id == bvar for n_ in ast.walk(fl8.expand(name_arg, fl8.cfg.node_for(lp.body[0]), stop={bvar}))):
                    ok8 = True
                (res.ok if ok8 else res.bad)("O8", f, c, "each batch opens the slice [batch_start:batch_end] of one list of distinct names" if ok8 else why8, key=key)
    if n8 < 2:
        raise AnalysisError(f"only {n8} batched writer sites found (extract_chans, extract_bands)")
    res.floor("O8", 2)
    res.floor("O1a", 1)
    res.floor("O1b", 1)
    res.floor("O4", 12)
    res.floor("O2c", 12)
    res.floor("O5", 1)
    res.floor("O7", 13)


def _write_mode(a: ast.AST) -> bool:
    import re
    return (isinstance(a, ast.Constant) and isinstance(a.value, str) and re.fullmatch(r"[rwxabt+]{1,4}", a.value) is not None
            and any(ch in a.value for ch in "wax+"))


def _accumulators(f: FuncInfo, loop) -> set[str]:
    """Names that collect per-iteration data across iterations: .append/.extend inside the loop."""
    out = set()
    for sub in ast.walk(loop.node):
        if isinstance(sub, ast.Call) and isinstance(sub.func, ast.Attribute) and sub.func.attr in ("append", "extend") \
                and isinstance(sub.func.value, ast.Name):
            out.add(sub.func.value.id)
    return out


B = "sigpyproc/base.py"
MUTANTS = [
    {"id": "c20-batch-names-local-index", "file": "sigpyproc/base.py", "expect": "C20.O8",
     "old": "            batch_files = filenames[batch_start:batch_end]\n\n            with ExitStack() as stack:\n                out_files = [\n                    stack.enter_context(\n                        self.header.prep_outfile(\n                            filename,\n                            updates={\n                                \"nchans\": chanpersub,",
     "new": "            batch_files = filenames[: batch_end - batch_start]\n\n            with ExitStack() as stack:\n                out_files = [\n                    stack.enter_context(\n                        self.header.prep_outfile(\n                            filename,\n                            updates={\n                                \"nchans\": chanpersub,"},
    {"id": "c20-buffered-opener", "file": "sigpyproc/io/fileio.py", "expect": "C20.O3a",
     "old": "self.opener = io.FileIO", "new": "self.opener = open"},
    {"id": "c20-mode-rplus", "file": "sigpyproc/header.py", "expect": "C20.O2b",
     "old": "            mode=\"w+\",\n            nbits=nbits,", "new": "            mode=\"r+\",\n            nbits=nbits,"},
    {"id": "c20-header-after-return-path", "file": "sigpyproc/header.py", "expect": "C20.O1b",
     "old": "        out_file.write(new_hdr_binary)\n        return out_file",
     "new": "        if nbits != 1:\n            out_file.write(new_hdr_binary)\n        return out_file"},
    {"id": "c20-collect-blocks", "file": B, "expect": "C20.O4",
     "old": "            out_ar = kernels.invert_freq(data, self.header.nchans, nsamps_r)\n            out_file.cwrite(out_ar)\n        out_file.close()",
     "new": "            out_ar = kernels.invert_freq(data, self.header.nchans, nsamps_r)\n            blocks.append(out_ar)\n        out_file.cwrite(np.concatenate(blocks))\n        out_file.close()"},
    {"id": "c20-edit-header-in-lib", "file": B, "expect": "C20.O",
     "old": "            out_file.cwrite(data)\n        out_file.close()\n        return outfile_name\n\n    def extract_chans(",
     "new": "            out_file.cwrite(data)\n        out_file.close()\n        sigproc.edit_header(outfile_name, \"tstart\", self.header.mjd_after_nsamps(start))\n        return outfile_name\n\n    def extract_chans("},
    {"id": "c20-direct-filewriter", "file": "sigpyproc/block.py", "expect": "C20.O1a",
     "old": "        out_file = self.header.prep_outfile(filename, updates=updates, nbits=32)\n",
     "new": "        out_file = FileWriter(filename, mode=\"w\", nbits=32)\n"},
    {"id": "c20-seek-in-writer", "file": "sigpyproc/io/fileio.py", "expect": "C20.O2a",
     "old": "        self.file_obj.write(bo)", "new": "        self.file_obj.seek(0)\n        self.file_obj.write(bo)"},
    {"id": "c20-holder-seeks", "file": B, "expect": "C20.O2c",
     "old": "            out_file.cwrite(write_ar)\n        return outfile_name",
     "new": "            out_file.cwrite(write_ar)\n        out_file.file_obj.seek(0)\n        return outfile_name"},
    {"id": "c20-stale-block", "file": B, "expect": "C20.O4",
     "old": "            kernels.mask_channels(data, mask, mask_value, self.header.nchans, nsamps_r)\n            out_file.cwrite(data)",
     "new": "            kernels.mask_channels(data, mask, mask_value, self.header.nchans, nsamps_r)\n            out_file.cwrite(mask.astype(self.header.dtype))"},
    {"id": "c20-nsamples-true-div", "file": "sigpyproc/io/sigproc.py", "expect": "C20.O6",
     "old": "8 * int(header[\"datalen\"]) // int(header[\"nbits\"]) // int(header[\"nchans\"])",
     "new": "round(8 * int(header[\"datalen\"]) / int(header[\"nbits\"]) / int(header[\"nchans\"]))"},
    {"id": "c20-new-direct-fil-writer", "file": "sigpyproc/block.py", "expect": "C20.O4b",
     "old": "        out_file.cwrite(self.data.transpose().ravel())\n        return filename",
     "new": "        out_file.cwrite(self.data.transpose().ravel())\n        self.data.tofile(filename + \".raw\")\n        return filename"},
    {"id": "c20-two-tofile", "file": "sigpyproc/io/fileio.py", "expect": "C20.O3d",
     "old": "            packed.tofile(self.file_obj)\n        else:",
     "new": "            packed.tofile(self.file_obj)\n            packed[:0].tofile(self.file_obj)\n        else:"},
]
TWINS = [
    {"id": "c20-twin-with-form", "file": B,
     "old": "            nbits=self.header.nbits,\n        )\n        for _, _, data in self.read_plan(\n            gulp=gulp,\n            start=start,\n            nsamps=nsamps,\n            **plan_kwargs,\n        ):\n            out_file.cwrite(data)\n        out_file.close()\n        return outfile_name",
     "new": "            nbits=self.header.nbits,\n        )\n        with out_file:\n            for _, _, data in self.read_plan(\n                gulp=gulp,\n                start=start,\n                nsamps=nsamps,\n                **plan_kwargs,\n            ):\n                out_file.cwrite(data)\n        return outfile_name"},
    {"id": "c20-twin-temp-var", "file": B,
     "old": "            out_file.cwrite(out_ar[: nsamps_r * self.header.nchans])",
     "new": "            nout = nsamps_r * self.header.nchans\n            block_out = out_ar[:nout]\n            out_file.cwrite(block_out)"},
    {"id": "c20-twin-hdr-inline", "file": "sigpyproc/header.py",
     "old": "        new_hdr_binary = sigproc.encode_header(new_hdr.to_sigproc())\n        out_file.write(new_hdr_binary)",
     "new": "        out_file.write(sigproc.encode_header(new_hdr.to_sigproc()))"},
]
