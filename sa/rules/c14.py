"""C14 - time-domain filters and decimators equal their definitions (structural clauses)."""
from __future__ import annotations

import ast

from .. import kernelspec
from ..dataflow import flow_of
from ..model import AnalysisError, Program, body_walk, calls_in_body, dotted, norm
from ..poly import Poly, PolyEnv
from ..report import Result

TITLE = "Time-domain filters and decimators equal their definitions"
LEVEL = "other"
TECHNIQUE = "static analysis: kernel-vs-reference comparison, length algebra by window parity, dispatch and header agreement"
EXPLANATION = (
    "Decides: (R1) downsample_1d_mean and downsample_2d_mean_flat equal their reference definitions (mean of each "
    "consecutive full group, remainder dropped by floor division, float64 accumulator, true division), the *_parallel twins "
    "are compiled from the very same Python functions, and the median paths reshape exactly the full groups; (R2) "
    "running_filter pads symmetrically by (w//2, w//2) for odd and (w//2, w//2-1) for even windows - w-1 samples in total "
    "for both parities, proved by substituting w = 2k+1 and w = 2k - runs the bottleneck moving filter with that window "
    "and drops the first w-1 outputs, so the output has the input's length for every width; (R3) deredden subtracts the "
    "running filter of the same data, detrend_1d equals the closed-form least-squares reference, and the decimating "
    "container methods scale tsamp/nsamples consistently (shared with C08). Not decided: window centring, median values, "
    "detrend values. "
    "Since F47, the reference of detrend_1d takes its closed-form sums in float(m): an integer cubic in the length differs from it (R3)."
    " Since F54: the mean decimators (serial and parallel twins) are not compiled with fastmath, because their quotient is truncated into the sample type (R1); Filterbank.downsample's C07 obligations are re-evaluated (R2)."
)
K = "sigpyproc.core.kernels"
S = "sigpyproc.core.stats"


def run(prog: Program, res: Result, tier: str) -> None:
    prog.consulted.update({K, S, "sigpyproc.timeseries", "sigpyproc.block"})
    for name in ("downsample_1d_mean", "downsample_2d_mean_flat", "detrend_1d"):
        fn = prog.func(K, name)
        verdict, why = kernelspec.compare(fn)
        if verdict == "incomparable":
            raise AnalysisError(f"kernel {name} cannot be compared with its reference definition: {why[0]}")
        (res.ok if verdict == "same" else res.bad)("R1" if name != "detrend_1d" else "R3", fn, fn.node, ("; ".join(why))[:500], construct=name, key=name)
        if name != "detrend_1d":
            loc = (fn.numba or {}).get("locals", {})
            ok = loc.get("temp") in ("types.f8", "types.float64", "float64")
            (res.ok if ok else res.bad)("R1", fn, fn.node, "the group sum is accumulated in float64 (locals temp: f8)" if ok else
                                        f"{name}: the accumulator is no longer typed float64 in numba locals ({loc})", construct=f"{name}:acc", key=f"{name}:acc")
    # the quotient temp / factor is truncated into the sample type: fastmath would let LLVM multiply by the reciprocal,
    # and 49 * 100 * (1 / 49.) = 99.99.. truncates to 99 (F54) - the division must be the IEEE one
    for name in ("downsample_1d_mean", "downsample_2d_mean_flat"):
        fn = prog.func(K, name)
        fm = bool((fn.numba or {}).get("fastmath"))
        (res.bad if fm else res.ok)("R1", fn, fn.node, f"{name} is compiled with fastmath: the mean's division may become a multiplication by the reciprocal, and "
                                    "an exact integer mean then truncates to one less" if fm else f"{name}: IEEE division (no fastmath) before the truncation into the sample type",
                                    construct=f"{name}:division", key=f"{name}:division")
    for tw in ("downsample_1d_mean_parallel", "downsample_2d_mean_parallel"):
        fm = bool(prog.module(K).njit_twins.get(tw, {}).get("fastmath"))
        node_ = prog.const(K, tw) if tw in prog.module(K).consts else None
        (res.bad if fm else res.ok)("R1", None, node_, f"{tw} is compiled with fastmath: an exact integer mean may truncate to one less" if fm else
                                    f"{tw}: IEEE division (no fastmath)", construct=f"{tw}:division", key=f"{tw}:division", where=f"{K}::{tw}")
    twins = prog.module(K).njit_twins
    for tw, of in (("downsample_1d_mean_parallel", "downsample_1d_mean"), ("downsample_2d_mean_parallel", "downsample_2d_mean_flat")):
        ok = tw in twins and twins[tw]["of"] == of
        node = prog.const(K, tw) if tw in prog.module(K).consts else None
        okl = node is not None and "locals={'temp': types.f8}" in norm(node)
        (res.ok if ok and okl else res.bad)("R1", None, node, f"{tw} = njit({of}.py_func, ..., locals temp: f8)" if ok and okl else
                                            f"{tw} is not compiled from {of}.py_func with the float64 accumulator", construct=tw, key=tw, where=f"{K}::{tw}")
    # wrappers in stats: compared with their reference definitions (modulo temporaries / normal form)
    for name in ("downsample_1d", "downsample_2d", "downsample_2d_flat"):
        fn = prog.func(S, name)
        verdict, why = kernelspec.compare(fn, name)
        if verdict == "incomparable":
            raise AnalysisError(f"{name} cannot be compared with its reference definition: {why[0]}")
        (res.ok if verdict == "same" else res.bad)("R1", fn, fn.node, (f"{name}: mean -> kernel with the same slots; median over exactly the full groups; "
                                                                      if verdict == "same" else "") + ("; ".join(why))[:500], construct=name, key=name)

    # ---- R2 running_filter length algebra --------------------------------------------------------------
    rf = prog.func(S, "running_filter")
    key = "running_filter:pad"
    frf = flow_of(rf)
    padc = [c for c in calls_in_body(rf.node) if dotted(c.func) == "np.pad"]
    pad_arg = None
    if len(padc) == 1:
        pad_arg = next((k.value for k in padc[0].keywords if k.arg == "pad_width"), padc[0].args[1] if len(padc[0].args) > 1 else None)
    ex = frf.expand(pad_arg, frf.cfg.node_for(padc[0])) if pad_arg is not None else None

    from ..normalform import canon as _canon

    def odd_branch(test: ast.AST):
        """-> True if the test holds for odd windows, False if for even windows, None if it is not a parity test of `window`."""
        c = _canon(test)
        par = ("Mod(window, 2)", "BitAnd(1, window)", "BitAnd(window, 1)")
        if c in par or c in {f"cmp[Eq](1, {p})" for p in par} or c in {f"cmp[NotEq](0, {p})" for p in par}:
            return True
        if c in {f"not ({p})" for p in par} or c in {f"cmp[Eq](0, {p})" for p in par} or c in {f"cmp[NotEq](1, {p})" for p in par}:
            return False
        return None

    if not (isinstance(ex, ast.IfExp) and odd_branch(ex.test) is not None):
        res.bad("R2", rf, padc[0] if padc else rf.node, "pad sizes are no longer chosen by window parity", construct="pad_size", key=key)
    else:
        odd_first = odd_branch(ex.test)
        k = Poly.sym("k")
        good = True
        detail = []
        for branch, w in ((ex.body if odd_first else ex.orelse, k.scale(2) + Poly.const(1)), (ex.orelse if odd_first else ex.body, k.scale(2))):
            if not (isinstance(branch, ast.Tuple) and len(branch.elts) == 2):
                good = False
                break

            def ev(e):
                # window // 2 == k for window in {2k, 2k+1} (canonical form: divmod(window, 2)[0] is window // 2)
                return PolyEnv().poly(e).subst("FloorDiv(window, 2)", k).subst("window", w)
            tot = ev(branch.elts[0]) + ev(branch.elts[1])
            detail.append(f"w={w.canon()}: pad total {tot.canon()}")
            if tot != w - Poly.const(1):
                good = False
        if good:
            res.ok("R2", rf, padc[0], "left+right padding = window-1 for odd and even windows (" + "; ".join(detail) + ")", key=key)
        else:
            res.bad("R2", rf, padc[0], "left+right padding is not window-1 for both parities (" + "; ".join(detail) + "): output length differs "
                    "from the input length", key=key)
    verdict, why = kernelspec.compare(rf, "running_filter")
    if verdict == "incomparable":
        raise AnalysisError(f"running_filter cannot be compared with its reference definition: {why[0]}")
    (res.ok if verdict == "same" else res.bad)(
        "R2", rf, rf.node, ("symmetric padding by the parity-dependent sizes, moving filter of the caller's width over the padded series, first "
                            "window-1 outputs dropped; " if verdict == "same" else "running_filter differs from its definition: ") + ("; ".join(why))[:500],
        construct="running_filter", key="running_filter:definition")

    # ---- R3 deredden / containers ----------------------------------------------------------------------------
    from ..normalform import canon, returned
    dr = prog.func("sigpyproc.timeseries", "TimeSeries.deredden")
    filt = "stats.running_filter{}(self.data, round(window / self.header.tsamp), method=method)"
    wants = {canon(f"TimeSeries(self.data - ({filt.format('_fast')} if fast else {filt.format('')}), self.header)"),
             canon(f"TimeSeries(self.data - {filt.format('')}, self.header)")}
    got = returned(dr)
    ok = bool(got) and all(g in wants for g in got)
    (res.ok if ok else res.bad)("R3", dr, dr.node, "deredden = data - running_filter(data, round(window/tsamp))" if ok else
                                f"deredden no longer subtracts the running filter of the same data: returns {got}", construct="deredden", key="deredden")
    td = prog.func("sigpyproc.timeseries", "TimeSeries.downsample")
    dec = "stats.downsample_1d(self.data, factor, method=filter_method)"
    want = canon(f"TimeSeries({dec}, self.header.new_header({{'tsamp': self.header.tsamp * factor, 'nsamples': len({dec})}}))")
    got = [g for g in returned(td) if g != "self"]
    ok = got == [want]
    (res.ok if ok else res.bad)("R3", td, td.node, "TimeSeries.downsample: decimated data with tsamp*factor and nsamples=len" if ok else
                                f"TimeSeries.downsample header/data bookkeeping changed: returns {got}", construct="TimeSeries.downsample", key="ts.downsample")
    bd = prog.func("sigpyproc.block", "FilterbankBlock.downsample")
    got = returned(bd)
    ok = bool(got) and all(g.startswith(canon("FilterbankBlock(stats.downsample_2d(self.data, (ffactor, tfactor), filter_method), X)")[:-3]) for g in got)
    (res.ok if ok else res.bad)("R3", bd, bd.node, "block.downsample: axis 0 (channels) by ffactor, axis 1 (time) by tfactor" if ok else
                                "block.downsample no longer passes (ffactor, tfactor) for (channel, time) axes", construct="block.downsample", key="block.downsample")
    rff = prog.func(S, "running_filter_fast")
    v_, why_ = kernelspec.compare(rff, "running_filter_fast")
    if v_ == "incomparable":
        raise AnalysisError(f"running_filter_fast cannot be compared with its reference definition: {why_[0]}")
    (res.ok if v_ == "same" else res.bad)("R2", rff, rff.node, ("; ".join(why_))[:600], construct="running_filter_fast", key="running_filter_fast")
    from ..report import depends as _depends
    _depends(res, "R2", prog, tier, "C07", accept=lambda o: "Filterbank.downsample" in (o.where or "") and o.rule in ("C07.R2", "C07.R4", "C07.R5"),
             why="Filterbank.downsample decimates gulp by gulp: C07's rules for it (gulp a multiple of the time factor, factor roles, what is written) are re-evaluated here")
    res.floor("R1", 9)
    res.floor("R2", 2)
    res.floor("R3", 4)


KF = "sigpyproc/core/kernels.py"
SF = "sigpyproc/core/stats.py"
MUTANTS = [
    {"id": "c14-revert-F47", "file": "sigpyproc/core/kernels.py", "expect": "C14.R3",
     "old": "    x_sq_sum = mf * (mf - 1) * (2 * mf - 1) / 6\n", "new": "    x_sq_sum = m * (m - 1) * (2 * m - 1) / 6\n"},
    {"id": "c14-ds1d-int-div", "file": KF, "expect": "C14.R1",
     "old": "        result[isamp] = temp / factor\n", "new": "        result[isamp] = temp // factor\n"},
    {"id": "c14-ds1d-start", "file": KF, "expect": "C14.R1",
     "old": "        start = isamp * factor\n", "new": "        start = isamp * factor + 1\n"},
    {"id": "c14-ds1d-acc-f4", "file": KF, "expect": "C14.R1",
     "old": "@njit(cache=True, locals={\"temp\": types.f8})\ndef downsample_1d_mean(", "new": "@njit(cache=True, locals={\"temp\": types.f4})\ndef downsample_1d_mean("},
    {"id": "c14-pad-even-symmetric", "file": SF, "expect": "C14.R2",
     "old": "(window // 2, window // 2) if window % 2 else (window // 2, window // 2 - 1)", "new": "(window // 2, window // 2) if window % 2 else (window // 2, window // 2)"},
    {"id": "c14-slice-window", "file": SF, "expect": "C14.R2",
     "old": "    return filtered_ar[window - 1 :]", "new": "    return filtered_ar[window:]"},
    {"id": "c14-pad-reflect", "file": SF, "expect": "C14.R2",
     "old": "    padded_ar = np.pad(array, pad_size, \"symmetric\")", "new": "    padded_ar = np.pad(array, pad_size, \"reflect\")"},
    {"id": "c14-median-groups", "file": SF, "expect": "C14.R1",
     "old": "        nsamps_new = (array.size // factor) * factor\n", "new": "        nsamps_new = array.size // factor\n"},
    {"id": "c14-deredden-other-data", "file": "sigpyproc/timeseries.py", "expect": "C14.R3",
     "old": "        tim_deredden = self.data - tim_filter", "new": "        tim_deredden = tim_filter - self.data"},
    {"id": "c14-detrend-slope", "file": KF, "expect": "C14.R3",
     "old": "    x_sq_sum = mf * (mf - 1) * (2 * mf - 1) / 6", "new": "    x_sq_sum = mf * (mf + 1) * (2 * mf + 1) / 6"},
    {"id": "c14-block-ds-axes", "file": "sigpyproc/block.py", "expect": "C14.R3",
     "old": "new_ar = stats.downsample_2d(self.data, (ffactor, tfactor), filter_method)", "new": "new_ar = stats.downsample_2d(self.data, (tfactor, ffactor), filter_method)"},
    {"id": "c14-2d-median-axes", "file": SF, "expect": "C14.R1",
     "old": "        result = np.median(arr_2d.reshape(new_shape), axis=(1, 3))", "new": "        result = np.median(arr_2d.reshape(new_shape), axis=(0, 2))"},
]
MUTANTS += [
    {"id": "c14-window-clamped", "file": SF, "expect": "C14.R2",
     "old": "    pad_size = (\n        (window // 2, window // 2) if window % 2", "new": "    window = min(window, array.size)\n    pad_size = (\n        (window // 2, window // 2) if window % 2"},
]
MUTANTS += [
    {"id": "c14-revert-F54", "file": KF, "expect": "C14.R1",
     "old": "@njit(cache=True, locals={\"temp\": types.f8})\ndef downsample_2d_mean_flat(", "new": "@njit(cache=True, fastmath=True, locals={\"temp\": types.f8})\ndef downsample_2d_mean_flat("},
    {"id": "c14-parallel-twin-fastmath", "file": KF, "expect": "C14.R1",
     "old": "    downsample_1d_mean.py_func,\n    parallel=True,\n", "new": "    downsample_1d_mean.py_func,\n    parallel=True,\n    fastmath=True,\n"},
]
MUTANTS += [
    {"id": "c14-fast-filter-shortcut-on-window", "file": "sigpyproc/core/stats.py", "expect": "C14.R2",
     "old": "    ds_factor = int(max(1, window / min_points))\n    if ds_factor == 1:\n        return running_filter(array, window, method)", "new": "    if window <= min_points:\n        return running_filter(array, window, method)\n    ds_factor = int(max(1, window / min_points))"},
]
TWINS = [
    {"id": "c14-twin-running-inline", "file": SF,
     "old": "    filtered_ar = filter_func(padded_ar, window)\n    return filtered_ar[window - 1 :]", "new": "    return filter_func(padded_ar, window)[window - 1 :]"},
    {"id": "c14-twin-ds1d-commuted", "file": KF,
     "old": "            temp += array[start + ifactor]\n", "new": "            temp += array[ifactor + start]\n"},
]
