"""C01 - gulped reading delivers every requested sample exactly once (structural clauses)."""
from __future__ import annotations

import ast

from ..cfg import always_raises
from ..dataflow import flow_of
from ..model import AnalysisError, FuncInfo, Program, body_walk, calls_in_body, dotted, norm, parent
from ..poly import Poly, PolyEnv
from ..props import inline_props, transparent_casts
from ..report import Result
from ..stream import all_plan_loops

TITLE = "Gulped reading delivers every requested sample exactly once, in order"
LEVEL = "other"
TECHNIQUE = "static analysis: CFG dominance, def-use dependence and canonical-form algebra on both read_plan implementations"
EXPLANATION = (
    "Decides the structural necessary conditions of gulped reading in FilReader.read_plan and PFITSReader.read_plan: "
    "the skipback>=effective-gulp ValueError guard dominates every I/O effect and every yield and tests the same "
    "definitions the plan uses (R1); each read is bounded by the block planned for that iteration (R2); a short read "
    "raises before the yield (R3); the rewind is a relative seek by exactly -skipback samples in bytes (R4); the "
    "yielded count, index and view agree with the planned block (R5); buffer sizes and the byte-count comparison are "
    "gulp*bytes-per-sample / block*bytes-per-element (R6); the library's own skipback plans raise gulp to "
    ">= 2*skipback first (R7); the plan skeleton has stride gulp-skipback, full blocks of gulp samples and a final "
    "partial block (R8); the stream primitives it relies on for multi-file sets - relative seek = position + offset, position = "
    "in-file position + data of the preceding files, offset -> (file, in-file offset), advance-to-next-file loops - are the "
    "ones C02 certifies (R9). Not decided: the integer arithmetic of the plan over all (nsamps, gulp, skipback) - a "
    "Presburger statement in general; the one instance found by reading (F02: a single `if` correction of the remainder lets "
    "full blocks run past the range when gulp/2 < skipback < gulp) is covered by R8's requirement that the correction be a loop - "
    "and sample values."
)
READERS = "sigpyproc.readers"


class PlanModel:
    """Structure of one read_plan implementation."""

    def __init__(self, prog: Program, fn: FuncInfo):
        self.prog = prog
        self.fn = fn
        self.flow = flow_of(fn, prog)
        self.cfg = self.flow.cfg
        fors = [s for s in body_walk(fn.node) if isinstance(s, ast.For)]
        yields = [s for s in body_walk(fn.node) if isinstance(s, ast.Yield)]
        if len(yields) != 1:
            raise AnalysisError(f"{fn.ident}: expected one yield, found {len(yields)}")
        self.yield_ = yields[0]
        loop = None
        for f_ in fors:
            if any(y is self.yield_ for y in ast.walk(f_)):
                loop = f_
        if loop is None:
            raise AnalysisError(f"{fn.ident}: the yield is not inside a loop")
        self.loop = loop
        it = loop.iter
        if isinstance(it, ast.Call) and it.args and isinstance(it.args[0], ast.Name):  # track(blocks, ...)
            it = it.args[0]
        if not isinstance(it, ast.Name):
            raise AnalysisError(f"{fn.ident}: plan loop does not iterate a named list")
        self.list_name = it.id
        if not (isinstance(loop.target, ast.Tuple) and all(isinstance(e, ast.Name) for e in loop.target.elts)):
            raise AnalysisError(f"{fn.ident}: plan loop target is not a tuple of names")
        self.targets = [e.id for e in loop.target.elts]
        # the plan list: a run of "full" blocks produced once per index of a range (list comprehension, or a loop that
        # appends one tuple per index) followed by conditionally appended "last" blocks
        ds = [d for d in self.flow.reaching(self.list_name, self.cfg.node_for(loop)) if d.kind == "assign"]
        if len(ds) != 1:
            raise AnalysisError(f"{fn.ident}: plan list has {len(ds)} initial definitions")
        init = ds[0]
        n = len(self.targets)
        self.full_elts = None
        self.lasts: list[tuple[list[ast.AST], ast.AST]] = []

        def as_tuple(e: ast.AST, at: ast.AST) -> list[ast.AST] | None:
            ex = e if isinstance(e, ast.Tuple) else self.flow.expand(e, self.cfg.node_for(at), depth=1)
            return list(ex.elts) if isinstance(ex, ast.Tuple) and len(ex.elts) == n else None

        if isinstance(init.value, ast.ListComp):
            comp = init.value
            if not isinstance(comp.elt, ast.Tuple) or len(comp.elt.elts) != n or len(comp.generators) != 1 or comp.generators[0].ifs:
                raise AnalysisError(f"{fn.ident}: plan comprehension element does not match the loop target")
            gen = comp.generators[0]
            self.full_elts = list(comp.elt.elts)
            self.comp_stmt = init.stmt
            self.comp_var = gen.target.id if isinstance(gen.target, ast.Name) else None
            self.comp_range = gen.iter
        elif not (isinstance(init.value, ast.List) and not init.value.elts or
                  isinstance(init.value, ast.Call) and dotted(init.value.func) == "list" and not init.value.args):
            raise AnalysisError(f"{fn.ident}: plan list is not built from a comprehension or an empty list")
        apps = [c for c in calls_in_body(fn.node) if isinstance(c.func, ast.Attribute) and c.func.attr == "append"
                and dotted(c.func.value) == self.list_name and len(c.args) == 1]
        other = [c for c in calls_in_body(fn.node) if isinstance(c.func, ast.Attribute) and dotted(c.func.value) == self.list_name
                 and c.func.attr in ("extend", "insert", "pop", "remove", "clear", "reverse", "sort", "__setitem__")]
        if other:
            raise AnalysisError(f"{fn.ident}: plan list is modified by `{norm(other[0])[:50]}`")
        self.appends = []
        for a in apps:
            elts = as_tuple(a.args[0], a)
            if elts is None:
                raise AnalysisError(f"{fn.ident}: `{norm(a)[:50]}` does not append a {n}-tuple")
            cur = parent(a)
            encl = None
            while cur is not None and cur is not fn.node:
                if isinstance(cur, (ast.For, ast.While)):
                    encl = cur
                    break
                cur = parent(cur)
            if encl is None:
                self.lasts.append((elts, a))
                self.appends.append(a)
            elif isinstance(encl, ast.For) and self.full_elts is None and isinstance(encl.target, ast.Name) and not encl.orelse and \
                    self.cfg.dominates(self.cfg.node_for(a), self.cfg.node_for(encl.body[-1])):
                self.full_elts = elts
                self.comp_stmt = parent(a) if isinstance(parent(a), ast.stmt) else a
                self.comp_var = encl.target.id
                self.comp_range = encl.iter
            else:
                raise AnalysisError(f"{fn.ident}: plan blocks are appended inside a loop the model does not understand")
        if self.full_elts is None:
            raise AnalysisError(f"{fn.ident}: no run of full blocks found in the plan list")
        self.guards = [s for s in body_walk(fn.node) if isinstance(s, ast.If) and always_raises(s.body)]
        self.divmods = [s for s in body_walk(fn.node) if isinstance(s, ast.Assign) and isinstance(s.value, ast.Call)
                        and dotted(s.value.func) == "divmod" and not pm_in(loop, s)]
        self.cls = fn.cls

    def poly(self, expr: ast.AST, at=None, names=None, stop=None) -> Poly:
        at = self.cfg.node_for(at if at is not None else expr)
        ex = self.flow.expand(expr, at, stop=set(stop or ()) | set(self.targets))
        ex = inline_props(self.prog, self.cls, ex)
        return PolyEnv(names or {}, atom_hook=transparent_casts).poly(ex)

    def uses(self, expr: ast.AST, at=None) -> set[str]:
        """Loop targets that expr depends on through straight-line local definitions."""
        at = self.cfg.node_for(at if at is not None else expr)
        ex = self.flow.expand(expr, at, stop=set(self.targets))
        return {n.id for n in ast.walk(ex) if isinstance(n, ast.Name)} & set(self.targets)

    def target_values(self, idx: int) -> list[tuple[str, ast.AST, ast.AST]]:
        """Possible (origin, expr, context stmt) for loop target idx."""
        out = [("full", self.full_elts[idx], self.comp_stmt)]
        for elts, a in self.lasts:
            out.append(("last", elts[idx], a))
        return out


def _io_effects(pm: PlanModel) -> list[ast.Call]:
    names = {"seek", "creadinto", "cread", "allocate_buffer", "read_subints", "read_subint", "readinto"}
    out = []
    for c in calls_in_body(pm.fn.node):
        d = dotted(c.func) or ""
        if d.split(".")[-1] in names:
            out.append(c)
    return out


def check_reader(prog: Program, res: Result, fn: FuncInfo, kind: str) -> None:
    pm = PlanModel(prog, fn)
    flow, cfg = pm.flow, pm.cfg
    tag = fn.qualname

    # ---- R1 reject-before-yield -------------------------------------------------
    guard = None
    for g in pm.guards:
        deps = {n.id for n in ast.walk(g.test) if isinstance(n, ast.Name)}
        if "skipback" in deps and "gulp" in deps:
            guard = g
    if guard is None:
        res.bad("R1", fn, fn.node, "no ValueError guard comparing skipback with the gulp", construct=tag, key=f"{tag}:guard")
    else:
        t = guard.test
        okform = False
        if isinstance(t, ast.Compare) and len(t.ops) == 1:
            l, r, op = norm(t.left), norm(t.comparators[0]), t.ops[0]
            okform = (l == "skipback" and r == "gulp" and isinstance(op, ast.GtE)) or \
                     (l == "gulp" and r == "skipback" and isinstance(op, ast.LtE))
        if isinstance(t, ast.UnaryOp) and isinstance(t.op, ast.Not) and isinstance(t.operand, ast.Compare) and len(t.operand.ops) == 1:
            c = t.operand
            l, r, op = norm(c.left), norm(c.comparators[0]), c.ops[0]
            okform = (l == "skipback" and r == "gulp" and isinstance(op, ast.Lt)) or \
                     (l == "gulp" and r == "skipback" and isinstance(op, ast.Gt))
        raises_ve = any(isinstance(s, ast.Raise) and s.exc is not None and
                        dotted(s.exc.func if isinstance(s.exc, ast.Call) else s.exc) == "ValueError" for s in ast.walk(guard))
        key = f"{tag}:guard"
        if not okform or not raises_ve:
            res.bad("R1", fn, guard, "the plan guard is not `skipback >= gulp -> raise ValueError` (a plan with "
                    "skipback equal to the effective gulp has stride 0)", key=key)
        else:
            gn = cfg.node_for(guard)
            effects = _io_effects(pm) + [pm.yield_]
            late = [e for e in effects if not cfg.dominates(gn, cfg.node_for(e))]
            if late:
                res.bad("R1", fn, late[0], f"`{norm(late[0])[:60]}` can execute before the plan guard: a plan that must be "
                        f"rejected has already touched the stream or yielded", key=key)
            else:
                res.ok("R1", fn, guard, f"guard dominates all {len(effects)} I/O effects and the yield", key=key)
            # same definitions as the plan arithmetic
            if pm.divmods:
                dn = cfg.node_for(pm.divmods[0])
                same = all({id(d) for d in flow.reaching(v, gn)} == {id(d) for d in flow.reaching(v, dn)} for v in ("gulp", "skipback"))
                eff = any(isinstance(d.value, ast.Call) and dotted(d.value.func) == "min" and "nsamps" in norm(d.value)
                          for d in flow.reaching("gulp", gn))
                key2 = f"{tag}:guard-defs"
                if same and eff:
                    res.ok("R1", fn, guard, "guard tests the effective gulp min(nsamps, gulp) and |skipback| that the plan uses", key=key2)
                else:
                    res.bad("R1", fn, guard, "the guard does not test the same (effective) gulp / skipback values that the "
                            "plan arithmetic uses", key=key2)

    # ---- which loop target is the planned size / skip / index ------------------------
    yv = pm.yield_.value
    if not (isinstance(yv, ast.Tuple) and len(yv.elts) == 3):
        res.bad("R5", fn, pm.yield_, "yield is not a (count, index, data) triple", key=f"{tag}:yield")
        return
    ycount, yindex, ydata = yv.elts
    yn = cfg.node_for(pm.yield_)
    size_t = sorted(pm.uses(ycount, pm.yield_))
    if len(size_t) != 1:
        res.bad("R5", fn, pm.yield_, f"yielded count depends on loop targets {size_t}; expected exactly the planned size", key=f"{tag}:yield")
        return
    size_t = size_t[0]
    si = pm.targets.index(size_t)

    # ---- R2 bounded read -----------------------------------------------------------------
    reads = [c for c in calls_in_body(pm.loop) if (dotted(c.func) or "").split(".")[-1] in ("creadinto", "read_subints")]
    if not reads:
        res.bad("R2", fn, pm.loop, "no read primitive inside the plan loop", key=f"{tag}:read")
    for c in reads:
        cn = cfg.node_for(c)
        prim = dotted(c.func).split(".")[-1]
        key = f"{tag}:read:{prim}"
        if prim == "creadinto":
            buf = c.args[0] if c.args else None
            deps = pm.uses(buf, c) if buf is not None else set()
            if size_t in deps:
                res.ok("R2", fn, c, f"the buffer handed to creadinto depends on this iteration's planned size '{size_t}'", key=key)
            else:
                res.bad("R2", fn, c, f"creadinto fills len(buffer) bytes, but the buffer `{norm(buf)}` does not depend on the "
                        f"planned block '{size_t}': a short last block reads past the requested range", key=key)
            if len(c.args) > 1 or any(k.arg == "unpack_buffer" for k in c.keywords):
                ub = c.args[1] if len(c.args) > 1 else [k.value for k in c.keywords if k.arg == "unpack_buffer"][0]
                # unpack() demands size equality, so a bounded read needs a bounded unpack view as well
                udeps = pm.uses(ub, c)
                keyu = key + ":unpack"
                if size_t in deps and size_t not in udeps:
                    res.bad("R2", fn, c, "read buffer is bounded by the block but the unpack buffer is not: unpack() "
                            "rejects the size mismatch for sub-byte data", key=keyu)
                else:
                    res.ok("R2", fn, c, "unpack buffer bounded consistently with the read buffer", key=keyu)
        else:
            nsubs = c.args[1] if len(c.args) > 1 else None
            deps = pm.uses(nsubs, c) if nsubs is not None else set()
            # slice applied to the rows read
            sl_ok = False
            for s in body_walk(pm.loop):
                if isinstance(s, ast.Assign) and isinstance(s.value, ast.Subscript) and isinstance(s.value.slice, ast.Slice):
                    up = s.value.slice.upper
                    if up is not None and size_t in pm.uses(up, s):
                        sl_ok = True
            if size_t in deps and sl_ok:
                res.ok("R2", fn, c, f"rows read and the slice taken both depend on the planned size '{size_t}'", key=key)
            else:
                res.bad("R2", fn, c, f"the number of rows read / the slice taken does not depend on this iteration's planned "
                        f"size '{size_t}' (it uses the total request): blocks have the wrong length", key=key)

    # ---- R3 short-read check (byte-stream reader) ------------------------------------------
    if kind == "fil":
        for c in [c for c in reads if dotted(c.func).endswith("creadinto")]:
            st = parent(c)
            key = f"{tag}:shortread"
            if not (isinstance(st, ast.Assign) and isinstance(st.targets[0], ast.Name)):
                res.bad("R3", fn, c, "the byte count returned by creadinto is discarded", key=key)
                continue
            nb = st.targets[0].id
            checks = []
            for g in pm.guards:
                if pm_in(pm.loop, g):
                    gd = pm.uses(g.test, g)
                    tt = g.test
                    if nb in {n.id for n in ast.walk(tt) if isinstance(n, ast.Name)} and size_t in gd and \
                            isinstance(tt, ast.Compare) and len(tt.ops) == 1 and isinstance(tt.ops[0], ast.NotEq):
                        checks.append(g)
            if checks and cfg.must_pass(cfg.node_for(c), yn, {cfg.node_for(g) for g in checks}):
                res.ok("R3", fn, checks[0], "every path from the read to the yield passes `nbytes != expected -> raise`", key=key)
            else:
                res.bad("R3", fn, c, "a short read can reach the yield: no `!=` comparison of the returned byte count with the "
                        "planned size that raises on every path to the yield", key=key)
            # R6: expected bytes = block * chan_stride
            for g in checks:
                other = g.test.comparators[0] if norm(g.test.left) == nb else g.test.left
                p = pm.poly(other, g)
                want = Poly.sym(size_t) * pm.poly(ast.parse("self.chan_stride", mode="eval").body, g)
                key6 = f"{tag}:expected-bytes"
                if p == want:
                    res.ok("R6", fn, g, f"expected byte count = {size_t} * bytes-per-element", key=key6)
                else:
                    res.bad("R6", fn, g, f"expected byte count is {p.canon()}, not {want.canon()}", key=key6)

    # ---- R4 rewind -------------------------------------------------------------------------------
    skip_t = [t for i, t in enumerate(pm.targets) if i != si and t != norm(yindex)]
    skip_t = skip_t[0] if len(skip_t) == 1 else None
    if skip_t is None:
        res.bad("R4", fn, pm.loop, "cannot identify the plan's skip element", key=f"{tag}:rewind")
    else:
        ki = pm.targets.index(skip_t)
        full_skip = [v for o, v, s in pm.target_values(ki) if o == "full"][0]
        nch = pm.poly(ast.parse("self.header.nchans", mode="eval").body, pm.comp_stmt)
        if kind == "fil":
            seeks = [c for c in calls_in_body(pm.loop) if (dotted(c.func) or "").endswith(".seek")]
            key = f"{tag}:rewind"
            if len(seeks) != 1:
                res.bad("R4", fn, pm.loop, f"expected one rewinding seek in the loop, found {len(seeks)}", key=key)
            else:
                sk = seeks[0]
                wh = [k.value for k in sk.keywords if k.arg == "whence"] or sk.args[1:2]
                okwh = bool(wh) and isinstance(wh[0], ast.Constant) and wh[0].value == 1
                skipv = pm.poly(full_skip, pm.comp_stmt)
                off = pm.poly(sk.args[0], sk, names={skip_t: skipv})
                sampstride = pm.poly(ast.parse("self.samp_stride", mode="eval").body, sk)
                want = -(Poly.sym("abs(skipback)") * sampstride) if False else None
                sb = pm.poly(ast.parse("skipback", mode="eval").body, sk)
                want = -(sb * sampstride)
                before = cfg.must_pass(cfg.node_for(reads[0]) if reads else cfg.entry, yn, {cfg.node_for(sk)}) or _guarded_by_nonzero(sk, skip_t)
                if not okwh:
                    res.bad("R4", fn, sk, "the rewinding seek is not relative (whence=1)", key=key)
                elif off != want:
                    res.bad("R4", fn, sk, f"rewind offset is {off.canon()}, expected {want.canon()} (= -skipback samples in bytes)", key=key)
                elif not _precedes(cfg, sk, pm.yield_):
                    res.bad("R4", fn, sk, "the rewind happens after the yield (a consumer that stops early leaves the stream "
                            "position inconsistent; and the next block is read before rewinding)", key=key)
                else:
                    res.ok("R4", fn, sk, "relative seek by -skipback*nchans*bytes-per-element before the yield", key=key)
        else:
            # position variable advanced by block + skip
            augs = [s for s in body_walk(pm.loop) if isinstance(s, ast.AugAssign) and isinstance(s.op, ast.Add) and isinstance(s.target, ast.Name)]
            key = f"{tag}:advance"
            good = [s for s in augs if pm.poly(s.value, s) == Poly.sym(size_t) + Poly.sym(skip_t)]
            skipv = pm.poly(full_skip, pm.comp_stmt)
            sb = pm.poly(ast.parse("skipback", mode="eval").body, pm.comp_stmt)
            if len(good) == 1 and skipv == -sb and _precedes(cfg, good[0], pm.yield_):
                res.ok("R4", fn, good[0], "read position advances by block - skipback before the yield", key=key)
            else:
                res.bad("R4", fn, pm.loop, "the read position is not advanced by (block + skip) with skip = -skipback before the yield", key=key)

    # ---- R5 yield agreement ------------------------------------------------------------------------------
    key = f"{tag}:yield"
    okidx = norm(yindex) in pm.targets and pm.targets.index(norm(yindex)) == 0
    idx_vals = pm.target_values(0)
    okidx = okidx and norm(idx_vals[0][1]) == (pm.comp_var or "") and all(
        norm(v) == norm(pm.comp_range.args[0]) for o, v, s in idx_vals if o == "last") and \
        isinstance(pm.comp_range, ast.Call) and dotted(pm.comp_range.func) == "range" and len(pm.comp_range.args) == 1
    nchs = "self.header.nchans"
    # look through temporaries that only name the yielded count / view
    ycount = flow.expand(ycount, yn, stop=set(pm.targets))
    if isinstance(ydata, ast.Name):
        dd = flow.reaching(ydata.id, yn)
        if len(dd) == 1 and dd[0].kind == "assign" and isinstance(dd[0].value, (ast.Subscript, ast.Call)) and pm_in(pm.loop, dd[0].stmt):
            ydata = dd[0].value
    if kind == "fil":
        okcount = isinstance(ycount, ast.BinOp) and isinstance(ycount.op, ast.FloorDiv) and norm(ycount.left) == size_t and norm(ycount.right) == nchs
        okdata = isinstance(ydata, ast.Subscript) and isinstance(ydata.slice, ast.Slice) and ydata.slice.lower is None and \
            ydata.slice.upper is not None and norm(flow.expand(ydata.slice.upper, yn, stop=set(pm.targets))) == size_t and ydata.slice.step is None
        # the view must be of the buffer that the read/unpack fills
        okbuf = False
        if okdata and isinstance(ydata.value, ast.Name):
            dds = flow.reaching(ydata.value.id, yn)
            srcs = {norm(d.value) for d in dds if d.kind == "assign" and d.value is not None}
            okbuf = bool(srcs) and all(s.startswith("np.frombuffer(") for s in srcs)
            bufnames = set()
            for d in dds:
                if d.kind == "assign" and isinstance(d.value, ast.Call) and d.value.args:
                    bufnames.add(norm(d.value.args[0]))
            readargs = set()
            for c in reads:
                for a in list(c.args) + [k.value for k in c.keywords]:
                    readargs |= {n.id for n in ast.walk(a) if isinstance(n, ast.Name)}
            okbuf = okbuf and bufnames <= readargs
    else:
        okcount = norm(ycount) == size_t
        okdata = isinstance(ydata, ast.Call) and isinstance(ydata.func, ast.Attribute) and ydata.func.attr in ("ravel", "flatten")
        okbuf = True
    if okidx and okcount and okdata and okbuf:
        res.ok("R5", fn, pm.yield_, "yields (planned samples, block index, view of exactly the planned elements of the filled buffer)", key=key)
    else:
        what = [n for n, v in (("index", okidx), ("count", okcount), ("data view", okdata), ("buffer", okbuf)) if not v]
        res.bad("R5", fn, pm.yield_, f"yielded {', '.join(what)} do(es) not agree with the planned block", key=key)

    # ---- R6 buffer sizes / initial positioning --------------------------------------------------------------
    if kind == "fil":
        allocs = [c for c in calls_in_body(fn.node) if (dotted(c.func) or "").split(".")[-1] == "allocate_buffer"]
        g = pm.poly(ast.parse("gulp", mode="eval").body, pm.comp_stmt, stop={"gulp"})
        samp = pm.poly(ast.parse("self.samp_stride", mode="eval").body, pm.comp_stmt)
        nch = pm.poly(ast.parse("self.header.nchans", mode="eval").body, pm.comp_stmt)
        seen = {"read": False, "unpack": False}
        for c in allocs:
            if len(c.args) < 2:
                continue
            p = pm.poly(c.args[1], c, stop={"gulp"})
            asg = parent(c)
            nm = norm(asg.targets[0]) if isinstance(asg, ast.Assign) else "?"
            key = f"{tag}:alloc:{nm}"
            if p == g * samp:
                seen["read"] = True
                res.ok("R6", fn, c, "read buffer holds gulp * bytes-per-sample bytes", key=key)
            elif p == g * nch:
                seen["unpack"] = True
                res.ok("R6", fn, c, "unpack buffer holds gulp * nchans one-byte elements", key=key)
            else:
                res.bad("R6", fn, c, f"buffer size {p.canon()} is neither gulp*bytes-per-sample nor gulp*nchans", key=key)
        if not seen["read"]:
            res.bad("R6", fn, fn.node, "no read buffer of gulp*bytes-per-sample bytes is allocated", construct=tag, key=f"{tag}:alloc:none")
        first_seeks = [c for c in calls_in_body(fn.node) if (dotted(c.func) or "").endswith(".seek") and not pm_in(pm.loop, c)]
        key = f"{tag}:start-seek"
        st = Poly.sym("start")
        if len(first_seeks) == 1 and pm.poly(first_seeks[0].args[0], first_seeks[0]) == st * samp and \
                cfg.dominates(cfg.node_for(first_seeks[0]), cfg.node_for(pm.loop)):
            res.ok("R6", fn, first_seeks[0], "stream positioned at start * bytes-per-sample before the first read", key=key)
        else:
            res.bad("R6", fn, fn.node, "the stream is not positioned at start*bytes-per-sample before the loop", construct=tag, key=key)

    # ---- R8 plan skeleton ----------------------------------------------------------------------------------------
    key = f"{tag}:plan"
    unit = (pm.poly(ast.parse("self.header.nchans", mode="eval").body, pm.comp_stmt) if kind == "fil" else Poly.const(1))
    gsym = pm.poly(ast.parse("gulp", mode="eval").body, pm.comp_stmt, stop={"gulp"})
    sb = pm.poly(ast.parse("skipback", mode="eval").body, pm.comp_stmt, stop={"skipback"})
    problems = []
    if len(pm.divmods) != 1:
        problems.append("no single divmod plan")
    else:
        dm = pm.divmods[0]
        a0, a1 = dm.value.args
        if pm.poly(a1, dm, stop={"gulp", "skipback"}) != gsym - sb or norm(a0) != "nsamps":
            problems.append(f"plan stride is {norm(a1)} over {norm(a0)}, expected divmod(nsamps, gulp - skipback)")
        tnames = [norm(e) for e in dm.targets[0].elts] if isinstance(dm.targets[0], ast.Tuple) else []
        if len(tnames) == 2 and norm(pm.comp_range.args[0]) != tnames[0]:
            problems.append("the number of full blocks is not the divmod quotient")
    full_size = pm.poly(pm.full_elts[si], pm.comp_stmt, stop={"gulp", "skipback"})
    if full_size != gsym * unit:
        problems.append(f"full blocks have {full_size.canon()} elements, expected gulp*{unit.canon()}")
    lasts = [(v, s) for o, v, s in pm.target_values(si) if o == "last"]
    if len(lasts) != 1:
        problems.append("no single final partial block")
    else:
        v, s = lasts[0]
        lp = pm.poly(v, s, stop={"lastread", "gulp", "skipback"})
        if len(pm.divmods) == 1 and isinstance(pm.divmods[0].targets[0], ast.Tuple):
            rem = norm(pm.divmods[0].targets[0].elts[1])
            if lp != Poly.sym(rem) * unit:
                problems.append(f"final block has {lp.canon()} elements, expected {rem}*{unit.canon()}")
            from ..pathcond import path_conditions as _pcs

            def nonzero(e, pol):
                """the remainder is known to be non-zero (any spelling)"""
                if norm(e) == rem:
                    return pol
                if isinstance(e, ast.Compare) and len(e.ops) == 1 and {norm(e.left), norm(e.comparators[0])} == {rem, "0"}:
                    op = e.ops[0]
                    if isinstance(op, ast.NotEq):
                        return pol
                    if isinstance(op, ast.Eq):
                        return not pol
                    if isinstance(op, (ast.Gt, ast.Lt)):
                        # rem > 0 or 0 < rem (the remainder of a divmod by a positive stride is never negative)
                        return pol and ((isinstance(op, ast.Gt) and norm(e.left) == rem) or (isinstance(op, ast.Lt) and norm(e.left) == "0"))
                return False

            f_nz = _pcs(flow).truth(s, nonzero)
            # appended exactly when non-zero: guarded by that fact, and the test itself is evaluated on every path to the loop
            okguard = f_nz is not None and cfg.dominates(f_nz.test_node, cfg.node_for(pm.loop))
            if not okguard:
                problems.append("the final partial block is not appended exactly when the remainder is non-zero")
        ki2 = pm.targets.index(skip_t) if skip_t else None
        if ki2 is not None:
            lskip = [vv for o, vv, ss in pm.target_values(ki2) if o == "last"]
            if lskip and norm(lskip[0]) != "0":
                problems.append("the final block is followed by a rewind")
    # every full block must end inside the requested range: (nreads-1)*(g-s) + g <= nsamps  <=>  remainder >= skipback.
    # The quotient/remainder must therefore be corrected *until* remainder >= skipback (a loop), or plans with
    # skipback > gulp/2 must be rejected; a single `if` correction over-reads for gulp/2 < skipback < gulp.
    if len(pm.divmods) == 1 and isinstance(pm.divmods[0].targets[0], ast.Tuple):
        q, r = (norm(e) for e in pm.divmods[0].targets[0].elts)
        loops_ = [s for s in body_walk(fn.node) if isinstance(s, ast.While) and norm(s.test) in (f"{r} < skipback", f"skipback > {r}")]
        ifs_ = [s for s in body_walk(fn.node) if isinstance(s, ast.If) and norm(s.test) in (f"{r} < skipback", f"skipback > {r}")]
        half_guard = [g for g in pm.guards if norm(g.test) in ("2 * skipback > gulp", "skipback > gulp // 2", "skipback * 2 > gulp", "gulp < 2 * skipback")]
        corr = loops_ or ifs_
        if not corr:
            problems.append("the quotient/remainder are not corrected when the remainder is smaller than skipback (the last full block would end "
                            "past the requested range)")
        else:
            body = corr[0].body
            okdec = any(isinstance(s, ast.AugAssign) and norm(s.target) == q and isinstance(s.op, ast.Sub) and norm(s.value) == "1" for s in body) or \
                any(isinstance(s, ast.Assign) and norm(s.targets[0]) == q and norm(s.value) in (f"{q} - 1",) for s in body)
            env_ = PolyEnv()

            def val(s_):
                return env_.poly(flow.expand(s_.value, cfg.node_for(s_), stop={q, r, "nsamps", "gulp", "skipback"}))

            okrem = any(isinstance(s, ast.Assign) and norm(s.targets[0]) == r and
                        val(s) == env_.poly(ast.parse(f"nsamps - {q} * (gulp - skipback)", mode="eval").body) for s in body) or \
                any(isinstance(s, ast.AugAssign) and norm(s.target) == r and isinstance(s.op, ast.Add) and
                    val(s) == env_.poly(ast.parse("gulp - skipback", mode="eval").body) for s in body)
            if not (okdec and okrem):
                problems.append(f"the correction does not move one full block into the remainder ({q} -= 1; {r} = nsamps - {q}*(gulp-skipback))")
            if not loops_ and not half_guard:
                problems.append(f"the remainder is corrected only once (`if {r} < skipback`): for gulp/2 < skipback < gulp it can still be smaller than "
                                f"skipback, so full blocks run past the requested range (gulp=10, skipback=8, nsamps=11 reads up to sample 16) - "
                                f"iterate the correction or reject such plans")
    if problems:
        res.bad("R8", fn, pm.comp_stmt, "; ".join(problems), key=key)
    else:
        res.ok("R8", fn, pm.comp_stmt, "plan = quotient full blocks of gulp samples at stride gulp-skipback + one final block of the remainder", key=key)


def pm_in(loop: ast.AST, node: ast.AST) -> bool:
    cur = node
    while cur is not None:
        if cur is loop:
            return True
        cur = parent(cur)
    return False


def _guarded_by_nonzero(call: ast.Call, name: str) -> bool:
    cur = parent(call)
    while cur is not None and not isinstance(cur, ast.FunctionDef):
        if isinstance(cur, ast.If) and norm(cur.test) in (f"{name} != 0", name, f"{name} < 0"):
            return True
        cur = parent(cur)
    return False


def _precedes(cfg, a: ast.AST, b: ast.AST) -> bool:
    """Within one loop iteration a is before b: b is reachable from a without passing the loop header twice,
    and a is not reachable from b without going through the loop header."""
    na, nb = cfg.node_for(a), cfg.node_for(b)
    heads = {n for n in cfg.nodes() if cfg.kind[n] == "for"}
    return nb in cfg.reachable(na, avoid=heads) and na not in cfg.reachable(nb, avoid=heads)


def check_library_plans(prog: Program, res: Result) -> None:
    n = 0
    for pl in all_plan_loops(prog):
        sb = pl.kw("skipback")
        if sb is None:
            continue
        n += 1
        fn = pl.fn
        flow = flow_of(fn)
        cn = flow.cfg.node_for(pl.call)
        key = f"{fn.qualname}:skipback-plan"
        g = pl.kw("gulp")
        env = PolyEnv()
        want = env.poly(sb).scale(2)

        def is_clamp(v: ast.AST, gname: str | None) -> bool:
            return isinstance(v, ast.Call) and dotted(v.func) == "max" and len(v.args) == 2 and any(env.poly(a) == want for a in v.args) \
                and (gname is None or any(norm(a) == gname for a in v.args))
        ok = False
        if isinstance(g, ast.Name):
            ds = flow.reaching(g.id, cn)
            ok = len(ds) == 1 and ds[0].value is not None and is_clamp(ds[0].value, g.id)
        elif g is not None:
            ok = is_clamp(g, None)
        if ok:
            res.ok("R7", fn, pl.call, f"gulp = max(2*{norm(sb)}, gulp) reaches the read_plan call: skipback <= gulp/2", key=key)
        else:
            res.bad("R7", fn, pl.call, f"read_plan is given skipback={norm(sb)} but the gulp passed is not max(2*{norm(sb)}, gulp) "
                    f"on every path: the plan may be rejected or over-read", key=key)
    # (at least 3 callers pass skipback: enforced through the floor of R7, which is deferred to reported violations)


def run(prog: Program, res: Result, tier: str) -> None:
    prog.consulted.update({READERS, "sigpyproc.io.fileio", "sigpyproc.io.bits", "sigpyproc.base"})
    check_reader(prog, res, prog.func(READERS, "FilReader.read_plan"), "fil")
    check_reader(prog, res, prog.func(READERS, "PFITSReader.read_plan"), "pfits")
    check_library_plans(prog, res)
    # ---- R10: byte/element units the plan is written in ---------------------------------------------------------
    rd = prog.cls(READERS, "FilReader")
    bi = prog.cls("sigpyproc.io.bits", "BitsInfo")
    unit_defs = [
        (rd, "chan_stride", "self.bitsinfo.itemsize / self.bitsinfo.bitfact", "bytes per stored channel sample = itemsize / (samples per byte)"),
        (rd, "samp_stride", "int(self.header.nchans * self.chan_stride)", "bytes per time sample = nchans * bytes per channel sample"),
        (rd, "bitsinfo", "self._file.bitsinfo", "the reader's BitsInfo is the stream's"),
        (bi, "bitfact", "8 // self.nbits if self.unpack else 1", "samples per byte = 8 // nbits for packed depths, else 1"),
        (bi, "unpack", "bool(self.nbits in {1, 2, 4})", "packed depths are exactly 1, 2 and 4 bits"),
        (bi, "itemsize", "self.dtype.itemsize", "itemsize of the storage dtype"),
        (bi, "dtype", "np.dtype(nbits_to_dtype[self.nbits])", "storage dtype from the nbits_to_dtype table"),
    ]
    from ..props import property_expr
    for cls_, name, want, what in unit_defs:
        pe = property_expr(prog, cls_, name)
        m = cls_.methods.get(name)
        import re as _re
        # a table referenced through the module it lives in (`params.nbits_to_dtype`) is the same table
        pe_txt = _re.sub(r"\b[A-Za-z_]\w*\.nbits_to_dtype\b", "nbits_to_dtype", norm(pe)) if pe is not None else None
        ok = pe is not None and pe_txt == want
        if not ok and pe is not None:
            try:
                ok = PolyEnv(atom_hook=transparent_casts).poly(pe) == PolyEnv(atom_hook=transparent_casts).poly(ast.parse(want, mode="eval").body) and \
                    ("int(" in want) == ("int(" in norm(pe))
            except Exception:  # noqa: BLE001
                ok = False
        if not ok and pe is None and m is not None:
            # a property written with statements (early return for a conditional expression): the same values under the same conditions
            from ..normalform import canon as _cn10, cond as _cond10, normal_form as _nf10
            w_ = ast.parse(want, mode="eval").body
            if isinstance(w_, ast.IfExp):
                exp_ = {(_cn10(w_.body), (" ".join(_cond10(norm(w_.test))),)), (_cn10(w_.orelse), (" ".join(_cond10(f"not ({norm(w_.test)})")),))}
            else:
                exp_ = {(_cn10(w_), ())}
            try:
                got_ = {(e_.text(), tuple(sorted(e_.ctx))) for e_ in _nf10(m).returns()}
                ok = got_ == exp_
            except Exception:  # noqa: BLE001
                ok = False
        (res.ok if ok else res.bad)("R10", m, m.node if m else cls_.node, f"{cls_.name}.{name}: {what}" if ok else
                                    f"{cls_.name}.{name} is `{norm(pe) if pe is not None else '?'}`, expected `{want}` ({what}): every byte offset and buffer size of "
                                    f"the plan is in these units", construct=f"{cls_.name}.{name}", key=f"unit:{cls_.name}.{name}")
    table = prog.literal("sigpyproc.io.bits", "nbits_to_dtype")
    want_t = {1: "<u1", 2: "<u1", 4: "<u1", 8: "<u1", 16: "<u2", 32: "<f4"}
    (res.ok if table == want_t else res.bad)("R10", None, prog.const("sigpyproc.io.bits", "nbits_to_dtype"),
                                              "nbits_to_dtype: 1/2/4/8 -> 1 byte, 16 -> 2 bytes, 32 -> 4-byte float" if table == want_t else
                                              f"nbits_to_dtype is {table}, expected {want_t}", construct="nbits_to_dtype", key="unit:nbits_to_dtype",
                                              where="sigpyproc.io.bits::nbits_to_dtype")
    fr = prog.func("sigpyproc.io.fileio", "FileReader.__init__")
    from ..normalform import canon as _canon, normal_form as _nf
    okb = [e.text() for e in _nf(fr).sets("self.bitsinfo")] == [_canon("BitsInfo(nbits)")]
    init = prog.func(READERS, "FilReader.__init__")
    files_ = _nf(init).sets("self._file")
    okn = bool(files_) and all(e.text() in (_canon("FileReader(self.header.stream_info, mode='r', nbits=self.header.nbits)"),
                                            _canon("FileReader(self.header.stream_info, mode='rb', nbits=self.header.nbits)")) for e in files_)
    (res.ok if okb and okn else res.bad)("R10", init, init.node, "the stream is opened with the header's depth and its BitsInfo is built from it" if okb and okn else
                                         "the reader's FileReader/BitsInfo is no longer built from header.nbits", construct="FilReader.__init__", key="unit:init")

    # ---- R9: the stream primitives the plan relies on (multi-file sets): shared with C02 ----------------
    # read_plan rewinds with a *relative* seek and reads across file boundaries with creadinto; both are only right if
    # the reported stream position, the offset->(file, in-file offset) map and the file-advance loop are right.
    from .c02 import run as run_c02
    scratch = Result("C02", prog)
    run_c02(prog, scratch, tier)
    for o in scratch.obligations:
        if o.rule in ("C02.R1", "C02.R4", "C02.R5", "C02.R6") or o.key == "seek:whence":
            res.add("R9", None, None, o.ok, f"[{o.rule}] {o.detail}", construct=o.construct, key=f"{o.rule}:{o.key}", where=o.where)
            res.obligations[-1].file, res.obligations[-1].line = o.file, o.line
    res.assumptions += ["FileReader.creadinto fills the buffer it is given up to len(buffer) bytes (C02)",
                        "plans are consumed to completion by the library's own loops"]
    res.floor("R1", 4)
    res.floor("R2", 2)
    res.floor("R3", 1)
    res.floor("R4", 2)
    res.floor("R5", 2)
    res.floor("R6", 4)
    res.floor("R7", 3)
    res.floor("R8", 2)
    res.floor("R9", 15)
    res.floor("R10", 9)


R = "sigpyproc/readers.py"
B = "sigpyproc/base.py"
MUTANTS = [
    {"id": "c01-samp-stride-no-bitfact", "file": R, "expect": "C01.R10",
     "old": "        return self.bitsinfo.itemsize / self.bitsinfo.bitfact", "new": "        return self.bitsinfo.itemsize"},
    {"id": "c01-bitfact-4bit", "file": "sigpyproc/io/bits.py", "expect": "C01.R10",
     "old": "        return 8 // self.nbits if self.unpack else 1", "new": "        return 8 // self.nbits if self.nbits < 4 else 1"},
    {"id": "c01-dtype-table-16", "file": "sigpyproc/io/bits.py", "expect": "C01.R10",
     "old": "16: \"<u2\"", "new": "16: \"<u1\""},
    {"id": "c01-revert-F02", "file": R, "expect": "C01.R8",
     "old": "        ends_at_eof = start + nsamps == self.header.nsamples\n        nreads, lastread = divmod(nsamps, (gulp - skipback))\n        # Every full read must end inside the requested range, i.e. leave at\n        # least ``skipback`` samples for the last read\n        while lastread < skipback:",
     "new": "        ends_at_eof = start + nsamps == self.header.nsamples\n        nreads, lastread = divmod(nsamps, (gulp - skipback))\n        if lastread < skipback:"},
    {"id": "c01-correction-dropped", "file": R, "expect": "C01.R8",
     "old": "        ends_at_eof = start + nsamps == self.header.nsamples\n        nreads, lastread = divmod(nsamps, (gulp - skipback))\n        # Every full read must end inside the requested range, i.e. leave at\n        # least ``skipback`` samples for the last read\n        while lastread < skipback:\n            nreads -= 1\n            lastread = nsamps - (nreads * (gulp - skipback))\n",
     "new": "        ends_at_eof = start + nsamps == self.header.nsamples\n        nreads, lastread = divmod(nsamps, (gulp - skipback))\n"},
    {"id": "c01-unbounded-read", "file": R, "expect": "C01.R2",
     "old": "                memoryview(read_buffer)[:expected_nbytes],", "new": "                read_buffer,"},
    {"id": "c01-unpack-unbounded", "file": R, "expect": "C01.R2",
     "old": "                None if unpack_buffer is None else memoryview(unpack_buffer)[:block],", "new": "                unpack_buffer,"},
    {"id": "c01-guard-gt", "file": R, "expect": "C01.R1",
     "old": "        gulp = min(nsamps, gulp)\n        skipback = abs(skipback)\n        if skipback >= gulp:\n            msg = f\"readsamps ({gulp}) must be > skipback ({skipback})\"\n            raise ValueError(msg)\n\n        # Here we set",
     "new": "        gulp = min(nsamps, gulp)\n        skipback = abs(skipback)\n        if skipback > gulp:\n            msg = f\"readsamps ({gulp}) must be > skipback ({skipback})\"\n            raise ValueError(msg)\n\n        # Here we set"},
    {"id": "c01-guard-before-min", "file": R, "expect": "C01.R1",
     "old": "        gulp = min(nsamps, gulp)\n        skipback = abs(skipback)\n        if skipback >= gulp:\n            msg = f\"readsamps ({gulp}) must be > skipback ({skipback})\"\n            raise ValueError(msg)\n\n        # Here we set",
     "new": "        skipback = abs(skipback)\n        if skipback >= gulp:\n            msg = f\"readsamps ({gulp}) must be > skipback ({skipback})\"\n            raise ValueError(msg)\n        gulp = min(nsamps, gulp)\n\n        # Here we set"},
    {"id": "c01-guard-after-seek", "file": R, "expect": "C01.R1",
     "edits": [
         {"file": R, "old": "        if skipback >= gulp:\n            msg = f\"readsamps ({gulp}) must be > skipback ({skipback})\"\n            raise ValueError(msg)\n\n        # Here we set", "new": "\n        # Here we set"},
         {"file": R, "old": "        self._file.seek(start * self.samp_stride)\n        ends_at_eof",
          "new": "        self._file.seek(start * self.samp_stride)\n        if skipback >= gulp:\n            msg = f\"readsamps ({gulp}) must be > skipback ({skipback})\"\n            raise ValueError(msg)\n        ends_at_eof"}]},
    {"id": "c01-seek-elements-not-bytes", "file": R, "expect": "C01.R4",
     "old": "self._file.seek(int(skip * self.chan_stride), whence=1)", "new": "self._file.seek(int(skip), whence=1)"},
    {"id": "c01-seek-absolute", "file": R, "expect": "C01.R4",
     "old": "self._file.seek(int(skip * self.chan_stride), whence=1)", "new": "self._file.seek(int(skip * self.chan_stride), whence=0)"},
    {"id": "c01-yield-block-elements", "file": R, "expect": "C01.R5",
     "old": "            yield block // self.header.nchans, ii, data[:block]", "new": "            yield block, ii, data[:block]"},
    {"id": "c01-yield-whole-buffer", "file": R, "expect": "C01.R5",
     "old": "            yield block // self.header.nchans, ii, data[:block]", "new": "            yield block // self.header.nchans, ii, data"},
    {"id": "c01-shortread-check-dropped", "file": R, "expect": "C01.R3",
     "old": "            if nbytes != expected_nbytes:\n", "new": "            if nbytes > expected_nbytes:\n"},
    {"id": "c01-fold-no-gulp-raise", "file": B, "expect": "C01.R7",
     "old": "        max_delay = int(chan_delays.max())\n        gulp = max(2 * max_delay, gulp)\n        fold_ar =", "new": "        max_delay = int(chan_delays.max())\n        fold_ar ="},
    {"id": "c01-dedisp-gulp-1x", "file": B, "expect": "C01.R7",
     "old": "        gulp = max(2 * max_delay, gulp)\n        nsamps_range", "new": "        gulp = max(max_delay + 1, gulp)\n        nsamps_range"},
    {"id": "c01-readbuf-elements", "file": R, "expect": "C01.R6",
     "old": "read_buffer = allocate_buffer(allocator, gulp * self.samp_stride)", "new": "read_buffer = allocate_buffer(allocator, gulp * self.header.nchans)"},
    {"id": "c01-stride-gulp", "file": R, "expect": "C01.R8",
     "old": "        ends_at_eof = start + nsamps == self.header.nsamples\n        nreads, lastread = divmod(nsamps, (gulp - skipback))",
     "new": "        ends_at_eof = start + nsamps == self.header.nsamples\n        nreads, lastread = divmod(nsamps, gulp)"},
    {"id": "c01-last-block-dropped", "file": R, "expect": "C01.R8",
     "old": "        if lastread != 0:\n            blocks.append((nreads, lastread * self.header.nchans, 0))",
     "new": "        if lastread > skipback:\n            blocks.append((nreads, lastread * self.header.nchans, 0))"},
    {"id": "c01-pfits-total-nsamps", "file": R, "expect": "C01.R2",
     "old": "            data = data[startsamp : startsamp + block]", "new": "            data = data[startsamp : startsamp + nsamps]"},
    {"id": "c01-pfits-advance-no-skip", "file": R, "expect": "C01.R4",
     "old": "            start += block + skip", "new": "            start += block"},
    {"id": "c01-start-seek-elements", "file": R, "expect": "C01.R6",
     "old": "        self._file.seek(start * self.samp_stride)\n        ends_at_eof", "new": "        self._file.seek(start * self.header.nchans)\n        ends_at_eof"},
    {"id": "c01-expected-bytes-samples", "file": R, "expect": "C01.R",
     "old": "            expected_nbytes = int(block * self.chan_stride)", "new": "            expected_nbytes = int(block // self.header.nchans * self.chan_stride)"},
]
TWINS = [
    {"id": "c01-twin-guard-flip", "file": R,
     "old": "        gulp = min(nsamps, gulp)\n        skipback = abs(skipback)\n        if skipback >= gulp:\n            msg = f\"readsamps ({gulp}) must be > skipback ({skipback})\"\n            raise ValueError(msg)\n\n        # Here we set",
     "new": "        gulp = min(nsamps, gulp)\n        skipback = abs(skipback)\n        if gulp <= skipback:\n            msg = f\"readsamps ({gulp}) must be > skipback ({skipback})\"\n            raise ValueError(msg)\n\n        # Here we set"},
    {"id": "c01-twin-seek-temp", "file": R,
     "old": "                self._file.seek(int(skip * self.chan_stride), whence=1)",
     "new": "                rewind = int(self.chan_stride * skip)\n                self._file.seek(rewind, whence=1)"},
    {"id": "c01-twin-alloc-commuted", "file": R,
     "old": "read_buffer = allocate_buffer(allocator, gulp * self.samp_stride)", "new": "read_buffer = allocate_buffer(allocator, self.samp_stride * gulp)"},
    {"id": "c01-twin-max-args", "file": B,
     "old": "        gulp = max(2 * max_delay, gulp)\n        nsamps_range", "new": "        gulp = max(gulp, max_delay * 2)\n        nsamps_range"},
]
