"""C11 - folding puts every sample in exactly one bin (structural clauses)."""
from __future__ import annotations

import ast

from .. import kernelspec
from ..dataflow import flow_of
from ..model import AnalysisError, FuncInfo, Program, body_walk, calls_in_body, dotted, norm, parent
from ..poly import Poly, PolyEnv
from ..report import Result, depends
from ..streamops import KMOD, StreamOp

TITLE = "Folding puts every sample in exactly one bin fixed by the phase model"
LEVEL = "other"
TECHNIQUE = ("static analysis: kernel-vs-reference comparison modulo polynomial normal form, layout (stride) agreement with the "
             "caller's reshape, overlap-save offset algebra, accumulator discipline, slot roles")
EXPLANATION = (
    "Decides: (R1) kernels.fold equals its reference definition: each (sample, channel) visit adds the sample to exactly one "
    "cell and 1 to the hit counter at the same index, with subint = (t+index)//(total/nints), sub_band = c//(nchans/nsubs) "
    "and the documented phase formula; (R2) the kernel's cell layout (strides nbins*nsubs, nbins, 1) is the C-order layout "
    "(nints, nsubs, nbins) that both callers reshape to, and the arrays are allocated with exactly that many cells; (R3) "
    "Filterbank.fold streams with skipback = maxdelay and passes the absolute index block*(gulp-maxdelay); (R4) both "
    "accumulators start from np.zeros and the division by the hit counts happens once, after the loop and before the "
    "reshape; (R5) the 15 positional kernel arguments receive the right quantities at both call sites; (R6) the read plan the "
    "folding loop consumes satisfies C01's rules (re-evaluated here, with C02's stream rules). Together these "
    "make the cube independent of the gulp. Not decided: values of the phase formula, single-bin occupancy of a pulse "
    "train, sub-range folding semantics. "
    "Since F38/F46: the delays handed to fold are counted from the earliest channel and the phase index is advanced by the same lead (R3); tsamp, period and accel are float64 in every numba signature of fold (R1)."
)


def run(prog: Program, res: Result, tier: str) -> None:
    prog.consulted.update({KMOD, "sigpyproc.base", "sigpyproc.timeseries"})
    k = prog.func(KMOD, "fold")
    verdict, why = kernelspec.compare(k)
    if verdict == "incomparable":
        # undecided for the kernel as a whole: the callers' rules below still run, and what they find is reported first (an
        # analysis error - exit 2 - only if they find nothing)
        res.dep_errors.append(f"kernel fold cannot be compared with its reference definition: {why[0]}")
    else:
        (res.ok if verdict == "same" else res.bad)("R1", k, k.node, ("; ".join(why))[:700], construct="fold", key="fold")
    # fold must not be compiled parallel with a prange over samples (cells are shared): C19 would flag; note only

    # ---- Filterbank.fold ----------------------------------------------------------------------
    op = StreamOp(prog, prog.func("sigpyproc.base", "Filterbank.fold"))
    fn = op.fn
    if len(op.loops) != 1:
        raise AnalysisError("Filterbank.fold: expected one read_plan loop")
    lp = op.loops[0]
    kcs = [(c, kk) for c, kk in op.kernel_calls(lp) if kk.name == "fold"]
    if len(kcs) != 1:
        raise AnalysisError("Filterbank.fold: expected one kernels.fold call in the loop")
    call, _ = kcs[0]
    op.check_roles(res, "R5", lp, call, k, {"inarray": "data", "nsamps": "count", "nchans": "nchans", "total_nsamps": "nsamples_total"})
    op.check_roles(res, "R3", lp, call, k, {"maxdelay": "maxdelay"})
    b = prog.bind_args(call, k)
    # the index the phase is computed from: block * (gulp - skipback), advanced by the lead when the delays handed to the kernel
    # are counted from the earliest channel (delays - min(0, min delay)): the same lead, or the phases of all samples are shifted
    _g, _S, stride = op.stride(lp)
    gname = op.gulp_name(lp)
    stop_i = ({gname} if gname else set()) | {lp.index}
    p_idx = op.poly(b["index"], call, stop=stop_i)
    w_idx = Poly.sym(lp.index) * stride
    lead_i = w_idx - p_idx
    p_del = op.poly(b["delays"], call) if b.get("delays") is not None else None
    lead_d = (Poly.sym("self.header.get_dmdelays(dm)") - p_del) if p_del is not None else None
    key = "Filterbank.fold:fold:index"
    lead_txt = lead_i.canon()
    lead_ok = lead_i.is_zero() or (lead_txt.startswith("min(0, ") and ".min()" in lead_txt)
    if lead_d is not None and lead_i == lead_d and lead_ok:
        res.ok("R3", fn, call, "fold(index=...) receives block index * (gulp - skipback)" + ("" if lead_i.is_zero() else
               f" advanced by the same lead ({lead_txt}) that the delays are counted from"), construct=f"index={norm(b['index'])}", key=key)
    else:
        res.bad("R3", fn, call, f"fold parameter 'index' receives `{norm(b['index'])}`, expected block index * (gulp - skipback) = {w_idx.canon()}"
                f" minus the lead the delays are counted from ({(lead_d.canon() if lead_d is not None else '?')})",
                construct=f"index={norm(b['index'])}", key=key)
    for p, want in (("tsamp", "self.header.tsamp"), ("period", "period"), ("accel", "accel"), ("nbins", "nbins"), ("nints", "nints"), ("nsubs", "nbands")):
        key = f"Filterbank.fold:fold:{p}"
        got = norm(b.get(p, ast.Constant(None)))
        (res.ok if got == want else res.bad)("R5", fn, call, f"{p} receives {want}" if got == want else f"fold parameter '{p}' receives `{got}`, expected `{want}`",
                                             construct=f"{p}={got}", key=key)
    dl = b.get("delays")
    deps = op.flow.deps(dl, op.cfg.node_for(call)) if dl is not None else set()
    key = "Filterbank.fold:fold:delays"
    sb = lp.kw("skipback")
    okd = any(x.startswith("call:") and x.endswith("get_dmdelays") for x in deps)
    # skipback is the max of those same delays
    from ..normalform import canon as _canon11
    sbx = op.flow.expand(sb, op.cfg.node_for(lp.call)) if sb is not None else None
    oksb = isinstance(sbx, ast.Call) and dotted(sbx.func) == "int" and len(sbx.args) == 1 and isinstance(sbx.args[0], ast.Call) \
        and isinstance(sbx.args[0].func, ast.Attribute) and sbx.args[0].func.attr == "max" and not sbx.args[0].args and dl is not None \
        and _canon11(sbx.args[0].func.value) == _canon11(op.flow.expand(dl, op.cfg.node_for(call)))
    if okd and oksb:
        res.ok("R3", fn, call, "delays come from header.get_dmdelays(dm) and the plan's skipback is their maximum", key=key)
    else:
        res.bad("R3", fn, call, "delays / skipback: the skipback of the plan is not int(max of the delays handed to the kernel)", key=key)
    op.check_accumulators(res, "R4", lp, call, k, consumed_in_loop=False)
    _layout(prog, res, op.fn, op.flow, call, k, b, lp)

    # ---- TimeSeries.fold ---------------------------------------------------------------------------
    tf = prog.func("sigpyproc.timeseries", "TimeSeries.fold")
    flow = flow_of(tf, prog)
    calls = [c for c in calls_in_body(tf.node) if dotted(c.func) == "kernels.fold"]
    if len(calls) != 1:
        raise AnalysisError("TimeSeries.fold: expected one kernels.fold call")
    call = calls[0]
    b = prog.bind_args(call, k)
    want = {"inarray": "self.data", "delays": "np.array([0], dtype=np.int32)", "maxdelay": "0", "tsamp": "self.header.tsamp", "period": "period",
            "accel": "accel", "total_nsamps": "self.data.size", "nsamps": "self.data.size", "nchans": "1", "nbins": "nbins", "nints": "nints",
            "nsubs": "1", "index": "0"}
    for p, w in want.items():
        got = norm(b.get(p, ast.Constant(None)))
        key = f"TimeSeries.fold:fold:{p}"
        (res.ok if got == w else res.bad)("R5", tf, call, f"{p} receives {w}" if got == w else f"fold parameter '{p}' receives `{got}`, expected `{w}`",
                                          construct=f"{p}={got}", key=key)
    for p in ("fold_ar", "count_ar"):
        a = b.get(p)
        key = f"TimeSeries.fold:{p}:zero"
        ds = [d for d in flow.origin_defs(a.id, flow.cfg.node_for(call)) if d.kind == "assign"] if isinstance(a, ast.Name) else []
        if len(ds) == 1 and isinstance(ds[0].value, ast.Call) and dotted(ds[0].value.func) == "np.zeros":
            res.ok("R4", tf, call, f"'{a.id}' (+= in fold) is allocated with np.zeros", key=key)
        else:
            res.bad("R4", tf, call, f"fold accumulates into '{norm(a)}' with +=, but it is not created by np.zeros", key=key)
    _layout(prog, res, tf, flow, call, k, b, None)
    # ---- R3 (cont.) no negative delay reaches the folding kernel (shared with C09.R3; F38) ---------------------------------
    from ..lints import check_delay_sign
    check_delay_sign(prog, res, "R3", only={"fold"})
    # ---- R1 (cont.) the phase model is evaluated in double precision: (isamp + index) * tsamp / period needs more than the
    # 24-bit mantissa of a float32 once the series is longer than ~2**23 samples (F46) --------------------------------------
    sigs = (k.numba or {}).get("signatures", []) if isinstance(k.numba, dict) else []
    pos = {p: i for i, p in enumerate(k.positional_params)}
    key = "fold:phase-precision"
    bad_sig = []
    for sg in sigs:
        inner = sg[sg.index("(") + 1: sg.rindex(")")]
        parts, depth, cur = [], 0, ""
        for ch in inner:
            if ch == "," and depth == 0:
                parts.append(cur.strip())
                cur = ""
            else:
                depth += ch in "[(" 
                depth -= ch in "])"
                cur += ch
        parts.append(cur.strip())
        for p in ("tsamp", "period", "accel"):
            if p in pos and pos[p] < len(parts) and parts[pos[p]] not in ("f8", "float64"):
                bad_sig.append(f"{p}: {parts[pos[p]]}")
    if not sigs:
        res.ok("R1", k, k.node, "fold has no explicit numba signature: Python floats reach the phase model as float64", key=key, construct="signature")
    elif bad_sig:
        res.bad("R1", k, k.node, f"fold's numba signature declares {sorted(set(bad_sig))}: the phase of sample 2**23 and beyond is computed from a period/tsamp "
                "rounded to 24 bits (relative error ~7e-8), so a strictly periodic pulse train drifts across phase bins", key=key, construct="signature")
    else:
        res.ok("R1", k, k.node, "tsamp, period and accel are float64 in every signature of fold", key=key, construct="signature")
    # ---- R6 the plan the folding loop consumes (shared with C01) ------------------------------------------------------
    depends(res, "R6", prog, tier, "C01", why="the blocks these loops consume come from read_plan: the plan rules of C01 (and, through them, the multi-file stream rules of C02) are re-evaluated here")
    # a numeric argument that is 0 is an argument (accel=0 means no acceleration, not "use the header's"): no numeric parameter of the
    # folding entry points is used for its truth value
    from ..lints import check_no_falsy_zero
    check_no_falsy_zero(prog, res, "R5", ["sigpyproc.timeseries", "sigpyproc.base"], "accel = 0 (or start = 0, dm = 0) would be replaced by a fallback")

    res.floor("R6", 40)
    res.floor("R1", 2)
    res.floor("R2", 4)
    res.floor("R3", 3)
    res.floor("R4", 6)
    res.floor("R5", 23)


def _layout(prog: Program, res: Result, fn: FuncInfo, flow, call: ast.Call, k: FuncInfo, b: dict, lp) -> None:
    tag = fn.qualname
    cfg = flow.cfg
    fa, ca = b.get("fold_ar"), b.get("count_ar")
    dims = [norm(b.get(p, ast.Constant(None))) for p in ("nints", "nsubs", "nbins")]
    env = PolyEnv()
    want_size = env.poly(ast.parse(" * ".join(f"({d})" for d in dims), mode="eval").body)
    for a, dt in ((fa, "float32"), (ca, "int32")):
        key = f"{tag}:{norm(a)}:size"
        ds = [d for d in flow.origin_defs(a.id, cfg.node_for(call)) if d.kind == "assign"] if isinstance(a, ast.Name) else []
        if len(ds) == 1 and isinstance(ds[0].value, ast.Call) and ds[0].value.args:
            size = env.poly(flow.expand(ds[0].value.args[0], cfg.node_for(ds[0].stmt), stop={"nbands", "nbins", "nints"}))
            dtxt = norm(ds[0].value)
            if size == want_size and dt in dtxt:
                res.ok("R2", fn, ds[0].stmt, f"{a.id} has nints*nsubs*nbins = {want_size.canon()} cells of {dt}", key=key)
            else:
                res.bad("R2", fn, ds[0].stmt, f"{a.id} is `{dtxt}`; the kernel addresses {want_size.canon()} cells of {dt}", key=key)
        else:
            res.bad("R2", fn, call, f"allocation of {norm(a)} not found", key=key)
    if isinstance(fa, ast.Name) and isinstance(ca, ast.Name) and fa.id == ca.id:
        res.bad("R2", fn, call, "the sum and the hit-count accumulators are the same array", key=f"{tag}:distinct")
    # division once after the loop, before reshape
    divs = [s for s in body_walk(fn.node) if isinstance(s, ast.AugAssign) and isinstance(s.op, ast.Div) and isinstance(fa, ast.Name)
            and dotted(s.target) == fa.id]
    resh = [c for c in calls_in_body(fn.node) if isinstance(c.func, ast.Attribute) and c.func.attr == "reshape" and isinstance(fa, ast.Name)
            and dotted(c.func.value) == fa.id]
    key = f"{tag}:mean"
    okdiv = len(divs) == 1 and isinstance(ca, ast.Name) and norm(divs[0].value) == ca.id and len(resh) == 1 and \
        cfg.dominates(cfg.node_for(divs[0]), cfg.node_for(resh[0])) and \
        ((lp is None and cfg.dominates(cfg.node_for(call), cfg.node_for(divs[0]))) or
         (lp is not None and not lp.contains(divs[0]) and cfg.dominates(cfg.node_for(lp.node), cfg.node_for(divs[0]))))
    if okdiv:
        res.ok("R4", fn, divs[0], "cell means are formed once (sum /= hits) after all blocks were folded and before the reshape", key=key)
    else:
        res.bad("R4", fn, divs[0] if divs else fn.node, "the division by the hit counts is not done exactly once after the folding loop and "
                "before the reshape", key=key, construct="mean")
    key = f"{tag}:reshape"
    if len(resh) == 1 and [norm(a) for a in resh[0].args] == dims:
        res.ok("R2", fn, resh[0], f"reshape({', '.join(dims)}) matches the kernel's strides (nbins*nsubs, nbins, 1)", key=key)
    else:
        got = [norm(a) for a in resh[0].args] if resh else None
        res.bad("R2", fn, resh[0] if resh else fn.node, f"the cube is reshaped to {got}, but the kernel lays cells out as (nints, nsubs, nbins) = {dims}",
                key=key, construct="reshape")
    # result container built from the reshaped array
    rets = [s for s in body_walk(fn.node) if isinstance(s, ast.Return) and isinstance(s.value, ast.Call) and (dotted(s.value.func) or "").endswith("FoldedData")]
    key = f"{tag}:return"
    if rets and isinstance(fa, ast.Name) and norm(rets[0].value.args[0]) == fa.id:
        res.ok("R2", fn, rets[0], "FoldedData wraps the reshaped mean cube", key=key)
    else:
        res.bad("R2", fn, fn.node, "the folded cube returned is not the reshaped accumulator", key=key, construct="return")


B = "sigpyproc/base.py"
K = "sigpyproc/core/kernels.py"
T = "sigpyproc/timeseries.py"
MUTANTS = [
    {"id": "c11-revert-F46", "file": "sigpyproc/core/kernels.py", "expect": "C11.R1",
     "old": "        \"void(u1[:], f4[:], i4[:], i4[:], i4, f8, f8, f8, i4, i4, i4, i4, i4, i4, i4)\",\n", "new": "        \"void(u1[:], f4[:], i4[:], i4[:], i4, f4, f4, f4, i4, i4, i4, i4, i4, i4, i4)\",\n"},
    {"id": "c11-revert-F38", "file": "sigpyproc/base.py", "expect": "C11.R3",
     "old": "        chan_delays = self.header.get_dmdelays(dm)\n        # Channels that lead the reference (ascending band, negative DM) have\n        # negative delays: count them from the earliest channel instead\n        min_delay = min(0, int(chan_delays.min()))\n        chan_delays = chan_delays - min_delay\n        max_delay = int(chan_delays.max())\n        gulp = max(2 * max_delay, gulp)\n        fold_ar = np.zeros(", "new": "        chan_delays = self.header.get_dmdelays(dm)\n        min_delay = 0\n        max_delay = int(chan_delays.max())\n        gulp = max(2 * max_delay, gulp)\n        fold_ar = np.zeros("},
    {"id": "c11-index-without-lead", "file": "sigpyproc/base.py", "expect": "C11.R3",
     "old": "                ii * (gulp - max_delay) - min_delay,\n", "new": "                ii * (gulp - max_delay),\n"},
    {"id": "c11-index-gulp", "file": B, "expect": "C11.R3",
     "old": "                nbands,\n                ii * (gulp - max_delay) - min_delay,\n            )", "new": "                nbands,\n                ii * gulp - min_delay,\n            )"},
    {"id": "c11-count-other-index", "file": K, "expect": "C11.R1",
     "old": "            fold_ar[pos2] += val\n            count_ar[pos2] += 1", "new": "            fold_ar[pos2] += val\n            count_ar[int(pos1)] += 1"},
    {"id": "c11-reshape-swapped", "file": B, "expect": "C11.R2",
     "old": "        fold_ar = fold_ar.reshape(nints, nbands, nbins)", "new": "        fold_ar = fold_ar.reshape(nbands, nints, nbins)"},
    {"id": "c11-divide-in-loop", "file": B, "expect": "C11.R4",
     "old": "                ii * (gulp - max_delay) - min_delay,\n            )\n        fold_ar /= count_ar", "new": "                ii * (gulp - max_delay) - min_delay,\n            )\n            fold_ar /= count_ar"},
    {"id": "c11-fold-empty", "file": B, "expect": "C11.R4",
     "old": "        fold_ar = np.zeros(nbins * nints * nbands, dtype=\"float32\")", "new": "        fold_ar = np.empty(nbins * nints * nbands, dtype=\"float32\")"},
    {"id": "c11-subint-stride", "file": K, "expect": "C11.R1",
     "old": "        pos1 = (subint * nbins * nsubs) + phasebin", "new": "        pos1 = (subint * nbins) + phasebin"},
    {"id": "c11-subband-by-nsubs", "file": K, "expect": "C11.R1",
     "old": "    factor2 = nchans / nsubs", "new": "    factor2 = nsubs"},
    {"id": "c11-phase-no-half", "file": K, "expect": "C11.R1",
     "old": "nbins * tj * (1 + accel * (tj - tobs) / (2 * CONST_C_VAL)) / period + 0.5", "new": "nbins * tj * (1 + accel * (tj - tobs) / (2 * CONST_C_VAL)) / period"},
    {"id": "c11-swap-nints-nbands-args", "file": B, "expect": "C11.R",
     "old": "                nbins,\n                nints,\n                nbands,\n                ii * (gulp - max_delay) - min_delay,", "new": "                nbins,\n                nbands,\n                nints,\n                ii * (gulp - max_delay) - min_delay,"},
    {"id": "c11-ts-total", "file": T, "expect": "C11.R5",
     "old": "            self.data.size,\n            self.data.size,\n            1,\n            nbins,", "new": "            self.header.nsamples - 1,\n            self.data.size,\n            1,\n            nbins,"},
    {"id": "c11-no-skipback", "file": B, "expect": "C11.R3",
     "old": "            nsamps=nsamps,\n            skipback=max_delay,\n            **plan_kwargs,\n        ):\n            kernels.fold(", "new": "            nsamps=nsamps,\n            **plan_kwargs,\n        ):\n            kernels.fold("},
    {"id": "c11-skip-early-samples", "file": K, "expect": "C11.R1",
     "old": "    for isamp in range(nsamps - maxdelay):\n        tj = (isamp + index) * tsamp", "new": "    for isamp in range(1, nsamps - maxdelay):\n        tj = (isamp + index) * tsamp"},
    {"id": "c11-alloc-too-small", "file": B, "expect": "C11.R2",
     "old": "        count_ar = np.zeros(nbins * nints * nbands, dtype=\"int32\")", "new": "        count_ar = np.zeros(nbins * nints, dtype=\"int32\")"},
]
MUTANTS += [
    {"id": "c11-ts-fold-accel-falsy", "file": "sigpyproc/timeseries.py", "expect": "C11.R5",
     "old": "        fold_ar = np.zeros(nbins * nints, dtype=np.float32)", "new": "        accel = accel or self.header.accel\n        fold_ar = np.zeros(nbins * nints, dtype=np.float32)"},
]
TWINS = [
    {"id": "c11-twin-pos-inline", "file": K,
     "old": "            pos2 = int(pos1 + (sub_band * nbins))\n", "new": "            pos2 = int((sub_band * nbins) + pos1)\n"},
    {"id": "c11-twin-size-order", "file": B,
     "old": "        fold_ar = np.zeros(nbins * nints * nbands, dtype=\"float32\")", "new": "        fold_ar = np.zeros(nints * nbands * nbins, dtype=\"float32\")"},
]
