"""C09 - one dispersion law, applied identically by every dedispersion path (structural clauses)."""
from __future__ import annotations

import ast

from .. import kernelspec
from ..dataflow import flow_of
from ..model import AnalysisError, FuncInfo, Program, body_walk, calls_in_body, dotted, norm, parent
from ..poly import Poly, PolyEnv
from ..props import transparent_casts
from ..report import Result, depends

TITLE = "One dispersion law, applied identically by every dedispersion path"
LEVEL = "other"
TECHNIQUE = ("static analysis: single-source who-computes rule, canonical form of the delay formula, derived roll-kernel "
             "contract + sign parity along def-use paths across calls, symbolic width agreement")
EXPLANATION = (
    "Decides: (R1) every delay array that reaches a kernel or an index comes from Header.get_dmdelays -> "
    "params.compute_dmdelays, the only code that touches a dispersion constant; (R2) that function computes "
    "dm*4.148808e3*(f^-2 - fref^-2)/tsamp, rounds to nearest and only then casts to int32; (R3) every consumer reads "
    "source sample t + delay_c for output sample t: directly for the index-form kernels (dedisperse, subband, fold, "
    "read_dedisp_block), and for the roll-form paths by first deriving each roll kernel's own contract from its slice "
    "algebra (res[t] = arr[t - shift]) and then requiring the value that reaches `shifts`, followed across dmt_block / "
    "dmt_block_valid, to be the delay with odd negation parity; (R4) in the valid-samples DM transform the width of each "
    "row assigned equals the declared output width; (R5) each accepted reference-frequency name resolves to a Header "
    "attribute; (R6) the streamed file dedispersion places block i at i*(gulp-maxdelay) for the very gulp handed to read_plan, "
    "uses maxdelay as both skipback and kernel limit, accumulates into zeros and declares range-length minus maxdelay samples "
    "(C06's overlap-save rules re-evaluated); (R7) the read plan the streamed dedispersion consumes satisfies C01's rules "
    "(re-evaluated here). Not decided: delay values, monotonicity, float32 rounding-boundary cases, restoration of a pulse. "
    "Since F34/F38: the delay arrays keep one entry per channel (no unqualified squeeze; exactly the DM axis of a scalar DM is dropped) (R2), and the array handed to every index-form kernel is get_dmdelays(dm) minus a lead min(0, min delay), so that no index t + delay is negative (R3)."
    ' Since wave 6: every row of the valid-samples DM transform starts at the same input column, the maximum positive shift over all DMs (R4 origin).'
)
KMOD = "sigpyproc.core.kernels"
PARAMS = "sigpyproc.params"
HEADER = "sigpyproc.header"
ADDS_DISPERSION = {"disperse_block": "simulation/furby: disperses (adds delay) by design; a producer of dispersed data"}


def _shift_contract(prog: Program, res: Result, name: str, seen=None) -> tuple[int | None, str]:
    """sigma with res[t] = arr[t - sigma*shift] for kernel `name`(arr, shifts)."""
    seen = seen or set()
    if name in seen:
        return None, "recursive"
    seen.add(name)
    fn = prog.func(KMOD, name)
    params = fn.positional_params
    if len(params) < 2:
        return None, "not (arr, shifts)"
    arr, sh = params[0], params[1]
    flow = flow_of(fn)
    env = lambda: PolyEnv(atom_hook=transparent_casts, mod_transparent=True)  # noqa: E731
    sigmas = []
    # loop variables that run over the shift parameter itself (`for i, shift in enumerate(shifts)`) are its elements
    elems = set()
    for lp_ in [n for n in ast.walk(fn.node) if isinstance(n, ast.For)]:
        it_, tg_ = lp_.iter, lp_.target
        if isinstance(it_, ast.Call) and dotted(it_.func) == "enumerate" and it_.args and isinstance(tg_, ast.Tuple) and len(tg_.elts) == 2:
            it_, tg_ = it_.args[0], tg_.elts[1]
        if isinstance(tg_, ast.Name) and dotted(_base(it_) if isinstance(it_, ast.Subscript) else it_) == sh:
            elems.add(tg_.id)

    def is_shift(sym: str) -> bool:
        return sym.startswith(sh + "[") or sym == sh or sym in elems
    # direct slice stores
    for st in body_walk(fn.node):
        tgt = val = None
        if isinstance(st, ast.Assign) and isinstance(st.targets[0], ast.Subscript):
            tgt, val = st.targets[0], st.value
        elif isinstance(st, ast.AugAssign) and isinstance(st.target, ast.Subscript):
            tgt, val = st.target, st.value
        if tgt is None:
            continue
        wl = _last_axis_slice(tgt)
        reads = [n for n in ast.walk(val) if isinstance(n, ast.Subscript) and dotted(_base(n)) == arr]
        for r in reads:
            rl = _last_axis_slice(r)
            if wl is None and rl is None:
                continue
            at = flow.cfg.node_for(st)
            lo_w = env().poly(flow.expand(wl.lower, at)) if wl is not None and wl.lower is not None else Poly.const(0)
            lo_r = env().poly(flow.expand(rl.lower, at)) if rl is not None and rl.lower is not None else Poly.const(0)
            off = lo_r - lo_w
            atoms = [s for s in off.symbols() if is_shift(s)]
            if not atoms:
                continue
            c = off.coeff_of(atoms[0])
            if c == Poly.const(-1):
                sigmas.append(+1)
            elif c == Poly.const(1):
                sigmas.append(-1)
            else:
                return None, f"shift enters the source index with coefficient {c.canon()}"
    # delegation
    for c in calls_in_body(fn.node):
        d = dotted(c.func) or ""
        if d in ("roll_block", "roll_block_valid", "kernels.roll_block", "kernels.roll_block_valid") and len(c.args) >= 2:
            sub, why = _shift_contract(prog, res, d.split(".")[-1], seen)
            if sub is None:
                return None, why
            p = env().poly(flow.expand(c.args[1], flow.cfg.node_for(c)))
            atoms = [s for s in p.symbols() if is_shift(s)]
            if len(atoms) != 1 or not (p - p.coeff_of(atoms[0]) * Poly.sym(atoms[0])).is_zero():
                return None, f"argument `{norm(c.args[1])}` is not +/- the shift parameter"
            k = p.coeff_of(atoms[0])
            if k == Poly.const(1):
                sigmas.append(sub)
            elif k == Poly.const(-1):
                sigmas.append(-sub)
            else:
                return None, "scaled shift"
    if not sigmas:
        return None, "no shift-dependent slice or delegation found"
    if len(set(sigmas)) != 1:
        return None, "the kernel's stores disagree on the direction of the shift"
    return sigmas[0], f"{len(sigmas)} shift-dependent store(s)/call(s) agree"


def _base(n: ast.AST) -> ast.AST:
    while isinstance(n, ast.Subscript):
        n = n.value
    return n


def _last_axis_slice(sub: ast.Subscript) -> ast.Slice | None:
    s = sub.slice
    if isinstance(s, ast.Tuple):
        s = s.elts[-1]
    return s if isinstance(s, ast.Slice) else None


def _kernel_alternatives(fl, c: ast.Call) -> list[str]:
    """Dotted names the callee of c can be: the callee itself, or - when it is a local chosen by a conditional
    expression / if-else (`roll = kernels.a if flag else kernels.b`) - every alternative."""
    fx = fl.expand(c.func, fl.cfg.node_for(c)) if isinstance(c.func, ast.Name) else c.func
    out: list[str] = []

    def collect(e):
        if isinstance(e, ast.IfExp):
            collect(e.body)
            collect(e.orelse)
        else:
            out.append(dotted(e) or "")
    collect(fx)
    return out


def _dedisp_block_window(prog: Program, res: Result, rd, fl) -> None:
    """read_dedisp_block: the stream is read one spectrum per iteration from the first to the last sample any channel
    needs, and every spectrum is stored into exactly the channels whose window [min_sample, max_sample) contains it."""
    from ..normalform import canon
    cfg = fl.cfg
    key_c, key_w = "read_dedisp_block:coverage", "read_dedisp_block:window"
    loops = [l for l in body_walk(rd.node) if isinstance(l, ast.For)]
    if len(loops) != 1 or not isinstance(loops[0].target, ast.Name):
        res.bad("R3", rd, rd.node, "read_dedisp_block no longer has a single sample loop", construct="loop", key=key_c)
        return
    lp = loops[0]
    t = lp.target.id
    it = lp.iter
    if isinstance(it, ast.Call) and (dotted(it.func) or "").split(".")[-1] == "track" and it.args:
        it = it.args[0]
    if not (isinstance(it, ast.Call) and dotted(it.func) == "range" and 1 <= len(it.args) <= 2):
        res.bad("R3", rd, lp, "the sample loop does not run over a range", key=key_c)
        return
    ln = cfg.node_for(lp)
    lo = ast.Constant(0) if len(it.args) == 1 else it.args[0]
    hi = it.args[-1]
    # the comparison that selects the channels of this iteration: min_sample <= T < max_sample
    sels = [c for c in calls_in_body(lp) if dotted(c.func) == "np.logical_and" and len(c.args) == 2]
    stores = [s_ for s_ in body_walk(lp) if isinstance(s_, ast.Assign) and isinstance(s_.targets[0], ast.Subscript) and isinstance(s_.targets[0].slice, ast.Tuple)
              and len(s_.targets[0].slice.elts) == 2]
    counts = [s_ for s_ in body_walk(lp) if isinstance(s_, ast.AugAssign) and isinstance(s_.op, ast.Add) and isinstance(s_.target, ast.Subscript) and norm(s_.value) == "1"]
    reads = [c for c in calls_in_body(lp) if dotted(c.func) == "self._file.cread"]
    seeks = [c for c in calls_in_body(rd.node) if dotted(c.func) == "self._file.seek" and cfg.dominates(cfg.node_for(c), ln)]
    if len(sels) != 1 or len(stores) != 1 or len(counts) != 1 or len(reads) != 1 or len(seeks) != 1:
        res.bad("R3", rd, lp, f"unrecognised loop body: {len(sels)} window test(s), {len(stores)} store(s), {len(counts)} counter update(s), "
                f"{len(reads)} read(s), {len(seeks)} positioning seek(s)", key=key_w)
        return
    sel, st, cnt, rdc, sk = sels[0], stores[0], counts[0], reads[0], seeks[0]
    stop = {t}
    mn = canon(fl.expand(ast.parse("min_sample", mode="eval").body, cfg.node_for(sel), stop=stop))
    mx = canon(fl.expand(ast.parse("max_sample", mode="eval").body, cfg.node_for(sel), stop=stop))
    # which expression plays the role of the current sample T?
    T = None
    for a_ in sel.args:
        if isinstance(a_, ast.Compare) and len(a_.ops) == 1:
            for side in (a_.left, a_.comparators[0]):
                sx = fl.expand(side, cfg.node_for(sel), stop=stop)
                if t in {n.id for n in ast.walk(sx) if isinstance(n, ast.Name)}:
                    T = sx
    if T is None:
        res.bad("R3", rd, sel, "the window test does not involve the loop's current sample", key=key_w)
        return
    Tp = PolyEnv().poly(T)
    rest = Tp - Poly.sym(t)
    if t in rest.symbols():
        res.bad("R3", rd, sel, f"the current sample `{Tp.canon()}` does not advance by one per iteration", key=key_c)
        return
    Tc = Tp.canon()
    want_sel = {f"np.logical_and(cmp[Lt]({Tc}, {mx}), cmp[LtE]({mn}, {Tc}))", f"np.logical_and(cmp[LtE]({mn}, {Tc}), cmp[Lt]({Tc}, {mx}))"}
    sel_c = canon(fl.expand(sel, cfg.node_for(sel), stop=stop))
    idx = canon(fl.expand(st.targets[0].slice.elts[0], cfg.node_for(st), stop=stop))
    forms = {f"np.flatnonzero({sel_c})", f"np.argwhere({sel_c}).flatten()", f"np.argwhere({sel_c}).ravel()", f"np.where({sel_c})[0]", f"np.nonzero({sel_c})[0]",
             # contiguous hull of the selected channels (delays are monotone in frequency)
             f"np.arange(np.argwhere({sel_c}).flatten().min(), 1 + np.argwhere({sel_c}).flatten().max(), dtype=int)"}
    col = canon(fl.expand(st.targets[0].slice.elts[1], cfg.node_for(st), stop=stop))
    val = canon(fl.expand(st.value, cfg.node_for(st), stop=stop))
    cnt_t = canon(fl.expand(cnt.target, cfg.node_for(cnt), stop=stop))
    rd_c = canon(fl.expand(rdc, cfg.node_for(rdc), stop=stop))
    import re as _re
    mcol = _re.fullmatch(r"(?P<ctr>[\w$@]+)\[(?P<i>.+)\]", col)
    okw = sel_c in want_sel and idx in forms and mcol is not None and mcol.group("i") == idx and cnt_t == col and \
        _re.sub(r"#\d+", "", val) == _re.sub(r"#\d+", "", f"{rd_c}[{idx}]") and _re.sub(r"#\d+", "", rd_c) == "self._file.cread(self.header.nchans)" and \
        cfg.dominates(cfg.node_for(st), cfg.node_for(cnt)) and cfg.must_pass(ln, ln, {cfg.node_for(rdc)}) is not False
    if okw and mcol is not None:
        zero = [d_ for d_ in fl.defs if d_.var == mcol.group("ctr").split("@")[0] and d_.kind == "assign"]
        okw = len(zero) == 1 and canon(zero[0].value) in (canon("np.zeros(self.header.nchans, dtype=int)"), canon("np.zeros(self.header.nchans, dtype=np.int64)"),
                                                           canon("np.zeros(self.header.nchans, int)"))
    (res.ok if okw else res.bad)("R3", rd, st, "every spectrum read is stored at the next free column of exactly the channels with min_sample <= t < max_sample" if okw else
                                 "the per-channel window bookkeeping of read_dedisp_block changed", construct="window", key=key_w)
    # coverage: the spectra read are t0 .. t1-1 with t0 = earliest, t1 = latest sample any channel needs, and the stream starts at t0
    t0 = (rest + PolyEnv().poly(fl.expand(lo, ln, stop=stop)))
    t1 = (rest + PolyEnv().poly(fl.expand(hi, ln, stop=stop)))
    firsts = {canon(f) for f in (f"int(({mn}).min())".replace("'", "'"),)} if False else set()
    def extreme(arr: str, which: str) -> set[str]:
        return {f"int(({arr}).{which}())", f"({arr}).{which}()", f"int(np.{which}({arr}))", f"np.{which}({arr})"}
    ok_first = t0.canon() in extreme(mn, "min")
    ok_last = t1.canon() in extreme(mx, "max")
    seek_p = PolyEnv().poly(fl.expand(sk.args[0], cfg.node_for(sk))) if sk.args else None
    ok_seek = seek_p is not None and seek_p == t0 * Poly.sym("self.samp_stride") and len(sk.args) == 1 and not sk.keywords
    if ok_first and ok_last and ok_seek:
        res.ok("R3", rd, lp, "the loop reads one spectrum per iteration from min(min_sample) to max(max_sample), starting where the stream was positioned", key=key_c)
    else:
        res.bad("R3", rd, lp, f"the spectra read are [{t0.canon()}, {t1.canon()}) from a stream positioned at {seek_p.canon() if seek_p is not None else '?'}: "
                f"a channel delayed by d samples needs source samples up to start + d + nsamps, so for any non-zero DM rows are left partly unfilled "
                f"(expected the range [min(min_sample), max(max_sample)))", key=key_c)


def strip_labels(t: str) -> str:
    import re
    return re.sub(r"@\d+", "", t)


def run(prog: Program, res: Result, tier: str) -> None:
    prog.consulted.update({KMOD, PARAMS, HEADER, "sigpyproc.base", "sigpyproc.block", "sigpyproc.readers",
                           "sigpyproc.foldedcube", "sigpyproc.simulation.furby"})
    # ---- R2 the law -------------------------------------------------------------------------
    cd = prog.func(PARAMS, "compute_dmdelays")
    flow = flow_of(cd)
    rets = [s for s in body_walk(cd.node) if isinstance(s, ast.Return)]
    # the function as a whole equals its definition (path-wise normal form: any arrangement of temporaries, early returns or
    # conditional expressions); the finer rules below name the clause when it does not, and need the one-return shape for that
    from .. import kernelspec as _ks9
    v9, why9 = _ks9.compare(cd, "compute_dmdelays")
    if v9 == "incomparable":
        raise AnalysisError(f"compute_dmdelays cannot be compared with its reference definition: {why9[0]}")
    (res.ok if v9 == "same" else res.bad)("R2", cd, cd.node, ("; ".join(why9))[:600], construct="compute_dmdelays", key="compute_dmdelays:definition")
    if v9 == "same":
        for key_ in ("law", "rounding", "shape"):
            res.ok("R2", cd, cd.node, "decided with the definition: the delay law, round-to-nearest before the int32 cast, only a scalar DM's axis dropped", key=key_)
    k = prog.const(PARAMS, "DM_CONSTANT_LK")
    key = "constant"
    if isinstance(k, ast.Constant) and abs(float(k.value) - 4.148808e3) < 1e-9:
        res.ok("R2", cd, k, "DM_CONSTANT_LK = 4.148808e3", key=key)
    else:
        res.bad("R2", cd, k, f"DM_CONSTANT_LK is {norm(k)}, not 4.148808e3", key=key)
    if v9 != "same":
        # name the clause that fails (these read the one-return, `delays`-named shape of the function)
        if len(rets) != 1:
            rets = [cd.node]
        law = [s for s in body_walk(cd.node) if isinstance(s, ast.Assign) and norm(s.targets[0]) == "delays"
               and not isinstance(parent(s), ast.If)]
        key = "law"
        ref = ast.parse("dm * DM_CONSTANT_LK * ((freqs**-2) - (ref_freq**-2))", mode="eval").body
        if len(law) == 1 and PolyEnv().poly(law[0].value) == PolyEnv().poly(ref):
            res.ok("R2", cd, law[0], "delay = dm * DM_CONSTANT_LK * (f^-2 - fref^-2): zero at fref, linear (antisymmetric) in DM", key=key)
        else:
            res.bad("R2", cd, law[0] if law else cd.node, "the delay formula is not dm * DM_CONSTANT_LK * (freqs**-2 - ref_freq**-2)", key=key,
                    construct="delay law")
        conv = [s for s in body_walk(cd.node) if isinstance(s, ast.Assign) and norm(s.targets[0]) == "delays" and isinstance(parent(s), ast.If)]
        key = "rounding"
        okc = len(conv) == 1 and norm(parent(conv[0]).test) == "in_samples" and norm(conv[0].value) == "(delays / tsamp).round().astype(np.int32)"
        if not okc and len(conv) == 1:
            v = conv[0].value
            # accept np.round(delays / tsamp).astype(np.int32) / np.rint
            okc = isinstance(v, ast.Call) and isinstance(v.func, ast.Attribute) and v.func.attr == "astype" and norm(v.args[0]) in ("np.int32", "'int32'") \
                and norm(v.func.value) in ("np.round(delays / tsamp)", "np.rint(delays / tsamp)", "(delays / tsamp).round()")
        if okc:
            res.ok("R2", cd, conv[0], "sample delays = round(delay / tsamp) then int32 (round-to-nearest before the integer cast)", key=key)
        else:
            res.bad("R2", cd, conv[0] if conv else cd.node, "the conversion to samples is not round(delays / tsamp) followed by the int32 cast "
                    "(a bare cast truncates toward zero)", key=key, construct="sample conversion")
        f32 = [s for s in body_walk(cd.node) if isinstance(s, ast.Assign) and norm(s.targets[0]) in ("freqs", "dm") and "float32" in norm(s.value)]
        dmshape = [s for s in body_walk(cd.node) if isinstance(s, ast.Assign) and norm(s.targets[0]) == "dm" and "[:, np.newaxis]" in norm(s.value)]
        key = "shape"
        fcd = flow_of(cd)
        scalar_sel = False
        if len(rets) == 1 and isinstance(rets[0].value, ast.IfExp) and norm(rets[0].value.body) == "delays[0]" and norm(rets[0].value.orelse) == "delays":
            # the choice is made on the dimensionality of the DM *as given* (before it is reshaped to a column)
            tx = fcd.expand(rets[0].value.test, fcd.cfg.node_for(rets[0]))
            from ..normalform import canon as _canon_r
            scalar_sel = strip_labels(_canon_r(tx)) in (_canon_r("np.ndim(dm) == 0"), _canon_r("np.isscalar(dm)"), _canon_r("np.asarray(dm).ndim == 0"))
        if dmshape and scalar_sel:
            res.ok("R2", cd, rets[0], "DM axis is broadcast against the frequency axis; only the DM axis of a scalar DM is dropped, so there is one delay "
                   "per channel for any channel count", key=key)
        else:
            res.bad("R2", cd, rets[0], "compute_dmdelays does not return (ndm, nchan) delays with exactly the DM axis of a scalar DM removed", key=key)

    # ---- R1 single source -----------------------------------------------------------------------
    gd = prog.func(HEADER, "Header.get_dmdelays")
    calls = [c for c in calls_in_body(gd.node) if (dotted(c.func) or "").endswith("compute_dmdelays")]
    key = "get_dmdelays"
    gflow = flow_of(gd)
    okg = len(calls) == 1 and isinstance(parent(calls[0]), ast.Return) and [
        norm(gflow.expand(a, gflow.cfg.node_for(calls[0]), stop={"fch_ref"})) for a in calls[0].args] == [
        "self.chan_freqs", "dm", "self.tsamp", "fch_ref"] and any(k.arg == "in_samples" and norm(k.value) == "in_samples" for k in calls[0].keywords)
    if okg:
        res.ok("R1", gd, calls[0], "get_dmdelays = compute_dmdelays(chan_freqs, dm, tsamp, reference, in_samples)", key=key)
    else:
        res.bad("R1", gd, gd.node, "get_dmdelays does not return compute_dmdelays(self.chan_freqs, dm, self.tsamp, fch_ref, in_samples=...)",
                construct="get_dmdelays", key=key)
    for f in prog.all_funcs():
        for n in body_walk(f.node):
            d = dotted(n) if isinstance(n, (ast.Name, ast.Attribute)) else None
            if d and d.split(".")[-1].startswith("DM_CONSTANT_"):
                key = f"const-use:{f.qualname}"
                if f.module.name == PARAMS and f.name in ("compute_dmdelays", "compute_dmsmearing"):
                    res.ok("R1", f, n, "dispersion constant used inside the single law implementation", key=key)
                else:
                    res.bad("R1", f, n, f"{f.qualname} applies a dispersion constant itself instead of calling compute_dmdelays", key=key)
    # consumers: delay-typed kernel parameters
    delay_params = {"dedisperse": "delays", "subband": "delays", "fold": "delays", "roll_block": "shifts", "roll_block_valid": "shifts",
                    "dmt_block": "dm_delays", "dmt_block_valid": "dm_delays", "disperse_block": "shifts"}
    nsites = 0
    for f in prog.all_funcs():
        if f.module.name == KMOD:
            continue
        fl = flow_of(f)
        for c in calls_in_body(f.node):
            for d in _kernel_alternatives(fl, c):
                nm = d.split(".")[-1]
                if not (nm in delay_params and d.startswith("kernels.") and prog.has_func(KMOD, nm)):
                    continue
                k = prog.func(KMOD, nm)
                arg = prog.bind_args(c, k).get(delay_params[nm])
                if arg is None:
                    continue
                nsites += 1
                deps = fl.deps(arg, fl.cfg.node_for(c))
                key = f"source:{f.qualname}:{nm}"
                literal_zero = norm(arg) == "np.array([0], dtype=np.int32)"
                if any(x.startswith("call:") and x.endswith("get_dmdelays") for x in deps):
                    res.ok("R1", f, c, f"delays given to {nm} come from Header.get_dmdelays", key=key)
                elif literal_zero:
                    res.ok("R1", f, c, f"{nm} is given the constant zero delay of an already dedispersed series", key=key)
                else:
                    res.bad("R1", f, c, f"the delays given to {nm} (`{norm(arg)}`) are not derived from Header.get_dmdelays", key=key)
    rd = prog.func("sigpyproc.readers", "FilReader.read_dedisp_block")
    fl = flow_of(rd)
    ms = [s for s in body_walk(rd.node) if isinstance(s, ast.Assign) and norm(s.targets[0]) == "min_sample"]
    key = "read_dedisp_block"
    if len(ms) == 1:
        nsites += 1
        p = PolyEnv().poly(fl.expand(ms[0].value, fl.cfg.node_for(ms[0])))
        atoms = [s for s in p.symbols() if "get_dmdelays" in s]
        if len(atoms) == 1 and p == Poly.sym("start") + Poly.sym(atoms[0]):
            res.ok("R3", rd, ms[0], "channel c's window starts at source sample start + delay_c", key=key)
        else:
            res.bad("R3", rd, ms[0], f"first source sample per channel is {p.canon()}, expected start + delays from get_dmdelays(dm)", key=key)
        _dedisp_block_window(prog, res, rd, fl)
    else:
        raise AnalysisError("read_dedisp_block: min_sample not found")
    fc = prog.func("sigpyproc.foldedcube", "FoldedData._get_dmdelays")
    okfc = any((dotted(c.func) or "").endswith("compute_dmdelays") for c in calls_in_body(fc.node))
    (res.ok if okfc else res.bad)("R1", fc, fc.node, "folded-cube DM drift uses params.compute_dmdelays" if okfc else
                                  "folded-cube DM drift no longer uses compute_dmdelays", construct="_get_dmdelays", key="foldedcube")

    # ---- R3 direction: index-form kernels (reference definitions) ----------------------------------
    for name in ("dedisperse", "subband", "fold"):
        fn = prog.func(KMOD, name)
        verdict, why = kernelspec.compare(fn)
        if verdict == "incomparable":
            raise AnalysisError(f"kernel {name} cannot be compared with its reference definition: {why[0]}")
        (res.ok if verdict == "same" else res.bad)("R3", fn, fn.node, (f"{name} reads source sample t + delays[c] for output sample t; " if
                                                                     verdict == "same" else "") + ("; ".join(why))[:400], construct=name, key=f"kernel:{name}")
    # ---- R3 direction: roll-form paths ---------------------------------------------------------------
    contracts = {}
    for name in ("roll_block", "roll_block_valid", "dmt_block", "dmt_block_valid"):
        sigma, why = _shift_contract(prog, res, name)
        fn = prog.func(KMOD, name)
        contracts[name] = sigma
        if sigma is None:
            res.bad("R3", fn, fn.node, f"cannot derive the shift direction of {name}: {why}", construct=name, key=f"contract:{name}")
        else:
            res.ok("R3", fn, fn.node, f"{name}: res[t] = arr[t {'-' if sigma > 0 else '+'} shift] ({why})", construct=name, key=f"contract:{name}")
    blk = prog.module("sigpyproc.block")
    npaths = 0
    for f in blk.funcs.values():
        fl = flow_of(f)
        for c in calls_in_body(f.node):
            # the kernel may be chosen by a conditional expression / if-else before the call: every alternative is a path
            fx = fl.expand(c.func, fl.cfg.node_for(c)) if isinstance(c.func, ast.Name) else c.func
            leaves = []

            def _collect(e):
                if isinstance(e, ast.IfExp):
                    _collect(e.body)
                    _collect(e.orelse)
                else:
                    leaves.append(dotted(e) or "")
            _collect(fx)
            if not (leaves and all(l.startswith("kernels.") and l.split(".")[-1] in contracts for l in leaves)):
                continue
            for d in leaves:
                nm = d.split(".")[-1]
                npaths += 1
                key = f"path:{f.qualname}:{nm}"
                sigma = contracts[nm]
                if sigma is None or len(c.args) < 2:
                    res.bad("R3", f, c, f"direction of {nm} unknown", key=key)
                    continue
                p = PolyEnv().poly(fl.expand(c.args[1], fl.cfg.node_for(c)))
                atoms = [s for s in p.symbols() if "get_dmdelays" in s]
                if len(atoms) != 1 or not (p - p.coeff_of(atoms[0]) * Poly.sym(atoms[0])).is_zero() or not p.coeff_of(atoms[0]).is_const():
                    res.bad("R3", f, c, f"the shifts given to {nm} are not +/- the delays from get_dmdelays", key=key)
                    continue
                coef = p.coeff_of(atoms[0]).const_value()
                # res[t] = arr[t - sigma*coef*delay]; need arr[t + delay]
                if -sigma * coef == 1:
                    res.ok("R3", f, c, f"{nm} receives {'-' if coef < 0 else '+'}delays: output sample t reads source t + delay", key=key)
                else:
                    res.bad("R3", f, c, f"{nm} shifts rows right for positive shifts (res[t] = arr[t - shift]) and receives "
                            f"{'+' if coef > 0 else '-'}delays: output sample t reads source t - delay, i.e. the block is dispersed further "
                            f"instead of dedispersed", key=key)
    if npaths < 4:
        raise AnalysisError(f"only {npaths} roll-form dedispersion paths found in block.py (4 confirmed by hand)")
    for nm, why in ADDS_DISPERSION.items():
        res.notes.append(f"excluded from the direction rule by role: {nm} ({why})")

    # ---- R6 streamed dedispersion: block offsets are consistent with the plan (shared with C06.R2) --------
    from .c06 import _kernel_reduction
    scratch = Result("C06", prog)
    _kernel_reduction(prog, scratch, "dedisperse", "dedisperse",
                      {"inarray": "data", "nchans": "nchans", "nsamps": "count", "index": "index", "maxdelay": "maxdelay"},
                      "outarray", Poly.sym("RANGE_LEN"), minus_skipback=True)
    for o in scratch.obligations:
        res.add("R6", None, None, o.ok, f"[{o.rule}] {o.detail}", construct=o.construct, key=f"{o.rule}:{o.key}", where=o.where)
        res.obligations[-1].file, res.obligations[-1].line = o.file, o.line

    # ---- R5b the frequencies the law is evaluated at (shared with C08.R7) -----------------------------------
    from .c08 import _header_algebra
    scratch = Result("C08", prog)
    _header_algebra(prog, scratch, "R7")
    for o in scratch.obligations:
        if o.key in ("hdr:chan_freqs", "hdr:fmax", "hdr:fmin", "hdr:fcenter", "hdr:ftop"):
            res.add("R5", None, None, o.ok, f"[{o.rule}] {o.detail}", construct=o.construct, key=f"{o.rule}:{o.key}", where=o.where)
            res.obligations[-1].file, res.obligations[-1].line = o.file, o.line

    # ---- R4 valid width agreement -----------------------------------------------------------------------
    _valid_width(prog, res)

    # ---- R5 reference choice ---------------------------------------------------------------------------------
    hdr = prog.cls(HEADER, "Header")
    from ..normalform import canon
    from ..pathcond import path_conditions, rejection
    key = "ref-names"
    fgd = flow_of(gd)
    pcg = path_conditions(fgd)
    ga = [c for c in calls_in_body(gd.node) if dotted(c.func) == "getattr" and len(c.args) >= 2 and isinstance(c.args[1], ast.JoinedStr)]
    names: list = []
    okt = False
    fact = None
    if len(ga) == 1 and norm(ga[0].args[0]) == "self":
        js = ga[0].args[1]
        fields = [v for v in js.values if isinstance(v, ast.FormattedValue)]
        lits = [v.value for v in js.values if isinstance(v, ast.Constant)]
        if len(fields) == 1 and lits == ["f"] and isinstance(js.values[0], ast.Constant):
            okt = True
            sel = canon(fgd.expand(fields[0].value, fgd.cfg.node_for(ga[0])))

            def allowed(e, pol):
                if isinstance(e, ast.Compare) and len(e.ops) == 1 and ((isinstance(e.ops[0], ast.In) and pol) or (isinstance(e.ops[0], ast.NotIn) and not pol)):
                    return True
                return False
            for f_ in pcg.facts_at(ga[0]):
                if allowed(f_.expr, f_.pol) and canon(fgd.expand(f_.expr.left, f_.test_node)) == sel:
                    try:
                        names = sorted(ast.literal_eval(f_.expr.comparators[0]))
                        fact = f_
                    except (ValueError, SyntaxError):
                        names = []
    if fact is None:
        res.bad("R5", gd, gd.node, "get_dmdelays no longer validates the reference-frequency name before resolving it", construct="ref_freq", key=key)
    else:
        missing = [n for n in names if f"f{n}" not in hdr.methods and f"f{n}" not in hdr.fields]
        if okt and not missing and {"max", "min", "center", "ch1"} <= set(names) and "ValueError" in (rejection(pcg, fact) or ()):
            res.ok("R5", gd, ga[0], f"the reference name is checked against {names} and resolves to the Header attribute f<name>; anything else raises ValueError", key=key)
        else:
            res.bad("R5", gd, ga[0], f"reference-frequency names {names or '(not a literal set)'} are not resolved through the Header attributes "
                    f"f<name> (fmax/fmin/fcenter/fch1, missing {missing}): a separate lookup can disagree with them (e.g. for ascending bands)", key=key)
    # ---- R2 (cont.) one delay per channel for any channel count: no unqualified squeeze on the delay arrays (F34) ----
    from ..lints import check_no_bare_squeeze
    check_no_bare_squeeze(prog, res, "R2", ["sigpyproc.params"], "with one channel (or one sub-band) the delays become a 0-d array that "
                          "cannot be indexed per channel")
    # ---- R3 (cont.) no negative delay reaches an index-form kernel (F38) ------------------------------------------------
    from ..lints import check_delay_sign
    if check_delay_sign(prog, res, "R3") < 3:
        raise AnalysisError("fewer than 3 index-form kernel call sites (dedisperse, subband, fold) found in base.py")
    # ---- R7 the plan the streamed dedispersion consumes (shared with C01) -------------------------------------------
    depends(res, "R7", prog, tier, "C01", why="the blocks these loops consume come from read_plan: the plan rules of C01 (and, through them, the multi-file stream rules of C02) are re-evaluated here")
    res.floor("R7", 40)
    res.floor("R1", 12)
    res.floor("R2", 4)
    res.floor("R3", 13)
    res.floor("R4", 2)
    res.floor("R5", 6)
    res.floor("R6", 8)
    if nsites < 7:
        raise AnalysisError(f"only {nsites} delay consumer sites found (9 confirmed by hand; two conditional call sites may be written as one)")


def _ancestors(n: ast.AST):
    p_ = parent(n)
    while p_ is not None:
        yield p_
        p_ = parent(p_)


def _valid_width(prog: Program, res: Result) -> None:
    """Width of each assigned row == declared width of the result, in dmt_block_valid."""
    env = lambda names=None: PolyEnv(names or {}, atom_hook=transparent_casts)  # noqa: E731

    def alloc_width(fn: FuncInfo, resname: str):
        fl = flow_of(fn)
        for s in body_walk(fn.node):
            if isinstance(s, ast.Assign) and norm(s.targets[0]) == resname and isinstance(s.value, ast.Call) \
                    and dotted(s.value.func) in ("np.empty", "np.zeros") and isinstance(s.value.args[0], ast.Tuple):
                w = s.value.args[0].elts[-1]
                return fl.expand(w, fl.cfg.node_for(s)), s
        return None, None

    rbv = prog.func(KMOD, "roll_block_valid")
    w_expr, _ = alloc_width(rbv, "res")
    dv = prog.func(KMOD, "dmt_block_valid")
    fl = flow_of(dv)
    dw_expr, dalloc = alloc_width(dv, "res")
    if dw_expr is None:
        raise AnalysisError("dmt_block_valid: result allocation not found")
    declared = env().poly(dw_expr)
    stores = [s for s in body_walk(dv.node) if isinstance(s, (ast.Assign, ast.AugAssign)) and
              isinstance(s.targets[0] if isinstance(s, ast.Assign) else s.target, ast.Subscript) and
              dotted(_base(s.targets[0] if isinstance(s, ast.Assign) else s.target)) == "res"]
    if not stores:
        raise AnalysisError("dmt_block_valid: no store into res")
    for st in stores:
        val = st.value
        key = f"dmt_block_valid:{norm(st)[:50]}"
        width = None
        inner = val
        if isinstance(inner, ast.Call) and dotted(inner.func) in ("np.sum",) and inner.args:
            inner = inner.args[0]
        if isinstance(inner, ast.Call) and (dotted(inner.func) or "").endswith("roll_block_valid") and w_expr is not None:
            pr = rbv.positional_params
            sub = {pr[0]: inner.args[0], pr[1]: inner.args[1]}
            # substitute parameters textually in the callee's width expression
            class S(ast.NodeTransformer):
                def visit_Name(self, n):  # noqa: N802
                    if n.id in sub:
                        from ..dataflow import clone
                        return clone(sub[n.id])
                    return n
            from ..dataflow import clone
            wx = S().visit(clone(w_expr))
            # callee's ncols is arr.shape[1] == caller's nsamps (same array)
            width = env().poly(ast.fix_missing_locations(wx))
            # normalise: caller names for the same array dims
            width_txt = width.canon().replace("arr.shape[1]", "nsamps")
            decl_txt = declared.canon().replace("arr.shape[1]", "nsamps")
            same = width_txt == decl_txt
        elif isinstance(inner, ast.Subscript) and _last_axis_slice(inner) is not None:
            sl = _last_axis_slice(inner)
            at = fl.cfg.node_for(st)
            hi = env().poly(fl.expand(sl.upper, at)) if sl.upper is not None else None
            lo = env().poly(fl.expand(sl.lower, at)) if sl.lower is not None else Poly.const(0)
            width = hi - lo if hi is not None else None
            same = width is not None and width == declared
            width_txt = width.canon() if width is not None else "?"
            decl_txt = declared.canon()
            # one time origin for all rows: column 0 of every DM row is input sample (max positive shift over ALL DMs),
            # read at that sample plus this channel's shift - a per-row origin slides the rows against each other and
            # against the tstart the caller records
            origin = env().poly(ast.parse("max(0, np.max(dm_delays))", mode="eval").body)
            loops_ = [p_ for p_ in _ancestors(st) if isinstance(p_, ast.For)]
            # what is subtracted from the common origin must be THIS row's, this channel's delay: dm_delays[idm, irow] in either
            # subscript spelling, or the element a loop over dm_delays[idm] yields
            diff_ = origin - lo
            syms_ = sorted(diff_.symbols())
            ok_origin = False
            shown_ = diff_.canon()[:80]
            if len(syms_) == 1 and diff_ == Poly.sym(syms_[0]) and len(loops_) == 2:
                inner_, outer_ = loops_[0], loops_[1]
                oi_ = norm(outer_.target) if isinstance(outer_.target, ast.Name) else None
                it_ = inner_.iter
                elem_of_row = None
                if isinstance(it_, ast.Call) and dotted(it_.func) == "enumerate" and it_.args and isinstance(inner_.target, ast.Tuple) and len(inner_.target.elts) == 2:
                    if norm(it_.args[0]) == f"dm_delays[{oi_}]":
                        elem_of_row = norm(inner_.target.elts[1])
                elif norm(it_) == f"dm_delays[{oi_}]" and isinstance(inner_.target, ast.Name):
                    elem_of_row = norm(inner_.target)
                ii_ = norm(inner_.target) if isinstance(inner_.target, ast.Name) else (norm(inner_.target.elts[0]) if isinstance(inner_.target, ast.Tuple) else None)
                accepted = {env().poly(ast.parse(t_, mode="eval").body).canon() for t_ in (f"dm_delays[{oi_}, {ii_}]", f"dm_delays[{oi_}][{ii_}]") if oi_ and ii_}
                ok_origin = diff_.canon() in accepted or (elem_of_row is not None and syms_[0] == elem_of_row)
            (res.ok if ok_origin else res.bad)("R4", dv, st, "every row starts at input column (max positive shift over all DMs) - (this channel's delay at this DM): one time origin" if ok_origin else
                                               f"the slice starts at `{lo.canon()[:120]}`: (max positive shift over ALL delays) minus it is `{shown_}`, not this channel's delay at this DM - "
                                               "the DM rows no longer share one time origin", key="dmt_block_valid:origin")
        else:
            res.bad("R4", dv, st, "cannot determine the width of the row assigned", key=key)
            continue
        if same:
            res.ok("R4", dv, st, f"row width {width_txt[:90]} equals the declared output width", key=key)
        else:
            res.bad("R4", dv, st, f"each row assigned has width [{width_txt[:140]}] (valid region of ONE DM's delays) but the result was "
                    f"declared with width [{decl_txt[:140]}] (valid region over ALL DMs): the assignment fails for any non-degenerate DM range",
                    key=key)
    # declared width is nsamps + min(0, min delays) - max(0, max delays)
    want = env().poly(ast.parse("nsamps + min(0, np.min(dm_delays)) - max(0, np.max(dm_delays))", mode="eval").body)
    key = "dmt_block_valid:declared"
    want_shape = env().poly(ast.parse("arr.shape[1] + min(0, np.min(dm_delays)) - max(0, np.max(dm_delays))", mode="eval").body)
    decl_norm = declared.canon()
    if declared in (want, want_shape):
        res.ok("R4", dv, dalloc, "declared width = nsamps - (max positive shift) + (min negative shift)", key=key)
    else:
        res.bad("R4", dv, dalloc, f"declared valid width is {decl_norm}, expected {want.canon()}", key=key)


BL = "sigpyproc/block.py"
K = "sigpyproc/core/kernels.py"
P = "sigpyproc/params.py"
MUTANTS = [
    {"id": "c09-revert-F38-dedisperse", "file": "sigpyproc/base.py", "expect": "C09.R3",
     "old": "        chan_delays = self.header.get_dmdelays(dm)\n        # Channels that lead the reference (ascending band, negative DM) have\n        # negative delays: count them from the earliest channel instead\n        min_delay = min(0, int(chan_delays.min()))\n        chan_delays = chan_delays - min_delay\n        max_delay = int(chan_delays.max())\n        gulp = max(2 * max_delay, gulp)\n        nsamps_range = ", "new": "        chan_delays = self.header.get_dmdelays(dm)\n        min_delay = 0\n        max_delay = int(chan_delays.max())\n        gulp = max(2 * max_delay, gulp)\n        nsamps_range = "},
    {"id": "c09-revert-F34", "file": "sigpyproc/params.py", "expect": "C09.R2",
     "old": "    # Only the DM axis of a scalar DM is dropped: one channel stays a 1D array\n    return delays[0] if scalar_dm else delays\n", "new": "    return delays.squeeze()\n"},
    {"id": "c09-delays-first-row-always", "file": "sigpyproc/params.py", "expect": "C09.R2",
     "old": "    return delays[0] if scalar_dm else delays\n", "new": "    return delays[0]\n"},
    {"id": "c09-revert-F27", "file": "sigpyproc/readers.py", "expect": "C09.R3",
     "old": "            range(first_sample, last_sample),", "new": "            range(start, start + nsamps),"},
    {"id": "c09-F27-seek-start", "file": "sigpyproc/readers.py", "expect": "C09.R3",
     "old": "        self._file.seek(first_sample * self.samp_stride)", "new": "        self._file.seek(start * self.samp_stride)"},
    {"id": "c09-window-closed", "file": "sigpyproc/readers.py", "expect": "C09.R3",
     "old": "                    max_sample > samples_offset,", "new": "                    max_sample >= samples_offset,"},
    {"id": "c09-dedisp-unnegated", "file": BL, "expect": "C09.R3",
     "old": "            new_ar = kernels.roll_block(self.data, -delays)", "new": "            new_ar = kernels.roll_block(self.data, delays)"},
    {"id": "c09-valid-unnegated", "file": BL, "expect": "C09.R3",
     "old": "            new_ar = kernels.roll_block_valid(self.data, -delays)", "new": "            new_ar = kernels.roll_block_valid(self.data, delays)"},
    {"id": "c09-dmt-unnegated", "file": BL, "expect": "C09.R3",
     "old": "            new_ar = kernels.dmt_block(self.data, -dm_delays)", "new": "            new_ar = kernels.dmt_block(self.data, dm_delays)"},
    {"id": "c09-subband-minus", "file": K, "expect": "C09.R3",
     "old": "                nchans * (isamp + delays[ichan]) + ichan\n            ]", "new": "                nchans * (isamp - delays[ichan]) + ichan\n            ]"},
    {"id": "c09-no-round", "file": P, "expect": "C09.R2",
     "old": "        delays = (delays / tsamp).round().astype(np.int32)", "new": "        delays = (delays / tsamp).astype(np.int32)"},
    {"id": "c09-constant-mt", "file": P, "expect": "C09.R2",
     "old": "    delays = dm * DM_CONSTANT_LK * ((freqs**-2) - (ref_freq**-2))", "new": "    delays = dm * DM_CONSTANT_MT * ((freqs**-2) - (ref_freq**-2))"},
    {"id": "c09-law-ref-sign", "file": P, "expect": "C09.R2",
     "old": "    delays = dm * DM_CONSTANT_LK * ((freqs**-2) - (ref_freq**-2))", "new": "    delays = dm * DM_CONSTANT_LK * ((ref_freq**-2) - (freqs**-2))"},
    {"id": "c09-roll-kernel-flip", "file": K, "expect": "C09.R3",
     "old": "            res[irow, shift:] = arr[irow, : ncols - shift]\n            res[irow, :shift] = arr[irow, ncols - shift :]",
     "new": "            res[irow, : ncols - shift] = arr[irow, shift:]\n            res[irow, ncols - shift :] = arr[irow, :shift]"},
    {"id": "c09-own-delay-formula", "file": "sigpyproc/base.py", "expect": "C09.R1",
     "old": "        chan_delays = self.header.get_dmdelays(dm)\n        # Channels that lead the reference (ascending band, negative DM) have\n        # negative delays: count them from the earliest channel instead\n        min_delay = min(0, int(chan_delays.min()))\n        chan_delays = chan_delays - min_delay\n        max_delay = int(chan_delays.max())\n        gulp = max(2 * max_delay, gulp)\n        nsamps_range",
     "new": "        chan_delays = (4.15e3 * dm * (self.header.chan_freqs**-2 - self.header.fch1**-2) / self.header.tsamp).astype(\"int32\")\n        min_delay = min(0, int(chan_delays.min()))\n        chan_delays = chan_delays - min_delay\n        max_delay = int(chan_delays.max())\n        gulp = max(2 * max_delay, gulp)\n        nsamps_range"},
    {"id": "c09-getdm-wrong-tsamp", "file": "sigpyproc/header.py", "expect": "C09.R1",
     "old": "            self.chan_freqs,\n            dm,\n            self.tsamp,\n            fch_ref,\n            in_samples=in_samples,\n        )\n\n    def get_dmsmearing(",
     "new": "            self.chan_freqs,\n            dm,\n            self.tobs,\n            fch_ref,\n            in_samples=in_samples,\n        )\n\n    def get_dmsmearing("},
    {"id": "c09-readdedisp-minus", "file": "sigpyproc/readers.py", "expect": "C09.R3",
     "old": "        min_sample = start + delays", "new": "        min_sample = start - delays"},
    {"id": "c09-valid-width-per-row", "file": K, "expect": "C09.R4",
     "old": "    valid_samples = nsamps + min_neg_shift - max_pos_shift\n", "new": "    valid_samples = nsamps - max_pos_shift\n"},
    {"id": "c09-ref-name", "file": "sigpyproc/header.py", "expect": "C09.R5",
     "old": "if ref_freq not in {\"max\", \"min\", \"center\", \"ch1\"}:", "new": "if ref_freq not in {\"max\", \"min\", \"centre\", \"ch1\"}:"},
    {"id": "c09-dmt-kernel-negates", "file": K, "expect": "C09.R3",
     "old": "        res[idm] = np.sum(roll_block(arr, dm_delays[idm]), axis=0)", "new": "        res[idm] = np.sum(roll_block(arr, -dm_delays[idm]), axis=0)"},
]
MUTANTS += [
    {"id": "c09-dmt-valid-per-row-origin", "file": "sigpyproc/core/kernels.py", "expect": "C09.R4",
     "old": "            res[idm] += arr[irow, max_pos_shift - shift : end_col - shift]", "new": "            row_origin = max(0, np.max(dm_delays[idm]))\n            res[idm] += arr[irow, row_origin - shift : row_origin - shift + valid_samples]"},
]
TWINS = [
    {"id": "c09-twin-neg-var", "file": BL,
     "old": "            new_ar = kernels.roll_block(self.data, -delays)", "new": "            shifts = -1 * delays\n            new_ar = kernels.roll_block(self.data, shifts)"},
    {"id": "c09-twin-law-distributed", "file": P,
     "old": "    delays = dm * DM_CONSTANT_LK * ((freqs**-2) - (ref_freq**-2))", "new": "    delays = DM_CONSTANT_LK * dm * (freqs**-2) - DM_CONSTANT_LK * dm * (ref_freq**-2)"},
    {"id": "c09-twin-round-np", "file": P,
     "old": "        delays = (delays / tsamp).round().astype(np.int32)", "new": "        delays = np.round(delays / tsamp).astype(np.int32)"},
]
