"""C07 - streaming file-to-file transforms equal their whole-array definitions (structural clauses)."""
from __future__ import annotations

import ast

from .. import kernelspec
from ..cfg import always_raises
from ..model import AnalysisError, FuncInfo, Program, body_walk, calls_in_body, dotted, norm, parent
from ..poly import Poly, PolyEnv
from ..props import transparent_casts
from ..report import Result, depends
from ..stream import cwrite_calls, dict_literal_keys, prep_calls, writer_handles
from ..streamops import KMOD, StreamOp

TITLE = "Streaming file-to-file transforms equal their whole-array definitions"
LEVEL = "other"
TECHNIQUE = ("static analysis: kernel-vs-reference comparison modulo polynomial normal form, call-site slot roles, "
             "per-block accumulator discipline, selection-index algebra")
EXPLANATION = (
    "For invert_freq, apply_channel_mask, downsample, extract_samps/chans/bands, requantize, remove_zerodm and subband the "
    "check decides from the source: (R1) the kernels equal their reference definitions on the flat time-major block modulo "
    "renaming and polynomial normal form; (R2) at each call site the kernel's dimension/stride slots receive this block, "
    "header.nchans, the yielded count, the plan's skipback and the factors that the output header is scaled by; (R3) a "
    "buffer that a kernel updates with += and that is written out inside the loop is zeroed in every iteration; (R4) the "
    "decimation gulp is a whole multiple of the time factor and a non-dividing frequency factor is rejected before any "
    "output exists; (R5) what is written in an iteration is exactly the block just computed (right slice length, right "
    "column/band selection for each output file); (R6) the writer converts to the declared sample width (shared with "
    "C04); (R7) what the transforms consume is right: the read plan (C01's rules re-evaluated) and, for remove_zerodm, the "
    "bandpass reduction and its kernel (C06's rules for bandpass re-evaluated). Not decided: sample values and the zero-DM quantisation tolerance. "
    "Since F38/F52: no negative delay reaches the sub-banding kernel (R2), and a sub-band count that does not divide nchans is rejected before the output exists (R4)."
    " Since F54/F55: the 2-D mean decimator's C14 obligations (definition, float64 accumulator, exact division) are re-evaluated (R7), and extract_chans rejects a selection as soon as any channel is out of range (R4)."
)
BASE = "sigpyproc.base"


def _single_loop(prog: Program, name: str) -> tuple[StreamOp, object]:
    op = StreamOp(prog, prog.func(BASE, f"Filterbank.{name}"))
    if len(op.loops) != 1:
        raise AnalysisError(f"{name}: expected exactly one read_plan loop, found {len(op.loops)}")
    return op, op.loops[0]


def _one_kernel(op: StreamOp, lp, kname: str):
    kcs = [(c, k) for c, k in op.kernel_calls(lp) if k.name == kname]
    if len(kcs) != 1:
        raise AnalysisError(f"{op.fn.qualname}: expected one kernels.{kname} call inside the read_plan loop, found {len(kcs)}")
    return kcs[0]


def _written(op: StreamOp, lp) -> list[ast.Call]:
    return [c for c in cwrite_calls(op.fn) if lp.in_body(c)]


def _updates(op: StreamOp) -> dict[str, ast.AST]:
    """Literal header updates given to prep_outfile (through a local dict name if needed)."""
    out: dict[str, ast.AST] = {}
    for c in prep_calls(op.fn):
        for kw in c.keywords:
            if kw.arg == "updates":
                v = kw.value
                if isinstance(v, ast.Name):
                    ds = [d for d in op.flow.reaching(v.id, op.cfg.node_for(c)) if d.kind == "assign"]
                    if len(ds) == 1:
                        v = ds[0].value
                d = dict_literal_keys(v)
                if d:
                    out.update(d)
    return out


def run(prog: Program, res: Result, tier: str) -> None:
    prog.consulted.update({BASE, KMOD, "sigpyproc.io.fileio", "sigpyproc.header"})
    for name in ("invert_freq", "mask_channels", "remove_zerodm", "subband", "downsample_2d_mean_flat"):
        fn = prog.func(KMOD, name)
        verdict, why = kernelspec.compare(fn)
        if verdict == "incomparable":
            raise AnalysisError(f"kernel {name} cannot be compared with its reference definition: {why[0]}")
        (res.ok if verdict == "same" else res.bad)("R1", fn, fn.node, ("; ".join(why))[:600], construct=name, key=name)

    # ---- invert_freq --------------------------------------------------------------------
    op, lp = _single_loop(prog, "invert_freq")
    call, k = _one_kernel(op, lp, "invert_freq")
    op.check_roles(res, "R2", lp, call, k, {"array": "data", "nchans": "nchans", "nsamps": "count"})
    _written_is(res, op, lp, "invert_freq", lambda a, c: _is_result_of(op, a, call, c), "the array returned by kernels.invert_freq for this block")

    # ---- apply_channel_mask ----------------------------------------------------------------
    op, lp = _single_loop(prog, "apply_channel_mask")
    call, k = _one_kernel(op, lp, "mask_channels")
    op.check_roles(res, "R2", lp, call, k, {"array": "data", "nchans": "nchans", "nsamps": "count"})
    _written_is(res, op, lp, "apply_channel_mask",
                lambda a, c: norm(a) == lp.data and op.cfg.must_pass(op.cfg.node_for(lp.node), op.cfg.node_for(c), {op.cfg.node_for(call)}),
                "this block after the mask kernel has run on it")

    # ---- downsample ----------------------------------------------------------------------------
    op, lp = _single_loop(prog, "downsample")
    fn = op.fn
    call, k = _one_kernel(op, lp, "downsample_2d_mean_flat")
    ups = _updates(op)
    tfac = ffac = None
    if "tsamp" in ups:
        p = op.poly(ups["tsamp"], ups["tsamp"])
        c = p.coeff_of("self.header.tsamp")
        if len(c.symbols()) == 1 and c == Poly.sym(next(iter(c.symbols()))):
            tfac = next(iter(c.symbols()))
    if "nchans" in ups and isinstance(ups["nchans"], ast.BinOp) and isinstance(ups["nchans"].op, ast.FloorDiv) \
            and norm(ups["nchans"].left) == "self.header.nchans" and isinstance(ups["nchans"].right, ast.Name):
        ffac = ups["nchans"].right.id
    if tfac is None or ffac is None:
        raise AnalysisError("downsample: cannot identify the time/frequency factors from the header updates")
    op.check_roles(res, "R2", lp, call, k, {"array": "data", "dim1": "count", "dim2": "nchans"})
    b = prog.bind_args(call, k)
    for param, want, what in (("factor1", tfac, "time"), ("factor2", ffac, "frequency")):
        key = f"Filterbank.downsample:downsample_2d_mean_flat:{param}"
        if norm(b.get(param, ast.Constant(None))) == want:
            res.ok("R2", fn, call, f"{param} (factor of the {'slow' if param == 'factor1' else 'fast'} axis) receives the {what} factor '{want}'", key=key)
        else:
            res.bad("R2", fn, call, f"{param} receives `{norm(b.get(param, ast.Constant(None)))}`, expected the {what} factor '{want}' that the "
                    f"output header is scaled by", key=key)
    _written_is(res, op, lp, "downsample", lambda a, c: _is_result_of(op, a, call, c), "the decimated array returned by the kernel for this block")
    # R4 gulp multiple of tfactor
    g = op.gulp_name(lp)
    ds = [d for d in op.flow.reaching(g, op.cfg.node_for(lp.call)) if d.kind == "assign"]
    key = "downsample:gulp-multiple"
    okm = False
    if len(ds) == 1:
        p = PolyEnv(atom_hook=transparent_casts).poly(ds[0].value)
        okm = bool(p.t) and all(dict(m).get(tfac, 0) == 1 for m in p.t) and all(
            all(s == tfac or s.startswith(("np.ceil(", "math.ceil(", "FloorDiv(")) for s, _ in m) for m in p.t)
    if okm:
        res.ok("R4", fn, ds[0].stmt, f"gulp is rounded to an integer multiple of {tfac}: decimation groups never straddle a block", key=key)
    else:
        res.bad("R4", fn, lp.call, f"the gulp handed to read_plan is not provably an integer multiple of the time factor {tfac}: "
                f"groups of {tfac} samples would straddle block boundaries", key=key)
    from ..pathcond import path_conditions, rejection
    key = "downsample:ffactor-guard"
    preps = prep_calls(fn)
    pcd = path_conditions(op.flow)

    def divides(e, pol):
        """the fact `nchans % ffactor == 0` in any spelling"""
        t = e
        if isinstance(t, ast.Compare) and len(t.ops) == 1 and norm(t.comparators[0]) == "0" and isinstance(t.ops[0], (ast.Eq, ast.NotEq)):
            pol = pol if isinstance(t.ops[0], ast.Eq) else not pol
            t = t.left
        else:
            pol = not pol   # truthiness of the remainder
        return pol and isinstance(t, ast.BinOp) and isinstance(t.op, ast.Mod) and norm(t.left) == "self.header.nchans" and norm(t.right) == ffac

    facts = [pcd.truth(p, divides) for p in preps]
    if preps and all(f is not None and rejection(pcd, f) is not None for f in facts):
        res.ok("R4", fn, preps[0], "a frequency factor that does not divide nchans is rejected before the output file is created", key=key)
    else:
        res.bad("R4", fn, fn.node, "no guard rejects a non-dividing frequency factor before the output is created", construct="downsample", key=key)

    # ---- remove_zerodm ---------------------------------------------------------------------------------
    op, lp = _single_loop(prog, "remove_zerodm")
    fn = op.fn
    call, k = _one_kernel(op, lp, "remove_zerodm")
    op.check_roles(res, "R2", lp, call, k, {"inarray": "data", "nchans": "nchans", "nsamps": "count"})
    b = prog.bind_args(call, k)
    bp = op.flow.expand(b["bpass"], op.cfg.node_for(call)) if "bpass" in b else None
    cw = op.flow.expand(b["chanwts"], op.cfg.node_for(call)) if "chanwts" in b else None
    key = "Filterbank.remove_zerodm:weights"
    okw = bp is not None and cw is not None and norm(bp).startswith("self.bandpass(") and norm(bp).endswith(".data") and \
        norm(cw) == f"{norm(bp)} / {norm(bp)}.sum()"
    if okw:
        res.ok("R2", fn, call, "bpass is the file bandpass and chanwts = bpass / bpass.sum()", key=key)
    else:
        res.bad("R2", fn, call, "bpass / chanwts arguments are not (bandpass, bandpass normalised to unit sum)", key=key)
    out = b.get("outarray")
    nch = Poly.sym("self.header.nchans")

    def zerodm_slice(a, c):
        return isinstance(a, ast.Subscript) and isinstance(out, ast.Name) and dotted(a.value) == out.id and isinstance(a.slice, ast.Slice) \
            and a.slice.lower is None and a.slice.upper is not None and op.poly(a.slice.upper, c, stop={lp.count}) == Poly.sym(lp.count) * nch \
            and op.cfg.must_pass(op.cfg.node_for(lp.node), op.cfg.node_for(c), {op.cfg.node_for(call)})
    _written_is(res, op, lp, "remove_zerodm", zerodm_slice, "the first count*nchans elements of the kernel's output buffer")
    _scratch_big_enough(res, op, fn, lp, out, "remove_zerodm", nch)

    # ---- subband ------------------------------------------------------------------------------------------
    op, lp = _single_loop(prog, "subband")
    fn = op.fn
    call, k = _one_kernel(op, lp, "subband")
    op.check_roles(res, "R2", lp, call, k, {"inarray": "data", "nchans": "nchans", "nsamps": "count", "maxdelay": "maxdelay"})
    b = prog.bind_args(call, k)
    ups = _updates(op)
    key = "Filterbank.subband:subband:nsubs"
    if "nchans" in ups and norm(b.get("nsubs", ast.Constant(None))) == norm(ups["nchans"]):
        res.ok("R2", fn, call, f"kernel nsubs = the output header's nchans ({norm(ups['nchans'])})", key=key)
    else:
        res.bad("R2", fn, call, "kernel nsubs is not the channel count recorded in the output header", key=key)
    op.check_accumulators(res, "R3", lp, call, k, consumed_in_loop=True)
    # a sub-band count that does not divide nchans makes `arange(nchans) // (nchans // nsub)` exceed nsub - 1: the kernel then adds into the
    # NEXT sample's cells (a race between prange iterations) and past the end of the buffer.  It must be rejected before the output exists (F52).
    from ..pathcond import path_conditions as _pc7, rejection as _rej7
    pcs = _pc7(op.flow)
    nsub_txt = norm(b.get("nsubs", ast.Constant(None)))

    def divides_nsub(e, pol):
        t = e
        if isinstance(t, ast.Compare) and len(t.ops) == 1 and norm(t.comparators[0]) == "0" and isinstance(t.ops[0], (ast.Eq, ast.NotEq)):
            pol = pol if isinstance(t.ops[0], ast.Eq) else not pol
            t = t.left
        else:
            pol = not pol
        return pol and isinstance(t, ast.BinOp) and isinstance(t.op, ast.Mod) and norm(t.left) == "self.header.nchans" and norm(t.right) == nsub_txt
    preps_s = prep_calls(fn)
    facts_s = [pcs.truth(p_, divides_nsub) or pcs.truth(p_, divides_nsub, expanded=True) for p_ in preps_s]
    key = "subband:nsub-guard"
    if preps_s and all(f_ is not None and _rej7(pcs, f_) is not None for f_ in facts_s):
        res.ok("R4", fn, preps_s[0], "a sub-band count that does not divide nchans is rejected before the output file is created", key=key)
    else:
        res.bad("R4", fn, fn.node, "no guard rejects a sub-band count that does not divide nchans: the channel-to-sub-band map then reaches nsub and the kernel "
                "writes into the next sample's cells and past the end of its buffer", construct="subband", key=key)
    out = b.get("outarray")
    G, S, stride = op.stride(lp)
    nsub = op.poly(b["nsubs"], call) if "nsubs" in b else Poly.sym("?")

    def sub_slice(a, c):
        return isinstance(a, ast.Subscript) and isinstance(out, ast.Name) and dotted(a.value) == out.id and isinstance(a.slice, ast.Slice) \
            and a.slice.lower is None and a.slice.upper is not None and \
            op.poly(a.slice.upper, c, stop={lp.count, op.gulp_name(lp)}) == (Poly.sym(lp.count) - S) * nsub \
            and op.cfg.must_pass(op.cfg.node_for(lp.node), op.cfg.node_for(c), {op.cfg.node_for(call)})
    _written_is(res, op, lp, "subband", sub_slice, "the first (count - maxdelay)*nsub elements of the kernel's output buffer")
    # scratch buffer holds (gulp - maxdelay)*nsub
    alloc = op.allocation(out.id, call) if isinstance(out, ast.Name) else None
    key = "subband:scratch"
    if alloc is not None and alloc.args and op.poly(alloc.args[0], alloc, stop={op.gulp_name(lp)}) in (stride * nsub, G * nsub):
        res.ok("R5", fn, alloc, "sub-band scratch buffer holds at least (gulp - maxdelay)*nsub values: one full block", key=key)
    else:
        res.bad("R5", fn, alloc or fn.node, "sub-band scratch buffer is not provably >= (gulp - maxdelay)*nsub long", key=key, construct="out_ar")

    # ---- extract_samps / requantize: identity -------------------------------------------------------------------
    for name in ("extract_samps", "requantize"):
        op, lp = _single_loop(prog, name)
        _written_is(res, op, lp, name, lambda a, c, lp=lp: norm(a) == lp.data, "the block exactly as read")
    op, lp = _single_loop(prog, "extract_samps")
    fn = op.fn
    from ..pathcond import guarded
    key = "extract_samps:range-guard"
    P_ = lambda t: PolyEnv().poly(ast.parse(t, mode="eval").body)  # noqa: E731
    okg, whyg = guarded(op.flow, prep_calls(fn), [("<=0", P_("-start")), ("<=0", P_("start + nsamps - self.header.nsamples"))], exc="ValueError")
    if okg:
        res.ok("R4", fn, fn.node, "an out-of-range sample selection is rejected before the output is created", key=key, construct="extract_samps")
    else:
        res.bad("R4", fn, fn.node, "extract_samps does not reject an out-of-range selection before creating the output", construct="extract_samps", key=key)

    # ---- extract_chans ---------------------------------------------------------------------------------------------------
    op, lp = _single_loop(prog, "extract_chans")
    # every selected channel lies in the band, or nothing is written (F55): a negative index would otherwise select a
    # channel from the other end of the band and label it outside the band
    fn_c = op.fn
    pcs_c = _pc7(op.flow)

    def _parts(x: ast.AST) -> set[str]:
        """Which ends of the band the element-wise test `x` finds a channel beyond."""
        if isinstance(x, ast.Call) and dotted(x.func) in ("np.logical_or", "np.bitwise_or") and len(x.args) == 2:
            return _parts(x.args[0]) | _parts(x.args[1])
        if isinstance(x, ast.BinOp) and isinstance(x.op, ast.BitOr):
            return _parts(x.left) | _parts(x.right)
        if isinstance(x, ast.Compare) and len(x.ops) == 1:
            l_, o_, r_ = x.left, x.ops[0], x.comparators[0]
            if isinstance(o_, (ast.Gt, ast.GtE)):
                l_, r_, o_ = r_, l_, {ast.Gt: ast.Lt, ast.GtE: ast.LtE}[type(o_)]()
            lt, rt = norm(l_), norm(r_)
            nch = ("self.header.nchans", "self.header.nchans - 1")
            if isinstance(o_, ast.Lt) and rt == "0":
                return {"low"}
            if isinstance(o_, ast.LtE) and rt == "-1":
                return {"low"}
            if isinstance(o_, ast.LtE) and lt == nch[0]:
                return {"high"}
            if isinstance(o_, ast.Lt) and lt == nch[1]:
                return {"high"}
        return set()

    def _in_band(end: str):
        def pred(e, pol):
            if pol:
                return False
            x = None
            if isinstance(e, ast.Call) and dotted(e.func) in ("np.any", "np.sometrue") and len(e.args) == 1:
                x = e.args[0]
            elif isinstance(e, ast.Call) and isinstance(e.func, ast.Attribute) and e.func.attr == "any" and not e.args:
                x = e.func.value
            if x is not None:
                return end in _parts(x)
            # chans.min() < 0 / chans.max() >= nchans
            if isinstance(e, ast.Compare) and len(e.ops) == 1:
                class _Strip(ast.NodeTransformer):
                    def visit_Call(self, node):  # noqa: N802
                        self.generic_visit(node)
                        if isinstance(node.func, ast.Attribute) and node.func.attr in ("min", "max") and not node.args:
                            return node.func.value
                        if dotted(node.func) in ("np.min", "np.max", "min", "max") and len(node.args) == 1:
                            return node.args[0]
                        return node
                import copy as _c
                kinds = {n_.func.attr if isinstance(n_.func, ast.Attribute) else dotted(n_.func).split(".")[-1] for n_ in ast.walk(e) if isinstance(n_, ast.Call)}
                want = {"low": "min", "high": "max"}[end]
                return want in kinds and end in _parts(_Strip().visit(_c.deepcopy(e)))
            return False
        return pred
    preps_c = prep_calls(fn_c)
    okc = bool(preps_c)
    for p_ in preps_c:
        for end in ("low", "high"):
            f_ = pcs_c.truth(p_, _in_band(end), expanded=True)
            okc = okc and f_ is not None and "ValueError" in (_rej7(pcs_c, f_) or ())
    (res.ok if okc else res.bad)("R4", fn_c, preps_c[0] if preps_c else fn_c.node, "a selection with any channel below 0 or beyond nchans - 1 is rejected (ValueError) before an output file exists" if okc else
                                 "extract_chans does not reject a selection as soon as ANY channel is out of range: a negative channel then selects from the other end of the "
                                 "band, and the file is named and labelled (fch1) for a channel outside the band", construct="extract_chans", key="extract_chans:range-guard")
    fn = op.fn
    hs = [h for h in writer_handles(fn) if h.how == "list"]
    cws = _written(op, lp)
    key = "extract_chans:selection"
    ok = False
    why = "unrecognised selection"
    if len(cws) == 1 and hs:
        c = cws[0]
        K, a, binds = _in_index_form(op, c.args[0], c, {"batch_chans", "out_files"})
        want2d = f"{lp.data}.reshape({lp.count}, self.header.nchans)"
        # the writer that receives it is out_files[K]
        recv = binds.get(norm(c.func.value)) if isinstance(c.func, ast.Attribute) else None
        idx = K if K and recv is not None and norm(recv) == f"out_files[{K}]" else None
        if idx and norm(a) == f"{want2d}[:, batch_chans[{idx}]]":
            # batch_chans and batch_files are the same slice of chans / filenames; files are opened in batch_files order
            bc = op.flow.expand(ast.parse("batch_chans", mode="eval").body, op.cfg.node_for(c), stop={"chans", "batch_start", "batch_end"})
            bf = op.flow.expand(ast.parse("batch_files", mode="eval").body, op.cfg.node_for(c), stop={"filenames", "batch_start", "batch_end"})
            fnm = op.flow.expand(ast.parse("filenames", mode="eval").body, op.cfg.node_for(c), stop={"chans", "outfile_base"})
            comp = parent(hs[0].call)
            while comp is not None and not isinstance(comp, ast.ListComp):
                comp = parent(comp)
            ok = norm(bc) == "chans[batch_start:batch_end]" and norm(bf) == "filenames[batch_start:batch_end]" and \
                isinstance(fnm, ast.ListComp) and norm(fnm.generators[0].iter) == "chans" and comp is not None and \
                _iterates_in_order(comp.generators[0], "batch_files")
            why = "file k of a batch is named after chans[batch_start+k] but does not receive that column" if not ok else ""
        else:
            why = f"written array is `{norm(a)}`"
    if ok:
        res.ok("R5", fn, cws[0], "output file k of each batch receives column chans[batch_start+k] of the (samples, channels) block, "
               "the channel its name is derived from", key=key)
    else:
        res.bad("R5", fn, cws[0] if cws else fn.node, f"extract_chans: {why}", key=key, construct="extract_chans selection")

    # ---- extract_bands ---------------------------------------------------------------------------------------------------------
    op, lp = _single_loop(prog, "extract_bands")
    fn = op.fn
    cws = _written(op, lp)
    key = "extract_bands:selection"
    ok = False
    why = "unrecognised selection"
    if len(cws) == 1:
        c = cws[0]
        K, a, binds = _in_index_form(op, c.args[0], c, {"chanpersub", "out_files", "batch_start", "chanstart"})
        recv = binds.get(norm(c.func.value)) if isinstance(c.func, ast.Attribute) else None
        idx = K if K and recv is not None and norm(recv) == f"out_files[{K}]" else None
        m_ = None
        if idx and isinstance(a, ast.Call) and isinstance(a.func, ast.Attribute) and a.func.attr in ("ravel", "flatten") and isinstance(a.func.value, ast.Subscript) \
                and norm(a.func.value.value) == f"{lp.data}.reshape({lp.count}, self.header.nchans)" and isinstance(a.func.value.slice, ast.Tuple) \
                and len(a.func.value.slice.elts) == 2 and norm(a.func.value.slice.elts[0]) == ":" and isinstance(a.func.value.slice.elts[1], ast.Slice):
            m_ = a.func.value.slice.elts[1]
        if m_ is not None and m_.lower is not None and m_.upper is not None and m_.step is None:
            env_ = PolyEnv()
            c0 = env_.poly(m_.lower)
            width = env_.poly(m_.upper) - c0
            wantc0 = Poly.sym("chanstart") + (Poly.sym("batch_start") + Poly.sym(idx)) * Poly.sym("chanpersub")
            ok = c0 == wantc0 and width == Poly.sym("chanpersub")
            why = f"band start is {c0.canon()} (width {width.canon()}), expected {wantc0.canon()} (width chanpersub)"
        else:
            why = f"written array is `{norm(a)}`"
    if ok:
        res.ok("R5", fn, cws[0], "file k of a batch receives channels [chanstart+(batch_start+k)*chanpersub, +chanpersub) of each sample", key=key)
    else:
        res.bad("R5", fn, cws[0] if cws else fn.node, f"extract_bands: {why}", key=key, construct="extract_bands selection")

    # ---- R6 declared width (shared with C04.R1) ------------------------------------------------------------------------------------
    from .c04 import check_declared_width, check_bitorder_pairing
    check_declared_width(prog, res, "R6")
    check_bitorder_pairing(prog, res, "R6")

    res.assumptions += ["read_plan delivers the selected range once in blocks of at most gulp samples (C01)",
                        "nsub divides nchans and ffactor divides nchans (the property's own quantifier)"]
    # ---- R2 (cont.) no negative delay reaches the sub-banding kernel (shared with C09.R3; F38) -----------------------------
    from ..lints import check_delay_sign
    check_delay_sign(prog, res, "R2", only={"subband"})
    # ---- R7 what the transforms consume: the read plan (C01) and, for remove_zerodm, the bandpass reduction (C06) ---
    depends(res, "R7", prog, tier, "C01", why="the blocks these loops consume come from read_plan: the plan rules of C01 (and, through them, the multi-file stream rules of C02) are re-evaluated here")
    depends(res, "R7", prog, tier, "C06", accept=lambda o: "bandpass" in (o.key or "") or "extract_bpass" in (o.key or "") or "bandpass" in (o.where or ""),
            why="remove_zerodm weights the channels by the bandpass: C06's rules for the bandpass reduction and its kernel are re-evaluated here")
    depends(res, "R7", prog, tier, "C14", accept=lambda o: "downsample_2d_mean" in (o.key or "") or "downsample_2d_mean" in (o.where or ""),
            why="Filterbank.downsample writes what the 2-D mean decimator returns: its C14 obligations (definition, float64 accumulator, exact division) are re-evaluated here")
    res.floor("R7", 42)
    res.floor("R1", 5)
    res.floor("R2", 19)
    res.floor("R3", 1)
    res.floor("R4", 5)
    res.floor("R5", 10)


def _per_writer_bindings(c: ast.Call) -> tuple[str | None, dict[str, ast.AST]]:
    """The loop that hands block `c` to one writer after another, in index form: -> (index name K, {loop target: expression
    in K}).  `for i, w in enumerate(W)` gives K=i, w=W[i]; `for w, x in zip(W, X)` gives w=W[K], x=X[K];
    `for i, (w, x) in enumerate(zip(W, X))` both."""
    loop = parent(c)
    while loop is not None and not isinstance(loop, ast.For):
        loop = parent(loop)
    if loop is None:
        return None, {}
    it, tgt = loop.iter, loop.target
    K = "K"
    out: dict[str, ast.AST] = {}

    def sub(seq: ast.AST) -> ast.AST:
        return ast.Subscript(value=seq, slice=ast.Name(id=K, ctx=ast.Load()), ctx=ast.Load())

    def bind_zip(targets, call):
        for t, a in zip(targets, call.args):
            if isinstance(t, ast.Name):
                out[t.id] = sub(a)

    if isinstance(it, ast.Call) and dotted(it.func) == "enumerate" and isinstance(tgt, ast.Tuple) and len(tgt.elts) == 2 and isinstance(tgt.elts[0], ast.Name):
        start = it.args[1] if len(it.args) > 1 else next((k.value for k in it.keywords if k.arg == "start"), None)
        out[tgt.elts[0].id] = ast.Name(id=K, ctx=ast.Load()) if start is None else ast.BinOp(left=ast.Name(id=K, ctx=ast.Load()), op=ast.Add(), right=start)
        inner, seq = tgt.elts[1], it.args[0]
        if isinstance(inner, ast.Name):
            out[inner.id] = sub(seq)
        elif isinstance(inner, ast.Tuple) and isinstance(seq, ast.Call) and dotted(seq.func) == "zip":
            bind_zip(inner.elts, seq)
        return K, out
    if isinstance(it, ast.Call) and dotted(it.func) == "zip" and isinstance(tgt, ast.Tuple):
        bind_zip(tgt.elts, it)
        return K, out
    return None, {}


def _in_index_form(op: StreamOp, e: ast.AST, c: ast.Call, stop: set[str]) -> tuple[str | None, ast.AST, dict[str, ast.AST]]:
    """Expand e at c and rewrite the per-writer loop's targets in terms of the writer index K."""
    K, binds = _per_writer_bindings(c)
    ex = op.flow.expand(e, op.cfg.node_for(c), stop=stop | set(binds))

    class S(ast.NodeTransformer):
        def visit_Name(self, node):  # noqa: N802
            if node.id in binds and isinstance(node.ctx, ast.Load):
                return ast.copy_location(op.flow.expand(binds[node.id], op.cfg.node_for(c), stop=stop | {K}), node)
            return node
    return K, ast.fix_missing_locations(S().visit(ex)), binds


def _iterates_in_order(gen: ast.comprehension, name: str) -> bool:
    """`for f in name` or `for f, ... in zip(name, ...)` / enumerate(name): files are opened in the order of `name`."""
    it = gen.iter
    if norm(it) == name:
        return True
    if isinstance(it, ast.Call) and dotted(it.func) == "zip" and it.args and norm(it.args[0]) == name:
        return True
    return False


def _is_result_of(op: StreamOp, arg: ast.AST, kcall: ast.Call, at: ast.Call) -> bool:
    if not isinstance(arg, ast.Name):
        return False
    ds = op.flow.reaching(arg.id, op.cfg.node_for(at))
    return len(ds) == 1 and ds[0].value is kcall


def _through_temps(op: StreamOp, arg: ast.AST, at: ast.AST, depth: int = 4) -> ast.AST:
    """`tmp = buf[:n]; cwrite(tmp)` writes `buf[:n]`: follow single-definition temporaries that only name a view."""
    while depth and isinstance(arg, ast.Name):
        ds = op.flow.reaching(arg.id, op.cfg.node_for(at))
        if len(ds) != 1 or ds[0].kind != "assign" or not isinstance(ds[0].value, (ast.Name, ast.Subscript)):
            break
        v = ds[0].value
        if isinstance(v, ast.Subscript):
            # the slice bounds are evaluated where the view was taken
            sl = op.flow.expand(v.slice, ds[0].node)
            return ast.copy_location(ast.Subscript(value=v.value, slice=sl, ctx=ast.Load()), v)
        arg = v
        depth -= 1
    return arg


def _written_is(res, op: StreamOp, lp, tag: str, pred, what: str) -> None:
    cws = _written(op, lp)
    key = f"{tag}:written"
    if len(cws) != 1:
        res.bad("R5", op.fn, lp.node, f"expected exactly one cwrite per block, found {len(cws)}", key=key)
        return
    c = cws[0]
    if c.args and pred(_through_temps(op, c.args[0], c), c):
        res.ok("R5", op.fn, c, f"the array written in each iteration is {what}", key=key)
    else:
        res.bad("R5", op.fn, c, f"the array written (`{norm(c.args[0]) if c.args else ''}`) is not {what}", key=key)


def _scratch_big_enough(res, op: StreamOp, fn: FuncInfo, lp, out, tag: str, nch: Poly) -> None:
    alloc = op.allocation(out.id, lp.call) if isinstance(out, ast.Name) else None
    key = f"{tag}:scratch"
    if alloc is None or not alloc.args:
        res.bad("R5", fn, fn.node, "kernel output buffer is not a single local allocation", construct=tag, key=key)
        return
    p = op.poly(alloc.args[0], alloc, stop={op.gulp_name(lp)})
    g = op.stride(lp)[0]
    # any block has at most min(gulp, range) <= header.nsamples samples
    if p in (Poly.sym("self.header.nsamples") * nch, g * nch, Poly.sym("RANGE_LEN") * nch):
        res.ok("R5", fn, alloc, "kernel output buffer can hold the largest block (count <= min(gulp, nsamples))", key=key)
    else:
        res.bad("R5", fn, alloc, f"kernel output buffer has {p.canon()} elements: not provably >= count*nchans for every block", key=key)


B = "sigpyproc/base.py"
K = "sigpyproc/core/kernels.py"
MUTANTS = [
    {"id": "c07-revert-F55", "file": "sigpyproc/base.py", "expect": "C07.R4",
     "old": "        if np.any(np.logical_or(chans >= self.header.nchans, chans < 0)):", "new": "        if np.all(np.logical_or(chans >= self.header.nchans, chans < 0)):"},
    {"id": "c07-chans-guard-upper-only", "file": "sigpyproc/base.py", "expect": "C07.R4",
     "old": "        if np.any(np.logical_or(chans >= self.header.nchans, chans < 0)):", "new": "        if np.any(chans >= self.header.nchans):"},
    {"id": "c07-revert-F52", "file": "sigpyproc/base.py", "expect": "C07.R4",
     "old": "        if nsub < 1 or self.header.nchans % nsub != 0:\n            msg = f\"Number of sub-bands must divide nchans ({self.header.nchans}): {nsub}\"\n            raise ValueError(msg)\n", "new": ""},
    {"id": "c07-revert-F38", "file": "sigpyproc/base.py", "expect": "C07.R2",
     "old": "        chan_delays = self.header.get_dmdelays(dm)\n        # Channels that lead the reference (ascending band, negative DM) have\n        # negative delays: count them from the earliest channel instead\n        min_delay = min(0, int(chan_delays.min()))\n        chan_delays = chan_delays - min_delay\n        max_delay = int(chan_delays.max())\n        gulp = max(2 * max_delay, gulp)\n        # must be memset to zero in c code", "new": "        chan_delays = self.header.get_dmdelays(dm)\n        min_delay = 0\n        max_delay = int(chan_delays.max())\n        gulp = max(2 * max_delay, gulp)\n        # must be memset to zero in c code"},
    {"id": "c07-invert-whole-block", "file": K, "expect": "C07.R1",
     "old": "        outarray[nchans * isamp : nchans * (isamp + 1)] = array[\n            nchans * isamp : nchans * (isamp + 1)\n        ][::-1]",
     "new": "        outarray[nchans * isamp : nchans * (isamp + 1)] = array[\n            nchans * isamp : nchans * (isamp + 1)\n        ]"},
    {"id": "c07-mask-unguarded", "file": K, "expect": "C07.R1",
     "old": "        if mask[ichan]:\n            for isamp in range(nsamps):\n                array[nchans * isamp + ichan] = maskvalue",
     "new": "        if mask[ichan] or ichan == 0:\n            for isamp in range(nsamps):\n                array[nchans * isamp + ichan] = maskvalue"},
    {"id": "c07-zerodm-no-weight", "file": K, "expect": "C07.R1",
     "old": "result = (inarray[pos] - zerodm * chanwts[ichan]) + bpass[ichan]", "new": "result = (inarray[pos] - zerodm / nchans) + bpass[ichan]"},
    {"id": "c07-ds2d-div-factor1", "file": K, "expect": "C07.R1",
     "old": "    totfactor = factor1 * factor2\n    result = np.empty(new_dim1 * new_dim2, dtype=array.dtype)", "new": "    totfactor = factor1 * factor1\n    result = np.empty(new_dim1 * new_dim2, dtype=array.dtype)"},
    {"id": "c07-ds2d-stride", "file": K, "expect": "C07.R1",
     "old": "                ipos = pos + ifactor * dim2", "new": "                ipos = pos + ifactor * new_dim2"},
    {"id": "c07-subband-sign", "file": K, "expect": "C07.R1",
     "old": "            outarray[nsubs * isamp + chan_to_sub[ichan]] += inarray[\n                nchans * (isamp + delays[ichan]) + ichan\n            ]",
     "new": "            outarray[nsubs * isamp + chan_to_sub[ichan]] += inarray[\n                nchans * (isamp - delays[ichan]) + ichan\n            ]"},
    {"id": "c07-downsample-dims-swapped", "file": B, "expect": "C07.R2",
     "old": "                tfactor,\n                ffactor,\n                nsamps_r,\n                self.header.nchans,\n            )", "new": "                tfactor,\n                ffactor,\n                self.header.nchans,\n                nsamps_r,\n            )"},
    {"id": "c07-downsample-factors-swapped", "file": B, "expect": "C07.R2",
     "old": "                data,\n                tfactor,\n                ffactor,\n", "new": "                data,\n                ffactor,\n                tfactor,\n"},
    {"id": "c07-subband-no-reset", "file": B, "expect": "C07.R3",
     "old": "            out_ar.fill(0)\n", "new": ""},
    {"id": "c07-subband-reset-after", "file": B, "expect": "C07.R3",
     "edits": [{"file": B, "old": "            out_ar.fill(0)\n            kernels.subband(", "new": "            kernels.subband("},
               {"file": B, "old": "            out_file.cwrite(out_ar[: (nsamps_r - max_delay) * nsub])\n", "new": "            out_ar.fill(0)\n            out_file.cwrite(out_ar[: (nsamps_r - max_delay) * nsub])\n"}]},
    {"id": "c07-gulp-not-multiple", "file": B, "expect": "C07.R4",
     "old": "        gulp = int(np.ceil(gulp / tfactor) * tfactor)\n", "new": "        gulp = int(np.ceil(gulp / tfactor))\n"},
    {"id": "c07-ffactor-guard-late", "file": B, "expect": "C07.R4",
     "old": "        if self.header.nchans % ffactor != 0:\n            msg = f\"Bad frequency factor given: {ffactor:d}\"\n            raise ValueError(msg)\n", "new": ""},
    {"id": "c07-zerodm-unsliced", "file": B, "expect": "C07.R5",
     "old": "            out_file.cwrite(out_ar[: nsamps_r * self.header.nchans])", "new": "            out_file.cwrite(out_ar)"},
    {"id": "c07-subband-slice-full", "file": B, "expect": "C07.R5",
     "old": "            out_file.cwrite(out_ar[: (nsamps_r - max_delay) * nsub])", "new": "            out_file.cwrite(out_ar[: nsamps_r * nsub])"},
    {"id": "c07-chans-wrong-column", "file": B, "expect": "C07.R5",
     "old": "                        out_file.cwrite(data_2d[:, batch_chans[ifile]])", "new": "                        out_file.cwrite(data_2d[:, chans[ifile]])"},
    {"id": "c07-bands-no-batch-offset", "file": B, "expect": "C07.R5",
     "old": "                        iband_chanstart = chanstart + (batch_start + ifile) * chanpersub", "new": "                        iband_chanstart = chanstart + ifile * chanpersub"},
    {"id": "c07-mask-write-before-kernel", "file": B, "expect": "C07.R5",
     "old": "            kernels.mask_channels(data, mask, mask_value, self.header.nchans, nsamps_r)\n            out_file.cwrite(data)",
     "new": "            out_file.cwrite(data)\n            kernels.mask_channels(data, mask, mask_value, self.header.nchans, nsamps_r)"},
    {"id": "c07-invert-wrong-nchans", "file": B, "expect": "C07.R2",
     "old": "            out_ar = kernels.invert_freq(data, self.header.nchans, nsamps_r)", "new": "            out_ar = kernels.invert_freq(data, nsamps_r, self.header.nchans)"},
    {"id": "c07-zerodm-weights-unnormalised", "file": B, "expect": "C07.R2",
     "old": "        chanwts = bpass / bpass.sum()", "new": "        chanwts = bpass / bpass.max()"},
    {"id": "c07-subband-maxdelay-mismatch", "file": B, "expect": "C07.R2",
     "old": "                chan_to_sub,\n                max_delay,\n", "new": "                chan_to_sub,\n                0,\n"},
]
TWINS = [
    {"id": "c07-twin-chans-guard-minmax", "file": "sigpyproc/base.py",
     "old": "        if np.any(np.logical_or(chans >= self.header.nchans, chans < 0)):", "new": "        if chans.min() < 0 or chans.max() >= self.header.nchans:"},
    {"id": "c07-twin-chans-guard-split", "file": "sigpyproc/base.py",
     "old": "        if np.any(np.logical_or(chans >= self.header.nchans, chans < 0)):", "new": "        if (chans < 0).any() or np.any(chans > self.header.nchans - 1):"},
    {"id": "c07-twin-subband-roomy-scratch", "file": B,
     "old": "        out_ar = np.empty((gulp - max_delay) * nsub, dtype=\"float32\")", "new": "        out_ar = np.empty(gulp * nsub, dtype=\"float32\")"},
    {"id": "c07-twin-ds-temp", "file": B,
     "old": "            out_file.cwrite(write_ar)\n        return outfile_name", "new": "            out_file.cwrite(write_ar)\n        out_file.close()\n        return outfile_name"},
    {"id": "c07-twin-zerodm-len-temp", "file": B,
     "old": "            out_file.cwrite(out_ar[: nsamps_r * self.header.nchans])", "new": "            nout = self.header.nchans * nsamps_r\n            out_file.cwrite(out_ar[:nout])"},
    {"id": "c07-twin-gulp-ceil-div", "file": B,
     "old": "        gulp = int(np.ceil(gulp / tfactor) * tfactor)\n", "new": "        gulp = tfactor * int(np.ceil(gulp / tfactor))\n"},
]
