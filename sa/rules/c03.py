"""C03 - bit packing/unpacking are exact inverses (bit-provenance proof)."""
from __future__ import annotations

import ast

from ..cfg import always_raises
from ..dataflow import flow_of
from ..model import AnalysisError, FuncInfo, Program, body_walk, calls_in_body, dotted, norm, parent
from ..poly import Poly, PolyEnv
from ..report import Result
from ..normalform import canon

TITLE = "Bit packing and unpacking are exact inverses at every depth and bit order"
LEVEL = "proof"
TECHNIQUE = "static analysis: bit-provenance abstract interpretation of the 12 kernels + dispatch exhaustiveness + guard dominance"
EXPLANATION = (
    "Bit-provenance abstract interpretation of the twelve numba kernels unpack{1,2,4}_8_{big,little} and "
    "pack{1,2,4}_8_{big,little}: every output bit is traced to 0, 1 or one named input bit, for all byte values at "
    "once. Each kernel's provenance map is compared with the specification generated from (nbits, bit order): unpack "
    "writes exactly the 8/nbits elements of each byte by plain assignment, MSB-field-first for big and LSB-first for "
    "little, upper bits zero; pack is the inverse map. The compositions pack(unpack(b)) = b and unpack(pack(e)) = e "
    "(for in-range e) are then checked as identity provenance maps. Also proved: the name-based dispatch is "
    "exhaustive over {1,2,4}x{big,little} with the right signatures, the four ValueError guards dominate the kernel "
    "call in both wrappers, the None and caller-supplied buffer paths reach the same kernel call, and the SIGPROC "
    "reader/writer take the bit order from the single default_bitorder table (1-bit little, 2/4-bit big). "
    "Since F32/F33, R4 also requires: the bit-order guard compares the whole string with a literal set, pack runs only on a whole number of bytes, a supplied buffer is checked to be uint8, and the element count is computed from int(nbits)."
    ' Since wave 6: every accepted spelling of the bit order selects the kernels of its own order in pack and unpack alike (R3, constant folding over the accepted spellings), and the word-at-a-time packer pack1_8_vect gathers bit 0 of 8 bytes in the selected order without carries and writes every output byte once (R1, from its constants and its index coverage).'
)
KMOD = "sigpyproc.core.kernels"
BMOD = "sigpyproc.io.bits"
WIDTH = 16


# ---- abstract bit vectors ----------------------------------------------------
class Unknown(Exception):
    pass


def const_bits(v: int):
    return [(v >> i) & 1 for i in range(WIDTH)]


def b_and(a, b):
    out = []
    for x, y in zip(a, b):
        if x == 0 or y == 0:
            out.append(0)
        elif x == 1:
            out.append(y)
        elif y == 1:
            out.append(x)
        elif x == y:
            out.append(x)
        else:
            raise Unknown(f"and of two different input bits {x} & {y}")
    return out


def b_or(a, b):
    out = []
    for x, y in zip(a, b):
        if x == 1 or y == 1:
            out.append(1)
        elif x == 0:
            out.append(y)
        elif y == 0:
            out.append(x)
        elif x == y:
            out.append(x)
        else:
            raise Unknown(f"or of two different input bits {x} | {y}")
    return out


def b_shr(a, n):
    return a[n:] + [0] * n


def b_shl(a, n):
    return ([0] * n + a)[:WIDTH]


class BitInterp:
    """Interprets one kernel body for a generic outer iteration `ii`."""

    def __init__(self, fn: FuncInfo, in_name: str, out_name: str, in_bits_per_elem: int, group: int):
        self.fn = fn
        self.in_name = in_name
        self.out_name = out_name
        self.in_bits = in_bits_per_elem   # how many low bits of an input element may be non-zero
        self.group = group                # input elements per outer iteration (1 for unpack)
        self.outer: str | None = None
        self.stores: dict[int, list] = {}  # output element offset -> bitvec (after u1 truncation)
        self.store_nodes: list[ast.AST] = []
        self.out_group: int | None = None
        self.errors: list[str] = []

    def run(self) -> None:
        body = [s for s in self.fn.node.body if not (isinstance(s, ast.Expr) and isinstance(s.value, ast.Constant))]
        if len(body) != 1 or not isinstance(body[0], ast.For):
            raise AnalysisError(f"{self.fn.ident}: body is not a single loop")
        loop = body[0]
        if not (isinstance(loop.target, ast.Name) and isinstance(loop.iter, ast.Call) and dotted(loop.iter.func) == "range"
                and len(loop.iter.args) == 1):
            raise AnalysisError(f"{self.fn.ident}: outer loop is not `for i in range(n)`")
        self.outer = loop.target.id
        self.extent = norm(loop.iter.args[0])
        self.env_poly: dict[str, Poly] = {}
        self.consts: dict[str, int] = {}
        self.env_bits: dict[str, list] = {}
        self._block(loop.body)

    def _block(self, stmts) -> None:
        for st in stmts:
            if isinstance(st, ast.Assign) and len(st.targets) == 1 and isinstance(st.targets[0], ast.Name):
                # a local is either index arithmetic (kept as a polynomial) or a partial bit field (kept as a bit vector)
                name = st.targets[0].id
                try:
                    bits = self._eval(st.value)
                except Unknown:
                    bits = None
                self.env_poly[name] = self._poly(st.value)
                if bits is not None:
                    self.env_bits[name] = bits
                else:
                    self.env_bits.pop(name, None)
            elif isinstance(st, ast.Assign) and len(st.targets) == 1 and isinstance(st.targets[0], ast.Subscript):
                self._store(st.targets[0], st.value, st)
            elif isinstance(st, ast.AugAssign) and isinstance(st.target, ast.Name) and st.target.id in self.env_bits and \
                    isinstance(st.op, (ast.BitOr, ast.BitAnd)):
                # a local partial byte assembled with |= / &= (not the output buffer: nothing depends on old contents)
                rhs = self._eval(st.value)
                self.env_bits[st.target.id] = (b_or if isinstance(st.op, ast.BitOr) else b_and)(self.env_bits[st.target.id], rhs)
            elif isinstance(st, ast.AugAssign):
                raise Unknown(f"augmented store `{norm(st)}`: result would depend on previous buffer contents")
            elif isinstance(st, ast.For):
                trip = None
                if isinstance(st.target, ast.Name) and isinstance(st.iter, ast.Call) and dotted(st.iter.func) == "range" and 1 <= len(st.iter.args) <= 3:
                    try:
                        trip = list(range(*[ast.literal_eval(a_) for a_ in st.iter.args]))
                    except (ValueError, SyntaxError, TypeError):
                        trip = None
                if trip is None or not 0 < len(trip) <= 8:
                    raise Unknown(f"inner loop `{norm(st.iter)}` is not a literal range of at most 8 iterations")
                for v in trip:
                    self.consts[st.target.id] = v
                    self._block(st.body)
                del self.consts[st.target.id]
            elif isinstance(st, ast.Expr) and isinstance(st.value, ast.Constant):
                continue
            else:
                raise Unknown(f"unsupported statement `{norm(st)[:60]}`")

    def _poly(self, e: ast.AST) -> Poly:
        names = dict(self.env_poly)
        for k, v in self.consts.items():
            names[k] = Poly.const(v)
        return PolyEnv(names).poly(e)

    def _offset(self, idx: ast.AST, stride: int) -> int:
        """index == stride*outer + k  ->  k (a non-negative int constant)."""
        p = self._poly(idx)
        rest = p - Poly.sym(self.outer).scale(stride)
        if not rest.is_const() or rest.const_value().denominator != 1:
            raise Unknown(f"index {p.canon()} is not {stride}*{self.outer} + constant")
        return int(rest.const_value())

    def _store(self, target: ast.Subscript, value: ast.AST, st: ast.stmt) -> None:
        if dotted(target.value) != self.out_name:
            raise Unknown(f"store into {norm(target.value)}, not the output buffer")
        if self.out_group is None:
            raise AnalysisError("out_group unset")
        k = self._offset(target.slice, self.out_group)
        if k in self.stores:
            raise Unknown(f"output element offset {k} is stored twice")
        bits = self._eval(value)
        self.stores[k] = bits[:8] + [0] * (WIDTH - 8)   # store into u1 truncates
        self.store_nodes.append(st)

    def _int(self, e: ast.AST) -> int:
        p = self._poly(e)
        if not p.is_const() or p.const_value().denominator != 1:
            raise Unknown(f"`{norm(e)}` is not an integer constant")
        return int(p.const_value())

    def _eval(self, e: ast.AST):
        if isinstance(e, ast.Constant) and isinstance(e.value, int):
            return const_bits(e.value)
        if isinstance(e, ast.Name) and e.id in self.consts:
            return const_bits(self.consts[e.id])
        if isinstance(e, ast.Name) and e.id in self.env_bits:
            return self.env_bits[e.id]
        if isinstance(e, ast.Subscript):
            if dotted(e.value) != self.in_name:
                raise Unknown(f"reads {norm(e.value)}, not the input buffer")
            k = self._offset(e.slice, self.group)
            if not 0 <= k < self.group:
                raise Unknown(f"reads input element offset {k} outside the group of {self.group}")
            return [("in", k, b) if b < self.in_bits else 0 for b in range(WIDTH)]
        if isinstance(e, ast.BinOp):
            if isinstance(e.op, ast.RShift):
                return b_shr(self._eval(e.left), self._int(e.right))
            if isinstance(e.op, ast.LShift):
                return b_shl(self._eval(e.left), self._int(e.right))
            if isinstance(e.op, ast.BitAnd):
                return b_and(self._eval(e.left), self._eval(e.right))
            if isinstance(e.op, ast.BitOr):
                return b_or(self._eval(e.left), self._eval(e.right))
        raise Unknown(f"unsupported expression `{norm(e)[:60]}` in a bit kernel")


def spec_unpack(nbits: int, order: str) -> dict[int, list]:
    """element k (0..8/nbits-1) -> bit sources from input byte (element 0 of the group)."""
    n = 8 // nbits
    out = {}
    for k in range(n):
        bits = [0] * WIDTH
        for b in range(nbits):
            src = (8 - nbits * (k + 1) + b) if order == "big" else (nbits * k + b)
            bits[b] = ("in", 0, src)
        out[k] = bits
    return out


def spec_pack(nbits: int, order: str) -> dict[int, list]:
    n = 8 // nbits
    bits = [0] * WIDTH
    for k in range(n):
        for b in range(nbits):
            dst = (8 - nbits * (k + 1) + b) if order == "big" else (nbits * k + b)
            bits[dst] = ("in", k, b)
    return {0: bits}


def compose(outer: dict[int, list], inner: dict[int, list]) -> dict[int, list]:
    """outer's input element k bit b := inner[k][b]."""
    res = {}
    for ko, bits in outer.items():
        nb = []
        for s in bits:
            if isinstance(s, tuple):
                _, k, b = s
                nb.append(inner[k][b])
            else:
                nb.append(s)
        res[ko] = nb
    return res


def show(bits) -> str:
    return "[" + " ".join("0" if s == 0 else "1" if s == 1 else f"e{s[1]}.{s[2]}" for s in bits[:8]) + "]"


def kernel_map(prog: Program, res: Result, name: str, kind: str, nbits: int, order: str):
    if not prog.has_func(KMOD, name):
        anchor = prog.func(BMOD, kind)
        res.bad("R1", anchor, anchor.node, f"kernel {name} required by the name-based dispatch does not exist in {KMOD}",
                construct=name, key=name)
        return None
    fn = prog.func(KMOD, name)
    n = 8 // nbits
    params = fn.positional_params
    if len(params) != 2:
        raise AnalysisError(f"{fn.ident}: expected (input, output) parameters")
    if kind == "unpack":
        it = BitInterp(fn, params[0], params[1], 8, 1)
        it.out_group = n
    else:
        it = BitInterp(fn, params[0], params[1], nbits, n)
        it.out_group = 1
    try:
        it.run()
    except Unknown as exc:
        res.bad("R1", fn, fn.node, f"bit provenance cannot be established: {exc}", construct=name, key=name)
        return None
    want = spec_unpack(nbits, order) if kind == "unpack" else spec_pack(nbits, order)
    key = name
    if set(it.stores) != set(want):
        res.bad("R1", fn, fn.node, f"writes output offsets {sorted(it.stores)} per iteration, specification needs "
                f"{sorted(want)}", construct=name, key=key)
        return None
    for k in sorted(want):
        if it.stores[k] != want[k]:
            res.bad("R1", fn, fn.node, f"{name}: element/byte {k} has bit provenance {show(it.stores[k])} (LSB first), "
                    f"specification for {nbits}-bit {order} is {show(want[k])}", construct=name, key=key)
            return None
    # loop extent covers the whole array
    exp_extent = f"{params[0]}.size" if kind == "unpack" else f"{params[1]}.size"
    if it.extent != exp_extent:
        res.bad("R1", fn, fn.node, f"outer loop runs over range({it.extent}), expected range({exp_extent})", construct=name, key=key)
        return None
    sigs = (fn.numba or {}).get("signatures", [])
    if fn.numba is None or not sigs or any("u1[::1], u1[::1]" not in s for s in sigs):
        res.bad("R1", fn, fn.node, f"{name}: numba signature is {sigs}, expected void(u1[::1], u1[::1])", construct=name, key=key)
        return None
    res.ok("R1", fn, fn.node, f"{name}: provenance equals the {nbits}-bit {order} specification for every byte value; "
           f"{len(want)} plain store(s) per iteration at offsets {sorted(want)}", construct=name, key=key)
    return it.stores


def _fold_const(e: ast.AST, env: dict):
    """Value of a small expression over string constants (a selector such as `"big" if x[0] == "b" else "little"`), or None
    when it is not decidable by constant folding."""
    try:
        if isinstance(e, ast.Constant):
            return e.value
        if isinstance(e, ast.Name):
            return env.get(e.id)
        if isinstance(e, ast.Subscript):
            v = _fold_const(e.value, env)
            if isinstance(e.slice, ast.Slice):
                lo = _fold_const(e.slice.lower, env) if e.slice.lower is not None else None
                hi = _fold_const(e.slice.upper, env) if e.slice.upper is not None else None
                return v[lo:hi] if v is not None and e.slice.step is None else None
            i = _fold_const(e.slice, env)
            return v[i] if v is not None and i is not None else None
        if isinstance(e, ast.Dict):
            ks = [_fold_const(k, env) for k in e.keys]
            vs = [_fold_const(v, env) for v in e.values]
            return None if any(k is None for k in ks) else dict(zip(ks, vs))
        if isinstance(e, (ast.Tuple, ast.List, ast.Set)):
            vs = [_fold_const(x, env) for x in e.elts]
            return None if any(v is None for v in vs) else tuple(vs)
        if isinstance(e, ast.IfExp):
            t = _fold_const(e.test, env)
            return None if t is None else _fold_const(e.body if t else e.orelse, env)
        if isinstance(e, ast.UnaryOp) and isinstance(e.op, ast.Not):
            t = _fold_const(e.operand, env)
            return None if t is None else (not t)
        if isinstance(e, ast.BoolOp):
            vs = [_fold_const(v, env) for v in e.values]
            if any(v is None for v in vs):
                return None
            return all(vs) if isinstance(e.op, ast.And) else any(vs)
        if isinstance(e, ast.Compare) and len(e.ops) == 1:
            a, b = _fold_const(e.left, env), _fold_const(e.comparators[0], env)
            if a is None or b is None:
                return None
            op = e.ops[0]
            return {ast.Eq: a == b, ast.NotEq: a != b, ast.In: a in b, ast.NotIn: a not in b}.get(type(op))
        if isinstance(e, ast.Call) and isinstance(e.func, ast.Attribute) and not e.keywords:
            recv = _fold_const(e.func.value, env)
            args = [_fold_const(a, env) for a in e.args]
            if recv is None or any(a is None for a in args):
                return None
            if e.func.attr in ("startswith", "endswith", "lower", "upper", "strip", "get") and isinstance(recv, (str, dict)):
                return getattr(recv, e.func.attr)(*args)
    except Exception:  # noqa: BLE001
        return None
    return None


def _vect_packer(prog: Program, res: Result) -> None:
    """pack1_8_vect: every 8 input bytes (one uint64 word, byte k at bits 8k..8k+7) become one output byte.
    (a) gather: `x &= mask; x *= magic; out = uint8(x >> shift)` - with mask keeping bit 0 of every byte, the product places
        input bit b_k at positions 8k + m for every set bit m of magic; if no two (k, m) pairs collide nothing carries, and the
        top byte (shift 56) holds, at bit p - 56, the b_k with 8k + m = p.  The resulting byte map must be the 1-bit
        specification of the selected order (big: element k -> bit 7-k; little: element k -> bit k).
    (b) coverage: the batch loop writes word i+j from word i+j for j < batch, advancing i by the batch; the tail loop runs
        from that same i to the number of words, writing word j from word j."""
    name = "pack1_8_vect"
    if not prog.has_func(KMOD, name):
        return
    fn = prog.func(KMOD, name)
    consts: dict[str, int] = {}
    magic: dict[bool, int] = {}
    for n_ in ast.walk(fn.node):
        if isinstance(n_, ast.Assign) and len(n_.targets) == 1 and isinstance(n_.targets[0], ast.Name) and isinstance(n_.value, ast.Call) \
                and (dotted(n_.value.func) or "").endswith("uint64") and len(n_.value.args) == 1 and isinstance(n_.value.args[0], ast.Constant):
            tgt = n_.targets[0].id
            if tgt == "magic":
                pr = parent(n_)
                big = isinstance(pr, ast.If) and norm(pr.test) == "big_endian" and n_ in pr.body
                magic[big] = n_.value.args[0].value
            else:
                consts[tgt] = n_.value.args[0].value
    key = f"{name}:gather"
    ok = consts.get("mask") == 0x0101010101010101 and consts.get("shift") == 56 and set(magic) == {True, False}
    why = "mask / shift / the two magic constants were not found as uint64 literals selected by big_endian"
    if ok:
        for big, mg in magic.items():
            places: dict[int, int] = {}
            collide = False
            for k in range(8):
                for m in range(64):
                    if mg >> m & 1 and 8 * k + m < 64:
                        collide = collide or (8 * k + m) in places
                        places[8 * k + m] = k
            got = {p_ - 56: k for p_, k in places.items() if p_ >= 56}
            want = {7 - k: k for k in range(8)} if big else {k: k for k in range(8)}
            if collide or got != want:
                ok = False
                why = (f"magic constant 0x{mg:016x} ({'big' if big else 'little'}-endian): " +
                       ("two input bits land on the same position of the product (carries corrupt the byte)" if collide else
                        f"output bit -> element map is {got}, the 1-bit {'big' if big else 'little'} specification is {want}"))
    (res.ok if ok else res.bad)("R1", fn, fn.node, "pack1_8_vect gathers bit 0 of each of 8 bytes into one byte in the selected order, without carries "
                                "(shown from mask, magic and shift)" if ok else f"pack1_8_vect: {why}", construct=name, key=key)
    # the statements of the gather itself
    flow = flow_of(fn)
    stores = [s_ for s_ in body_walk(fn.node) if isinstance(s_, ast.Assign) and isinstance(s_.targets[0], ast.Subscript) and norm(s_.targets[0].value) == "packed"]
    key = f"{name}:coverage"
    okc = len(stores) == 2
    whyc = "expected one store in the batch loop and one in the tail loop"
    if okc:
        def word_index(st):
            loads = [n_ for blk in [parent(st).body] for b_ in blk for n_ in ast.walk(b_)
                     if isinstance(n_, ast.Subscript) and isinstance(n_.ctx, ast.Load) and norm(flow.expand(n_.value, flow.cfg.node_for(b_))).endswith(".view(np.uint64)")]
            return [norm(l.slice) for l in loads]
        loops = [parent(st) for st in stores]
        wl = next((n_ for n_ in body_walk(fn.node) if isinstance(n_, ast.While)), None)
        batch_for = next((l for l in loops if isinstance(l, ast.For) and wl is not None and parent(l) is wl), None)
        tail_for = next((l for l in loops if isinstance(l, ast.For) and l is not batch_for), None)
        if wl is None or batch_for is None or tail_for is None:
            okc, whyc = False, "expected `while i ...: for j in range(batch): ...` followed by a tail `for`"
        else:
            cnt = norm(wl.test.left) if isinstance(wl.test, ast.Compare) else "?"
            nwords = None
            fexp = lambda e, at: canon(flow.expand(e, flow.cfg.node_for(at)))  # noqa: E731
            st_b = next(s_ for s_ in stores if parent(s_) is batch_for)
            st_t = next(s_ for s_ in stores if parent(s_) is tail_for)
            jb, jt = norm(batch_for.target), norm(tail_for.target)
            batch = batch_for.iter.args[0] if isinstance(batch_for.iter, ast.Call) and dotted(batch_for.iter.func) == "range" and len(batch_for.iter.args) == 1 else None
            steps = [s_ for s_ in wl.body if isinstance(s_, ast.AugAssign) and isinstance(s_.op, ast.Add) and norm(s_.target) == cnt]
            if isinstance(tail_for.iter, ast.Call) and dotted(tail_for.iter.func) == "range" and len(tail_for.iter.args) == 2:
                up_ = norm(flow.expand(tail_for.iter.args[1], flow.cfg.node_for(tail_for)))
                nwords = up_ if up_.endswith(".view(np.uint64).size") else None
            conds = [
                (batch is not None, "the batch loop is `for j in range(batch)`"),
                (canon(st_b.targets[0].slice) == canon(f"{cnt} + {jb}") and word_index(st_b) == [norm(st_b.targets[0].slice)], "the batch loop writes word i+j from word i+j"),
                (len(steps) == 1 and batch is not None and fexp(steps[0].value, steps[0]) == fexp(batch, batch_for), "i advances by the batch size"),
                (isinstance(wl.test, ast.Compare) and len(wl.test.ops) == 1 and isinstance(wl.test.ops[0], (ast.Lt, ast.LtE)) and batch is not None and
                 nwords is not None and fexp(wl.test.comparators[0], wl) == canon(f"{nwords} - ({norm(flow.expand(batch, flow.cfg.node_for(batch_for)))})"),
                 "a batch runs only while a whole batch of words is left"),
                (isinstance(tail_for.iter, ast.Call) and dotted(tail_for.iter.func) == "range" and len(tail_for.iter.args) == 2 and
                 norm(tail_for.iter.args[0]) == cnt and nwords is not None, "the tail loop runs from the batch counter to the number of words"),
                (norm(st_t.targets[0].slice) == jt and word_index(st_t) == [jt], "the tail loop writes word j from word j"),
            ]
            bad = [t for c, t in conds if not c]
            okc, whyc = not bad, "not established: " + "; ".join(bad)
    (res.ok if okc else res.bad)("R1", fn, fn.node, "pack1_8_vect writes every output byte exactly once from the input word of the same index (batches, then the tail)"
                                 if okc else f"pack1_8_vect: {whyc}", construct=name, key=key)


def run(prog: Program, res: Result, tier: str) -> None:
    prog.consulted.update({KMOD, BMOD, "sigpyproc.io.fileio"})
    maps = {}
    for nbits in (1, 2, 4):
        for order in ("big", "little"):
            for kind in ("unpack", "pack"):
                name = f"{kind}{nbits}_8_{order}"
                maps[(kind, nbits, order)] = kernel_map(prog, res, name, kind, nbits, order)
    # R2 compositions
    for nbits in (1, 2, 4):
        for order in ("big", "little"):
            u, p = maps[("unpack", nbits, order)], maps[("pack", nbits, order)]
            fn = prog.func(KMOD, f"pack{nbits}_8_{order}") if prog.has_func(KMOD, f"pack{nbits}_8_{order}") else prog.func(BMOD, "pack")
            key = f"{nbits}-{order}"
            if u is None or p is None:
                res.bad("R2", fn, fn.node, "composition not checked: a kernel has no provenance map", construct=key, key=key)
                continue
            pu = compose(p, u)        # pack(unpack(byte))
            ident_byte = {0: [("in", 0, b) if b < 8 else 0 for b in range(WIDTH)]}
            up = compose(u, {0: p[0]})  # unpack(pack(elements)): inner maps byte bits -> element bits
            ident_el = {k: [("in", k, b) if b < nbits else 0 for b in range(WIDTH)] for k in range(8 // nbits)}
            ok1 = pu == ident_byte
            ok2 = up == ident_el
            if ok1 and ok2:
                res.ok("R2", fn, fn.node, f"pack(unpack(b)) = b for all 256 byte values and unpack(pack(e)) = e for all "
                       f"in-range {nbits}-bit tuples ({order})", construct=key, key=key)
            else:
                res.bad("R2", fn, fn.node, f"{nbits}-bit {order}: pack/unpack are not mutual inverses "
                        f"(pack∘unpack identity: {ok1}, unpack∘pack identity: {ok2})", construct=key, key=key)

    # the word-at-a-time sibling of the 1-bit packers (public, not dispatched to): same specification, shown from its
    # constants (multiply-and-shift gather) and its index coverage
    _vect_packer(prog, res)

    # R3 dispatch exhaustiveness + R4 guards, for both wrappers
    from ..cfg import simple_paths
    from ..pathcond import path_conditions, rejection, split
    from ..normalform import strip_ordinals, canon
    for wname, prefix in (("unpack", "unpack"), ("pack", "pack")):
        w = prog.func(BMOD, wname)
        flow = flow_of(w)
        cfg = flow.cfg
        pc = path_conditions(flow)
        params = [p for p in w.params]
        arr_p, buf_p = params[0], (params[2] if len(params) > 2 else None)
        getattrs = [c for c in calls_in_body(w.node) if dotted(c.func) == "getattr" and len(c.args) >= 2]
        if len(getattrs) != 1:
            raise AnalysisError(f"{w.ident}: expected exactly one getattr dispatch")
        ga = getattrs[0]
        gan = cfg.node_for(ga)
        tgt_mod = ga.args[0]
        r = prog.resolve_name(dotted(tgt_mod) or "", w.module)
        if not (isinstance(r, tuple) and r[0] == "module" and r[1].name == KMOD):
            res.bad("R3", w, ga, f"dispatch target {norm(tgt_mod)} is not the kernels module", key=wname)
            continue
        fs = ga.args[1]
        if not isinstance(fs, ast.JoinedStr):
            res.bad("R3", w, ga, "dispatch name is not an f-string template", key=wname)
            continue

        def in_set(var: str):
            """predicate: `var in {literals}` is known; the literal set is left in in_set.values"""
            def pred(e, pol):
                if isinstance(e, ast.Compare) and len(e.ops) == 1 and norm(e.left) == var and \
                        ((isinstance(e.ops[0], ast.In) and pol) or (isinstance(e.ops[0], ast.NotIn) and not pol)):
                    try:
                        pred.values = set(ast.literal_eval(e.comparators[0]))
                    except Exception:
                        return False
                    return True
                return False
            pred.values = None
            return pred

        # the template's fields: nbits from the membership guard, the order string from the conditional that defines it
        nb_pred = in_set("nbits")
        nb_fact = pc.truth(ga, nb_pred, expanded=True)
        nb_vals = nb_pred.values if nb_fact is not None else None
        parts = []
        ord_vals = None
        for v in fs.values:
            if isinstance(v, ast.Constant):
                parts.append(("lit", v.value))
            elif dotted(v.value) == "nbits":
                parts.append(("var", "nbits"))
            else:
                parts.append(("var", "order"))
                ex = flow.expand(v.value, gan)
                leaves = []

                def collect(e):
                    if isinstance(e, ast.IfExp):
                        collect(e.body)
                        collect(e.orelse)
                    else:
                        leaves.append(e)
                collect(ex)
                if leaves and all(isinstance(l, ast.Constant) and isinstance(l.value, str) for l in leaves):
                    ord_vals = {l.value for l in leaves}
        if nb_vals is None or ord_vals is None:
            res.bad("R3", w, ga, "cannot determine the finite value sets of the dispatch template", key=wname)
            continue
        # every accepted spelling of the bit order selects the kernels of that order - evaluated over the finite set of
        # spellings the guard lets through (pack and unpack must resolve `b` alike, or packing is not unpacking's inverse)
        ord_expr = next((flow.expand(v.value, gan) for v in fs.values if not isinstance(v, ast.Constant) and dotted(v.value) != "nbits"), None)
        bo_pred = in_set("bitorder")
        bo_fact = pc.truth(ga, bo_pred, expanded=True)
        spellings = sorted(bo_pred.values) if bo_fact is not None and bo_pred.values else []
        wrong = []
        for sp in spellings:
            got = _fold_const(ord_expr, {"bitorder": sp}) if ord_expr is not None else None
            want = "big" if sp[:1] == "b" else "little"
            if got != want:
                wrong.append(f"{sp!r} -> {got!r}")
        okm = bool(spellings) and not wrong
        (res.ok if okm else res.bad)("R3", w, ga, f"every accepted spelling {spellings} selects the kernels of its own order" if okm else
                                     f"{wname}: accepted bit-order spellings select the wrong kernels ({', '.join(wrong) or 'no finite set of spellings'}): "
                                     "the short forms must mean the same order in pack and unpack", key=wname + ":spelling")
        names = []
        for nb in sorted(nb_vals):
            for o in sorted(ord_vals):
                names.append("".join(str(nb) if p == ("var", "nbits") else o if p[0] == "var" else p[1] for p in parts))
        missing = [n for n in names if not prog.has_func(KMOD, n) or prog.func(KMOD, n).numba is None]
        expected = sorted(f"{prefix}{nb}_8_{o}" for nb in (1, 2, 4) for o in ("big", "little"))
        if missing:
            res.bad("R3", w, ga, f"dispatch can produce {missing}, which are not numba kernels in {KMOD}", key=wname)
        elif sorted(names) != expected:
            res.bad("R3", w, ga, f"dispatch produces {sorted(names)}, expected {expected}", key=wname)
        else:
            res.ok("R3", w, ga, f"dispatch f-string expands to the 6 kernels {expected}, all defined", key=wname)
        # the kernel call: the getattr result called with (array, buffer), through a name or directly
        kcalls = [c for c in calls_in_body(w.node) if c.func is ga or (isinstance(c.func, ast.Name) and any(
            d.value is ga for d in flow.reaching(c.func.id, cfg.node_for(c))))]
        if len(kcalls) != 1:
            res.bad("R3", w, ga, "the dispatched kernel is not called exactly once", key=wname + ":call")
            continue
        kc = kcalls[0]
        kn = cfg.node_for(kc)

        # R4 guards: what is known whenever the kernel runs, and that failing it raises ValueError
        def is_u8(name):
            def pred(e, pol):
                if not (isinstance(e, ast.Compare) and len(e.ops) == 1):
                    return False
                sides = {norm(e.left), norm(e.comparators[0])}
                return f"{name}.dtype" in sides and bool(sides & {"np.uint8", "'uint8'", "np.dtype('uint8')"}) and \
                    ((isinstance(e.ops[0], ast.Eq) and pol) or (isinstance(e.ops[0], ast.NotEq) and not pol))
            return pred

        def order_exact(e, pol):
            """`bitorder in {<whole words>}`: the WHOLE string is compared (a test of bitorder[0] lets 'bogus' through as big),
            and every accepted spelling selects, through its first letter, the kernel of that name."""
            if not (isinstance(e, ast.Compare) and len(e.ops) == 1 and norm(e.left) == "bitorder" and
                    ((isinstance(e.ops[0], ast.In) and pol) or (isinstance(e.ops[0], ast.NotIn) and not pol))):
                return False
            try:
                vals = set(ast.literal_eval(e.comparators[0]))
            except Exception:
                return False
            return {"big", "little"} <= vals <= {"big", "little", "b", "l"}

        def not_ragged(e, pol):
            """pack only: the input is a whole number of bytes (otherwise the floor in the output length drops samples)."""
            if not (isinstance(e, ast.Compare) and len(e.ops) == 1 and isinstance(e.ops[0], (ast.Eq, ast.NotEq))):
                return False
            sides = [strip_ordinals(canon(e.left)), strip_ordinals(canon(e.comparators[0]))]
            rems = {strip_ordinals(canon(f"{arr_p}.size % (8 // int(nbits))")), strip_ordinals(canon(f"len({arr_p}) % (8 // int(nbits))"))}
            return "0" in sides and bool(set(sides) & rems) and (isinstance(e.ops[0], ast.Eq) == pol)

        wanted = {"dtype": [is_u8(arr_p)], "nbits": [in_set("nbits")], "bitorder": [order_exact]}
        if prefix == "pack":
            wanted["ragged"] = [not_ragged]
        for gname, preds in wanted.items():
            key = f"{wname}:{gname}"
            facts = [pc.truth(kc, p, expanded=True) for p in preds]
            if any(f is None for f in facts):
                res.bad("R4", w, w.node, f"{wname}: no ValueError guard on {gname} protects the kernel call", construct=wname, key=key)
            elif all("ValueError" in (rejection(pc, f) or ()) for f in facts):
                res.ok("R4", w, kc, f"the kernel runs only when {' and '.join(f.text() for f in facts)}; otherwise ValueError", key=key)
            else:
                res.bad("R4", w, kc, f"{wname}: guard on {gname} does not protect the kernel call (not dominating or not raising ValueError)", key=key)
        # size: on every path to the kernel the buffer is either allocated here with the exact element count (uint8), or its size was
        # compared (==) with that count
        # the factor is computed from int(nbits): with a numpy integer depth `8 // nbits` has that width and the product wraps
        count_src = f"{arr_p}.size * (8 // int(nbits))" if prefix == "unpack" else f"{arr_p}.size // (8 // int(nbits))"
        want_count = strip_ordinals(canon(count_src))
        key = f"{wname}:size"
        allocs = [s_ for s_ in body_walk(w.node) if isinstance(s_, ast.Assign) and isinstance(s_.value, ast.Call)
                  and dotted(s_.value.func) in ("np.zeros", "np.empty") and len(s_.targets) == 1 and norm(s_.targets[0]) == (buf_p or "?")]
        ok_size = True
        why = ""
        for path in simple_paths(cfg, cfg.entry, {kn}):
            alloc_here = [a_ for a_ in allocs if cfg.node_for(a_) in path]
            if alloc_here:
                a_ = alloc_here[-1].value
                kw = {k.arg: k.value for k in a_.keywords}
                shape = kw.get("shape") or (a_.args[0] if a_.args else None)
                dt = kw.get("dtype") or (a_.args[1] if len(a_.args) > 1 else None)
                if shape is None or strip_ordinals(canon(flow.expand(shape, cfg.node_for(alloc_here[-1])))) != want_count or dt is None or norm(dt) not in ("np.uint8", "'uint8'"):
                    ok_size, why = False, "the default buffer is not np.uint8 of exactly the element count (8 // int(nbits) per byte)"
                continue
            checked = False
            typed_buf = False
            for a_n, b_n in zip(path, path[1:]):
                st_ = cfg.ast[a_n]
                lab = cfg.edge_label(a_n, b_n)
                if cfg.kind[a_n] == "test" and isinstance(st_, ast.If) and lab in ("true", "false"):
                    for e_, pol_ in split(st_.test, lab == "true"):
                        if isinstance(e_, ast.Compare) and len(e_.ops) == 1 and ((isinstance(e_.ops[0], ast.Eq) and pol_) or (isinstance(e_.ops[0], ast.NotEq) and not pol_)):
                            l_, r_ = strip_ordinals(canon(flow.expand(e_.left, a_n))), strip_ordinals(canon(flow.expand(e_.comparators[0], a_n)))
                            if {l_, r_} == {f"{buf_p}.size", want_count}:
                                checked = True
                        if buf_p is not None and is_u8(buf_p)(e_, pol_):
                            typed_buf = True
            if not checked:
                ok_size, why = False, "a supplied buffer reaches the kernel without an == test of its size against the element count"
            elif not typed_buf:
                ok_size, why = False, "a supplied buffer reaches the kernel without its dtype being checked to be uint8 (numba then raises TypeError, not ValueError)"
        if ok_size:
            res.ok("R4", w, kc, "a supplied buffer is checked to be uint8 and to have (==) the exact element count; "
                   "the default path allocates that same count", key=key)
        else:
            res.bad("R4", w, kc, f"{wname}: {why}", key=key)
        # no other guard may reject an input the property says is valid
        for g in _raise_guards(w):
            for e_raw, pol_ in split(g.test, False):
                e_ = flow.expand(e_raw, cfg.node_for(g))
                # passing the guard requires e_ == pol_
                known = any(p(e_, pol_) for ps in wanted.values() for p in ps) or in_set("nbits")(e_, pol_)
                t = norm(e_)
                if known:
                    continue
                key = f"{wname}:extra-guard:{t[:40]}"
                sizes = isinstance(e_, ast.Compare) and len(e_.ops) == 1 and ".size" in t and "%" not in t
                rem_ = canon(f"{arr_p}.size % (8 // nbits)")
                ragged = canon(e_) in (rem_, f"cmp[Eq](0, {rem_})", f"cmp[NotEq](0, {rem_})", canon(f"{arr_p}.size % bitfact"),
                                       f"cmp[Eq](0, {canon(f'{arr_p}.size % bitfact')})", f"cmp[NotEq](0, {canon(f'{arr_p}.size % bitfact')})")
                domain = (".ndim" in t) or (buf_p is not None and is_u8(buf_p)(e_, pol_)) or (t == f"{buf_p} is None") or \
                    (isinstance(e_, ast.Call) and dotted(e_.func) == "isinstance")
                if sizes:
                    continue
                if ragged:
                    res.ok("R4", w, g, "ragged input (not a whole number of bytes) is rejected explicitly", key=key)
                elif domain:
                    res.ok("R4", w, g, f"additional guard `{t}` only rejects input outside the property's domain (dimension / buffer type)", key=key)
                else:
                    res.bad("R4", w, g, f"{wname}: an additional guard `{t}` raises for inputs that are valid by the property (every dtype-uint8 array of "
                            f"in-range samples whose size is a multiple of 8/nbits must round-trip)", key=key)
        # same result with and without a supplied buffer: the kernel call post-dominates both branches
        key = f"{wname}:buffer"
        if len(allocs) == 1 and cfg.must_pass(cfg.entry, cfg.exit, {kn}):
            res.ok("R4", w, allocs[0], "both buffer paths reach the same kernel call, which assigns every output element", key=key)
        else:
            res.bad("R4", w, w.node, "a path returns without running the kernel", construct=wname, key=key)

    # R5 one source of bit order
    table = prog.cls(BMOD, "BitsInfo").class_consts.get("default_bitorder")
    if table is None:
        raise AnalysisError("BitsInfo.default_bitorder table not found")
    try:
        lit = ast.literal_eval(table)
    except (ValueError, SyntaxError) as exc:
        raise AnalysisError(f"default_bitorder is not a literal table: {exc}") from exc
    want = {1: "little", 2: "big", 4: "big"}
    bi = prog.cls(BMOD, "BitsInfo")
    if {k: lit.get(k) for k in want} == want:
        res.ok("R5", bi.methods["bitorder"], table, "default_bitorder: 1-bit little, 2- and 4-bit big", key="table")
    else:
        res.bad("R5", bi.methods["bitorder"], table, f"default_bitorder table is { {k: lit.get(k) for k in want} }, "
                f"SIGPROC convention is {want}", key="table")
    bo = bi.methods["bitorder"]
    rets = [s for s in body_walk(bo.node) if isinstance(s, ast.Return)]
    if len(rets) == 1 and norm(rets[0].value) == "self.default_bitorder[self.nbits]":
        res.ok("R5", bo, rets[0], "BitsInfo.bitorder reads the table at its own depth", key="prop")
    else:
        res.bad("R5", bo, bo.node, "BitsInfo.bitorder no longer returns default_bitorder[nbits]", construct="bitorder", key="prop")
    nsite = 0
    for f in prog.module("sigpyproc.io.fileio").funcs.values():
        for c in calls_in_body(f.node):
            if dotted(c.func) in ("unpack", "pack"):
                nsite += 1
                kw = {k.arg: k.value for k in c.keywords}
                nb = c.args[1] if len(c.args) > 1 else kw.get("nbits")
                ff = flow_of(f)
                okb = kw.get("bitorder") is not None and norm(ff.expand(kw["bitorder"], ff.cfg.node_for(c))) == "self.bitsinfo.bitorder"
                okn = nb is not None and norm(ff.expand(nb, ff.cfg.node_for(c))) == "self.bitsinfo.nbits"
                key = f"{f.qualname}:{dotted(c.func)}"
                if okb and okn:
                    res.ok("R5", f, c, "depth and bit order both come from the stream's BitsInfo", key=key)
                else:
                    res.bad("R5", f, c, "SIGPROC I/O path does not take nbits and bitorder from self.bitsinfo "
                            "(reader and writer could disagree)", key=key)
    if nsite < 3:
        raise AnalysisError(f"only {nsite} pack/unpack call sites in fileio (3 confirmed by hand)")
    res.trusted_base += ["numba integer semantics: u1 >> int, u1 << int, &, | are evaluated in a wider integer and "
                         "truncated to 8 bits only by the store into the u1 output",
                         "pack kernels are given in-range samples (bits above nbits are zero), which bits.pack's "
                         "callers guarantee for unpacked/quantized data"]
    res.floor("R1", 14)
    res.floor("R2", 6)
    res.floor("R3", 4)
    res.floor("R4", 10)


# ---- helpers --------------------------------------------------------------------
def _raise_guards(fn: FuncInfo) -> list[ast.If]:
    return [s for s in body_walk(fn.node) if isinstance(s, ast.If) and always_raises(s.body)]


def _raises_value_error(g: ast.If) -> bool:
    for s in ast.walk(g):
        if isinstance(s, ast.Raise) and s.exc is not None:
            d = dotted(s.exc.func if isinstance(s.exc, ast.Call) else s.exc)
            return d == "ValueError"
    return False


def _guard_set(fn: FuncInfo, var: str) -> set | None:
    for g in _raise_guards(fn):
        t = g.test
        if isinstance(t, ast.Compare) and len(t.ops) == 1 and isinstance(t.ops[0], ast.NotIn) and dotted(t.left) == var:
            try:
                return set(ast.literal_eval(t.comparators[0]))
            except Exception:
                return None
    return None


def _ifexp_values(flow, fn: FuncInfo, name: str, at: int) -> set | None:
    ds = flow.reaching(name, at)
    if len(ds) != 1 or not isinstance(ds[0].value, ast.IfExp):
        return None
    v = ds[0].value
    if isinstance(v.body, ast.Constant) and isinstance(v.orelse, ast.Constant):
        return {v.body.value, v.orelse.value}
    return None


def _size_branch_ok(fn: FuncInfo, g: ast.If, prefix: str) -> bool:
    t = g.test
    if not (isinstance(t, ast.Compare) and len(t.ops) == 1 and isinstance(t.ops[0], ast.NotEq)):
        return False
    want_op = ast.Mult if prefix == "unpack" else ast.FloorDiv
    rhs = t.comparators[0]
    if not (isinstance(rhs, ast.BinOp) and isinstance(rhs.op, want_op) and norm(rhs.left) == "array.size"
            and norm(rhs.right) == "bitfact"):
        return False
    # the guard is the elif of `if buf is None: buf = np.zeros(shape=<same count>)`
    par = parent(g)
    if not (isinstance(par, ast.If) and g in par.orelse and isinstance(par.test, ast.Compare)
            and isinstance(par.test.ops[0], ast.Is)):
        return False
    for s in par.body:
        if isinstance(s, ast.Assign) and isinstance(s.value, ast.Call):
            kw = {k.arg: k.value for k in s.value.keywords}
            shape = kw.get("shape") or (s.value.args[0] if s.value.args else None)
            if shape is not None and norm(shape) == norm(rhs) and "uint8" in norm(s.value):
                break
    else:
        return False
    # bitfact = 8 // nbits
    fl = flow_of(fn)
    ds = fl.reaching("bitfact", fl.cfg.node_for(g))
    return len(ds) == 1 and ds[0].value is not None and norm(ds[0].value) == "8 // nbits"


K = "sigpyproc/core/kernels.py"
Bf = "sigpyproc/io/bits.py"
MUTANTS = [
    {"id": "c03-unpack1big-order", "file": K, "expect": "C03.R1",
     "old": "            unpacked[pos + (7 - jj)] = (array[ii] >> jj) & 1", "new": "            unpacked[pos + jj] = (array[ii] >> jj) & 1"},
    {"id": "c03-unpack2big-swap", "file": K, "expect": "C03.R1",
     "old": "        unpacked[pos + 3] = (array[ii] & 0x03) >> 0\n        unpacked[pos + 2] = (array[ii] & 0x0C) >> 2\n        unpacked[pos + 1] = (array[ii] & 0x30) >> 4\n        unpacked[pos + 0] = (array[ii] & 0xC0) >> 6",
     "new": "        unpacked[pos + 3] = (array[ii] & 0x03) >> 0\n        unpacked[pos + 1] = (array[ii] & 0x0C) >> 2\n        unpacked[pos + 2] = (array[ii] & 0x30) >> 4\n        unpacked[pos + 0] = (array[ii] & 0xC0) >> 6"},
    {"id": "c03-mask-0e", "file": K, "expect": "C03.R1",
     "old": "        unpacked[pos + 1] = (array[ii] & 0x0C) >> 2\n        unpacked[pos + 2] = (array[ii] & 0x30) >> 4\n        unpacked[pos + 3] = (array[ii] & 0xC0) >> 6",
     "new": "        unpacked[pos + 1] = (array[ii] & 0x1C) >> 2\n        unpacked[pos + 2] = (array[ii] & 0x30) >> 4\n        unpacked[pos + 3] = (array[ii] & 0xC0) >> 6"},
    {"id": "c03-unpack4-aug", "file": K, "expect": "C03.R1",
     "old": "        unpacked[pos + 1] = (array[ii] & 0x0F) >> 0\n        unpacked[pos + 0] = (array[ii] & 0xF0) >> 4",
     "new": "        unpacked[pos + 1] |= (array[ii] & 0x0F) >> 0\n        unpacked[pos + 0] = (array[ii] & 0xF0) >> 4"},
    {"id": "c03-pack4little-swap", "file": K, "expect": "C03.R1",
     "old": "        packed[ii] = (array[pos + 1] << 4) | array[pos + 0]", "new": "        packed[ii] = (array[pos + 0] << 4) | array[pos + 1]"},
    {"id": "c03-pack2-shift", "file": K, "expect": "C03.R1",
     "old": "            (array[pos + 3] << 6)\n            | (array[pos + 2] << 4)\n            | (array[pos + 1] << 2)",
     "new": "            (array[pos + 3] << 6)\n            | (array[pos + 2] << 4)\n            | (array[pos + 1] << 1)"},
    {"id": "c03-pack1-stride", "file": K, "expect": "C03.R1",
     "old": "def pack1_8_little(array: np.ndarray, packed: np.ndarray) -> None:\n    for ii in range(packed.size):\n        pos = ii * 8",
     "new": "def pack1_8_little(array: np.ndarray, packed: np.ndarray) -> None:\n    for ii in range(packed.size):\n        pos = ii * 4"},
    {"id": "c03-unpack-extent", "file": K, "expect": "C03.R1",
     "old": "def unpack4_8_little(array: np.ndarray, unpacked: np.ndarray) -> None:\n    for ii in range(array.size):",
     "new": "def unpack4_8_little(array: np.ndarray, unpacked: np.ndarray) -> None:\n    for ii in range(array.size - 1):"},
    {"id": "c03-dispatch-rename", "file": K, "expect": "C03",
     "old": "def unpack2_8_little(", "new": "def unpack2_8_ltl("},
    {"id": "c03-size-guard-loose", "file": Bf, "expect": "C03.R4",
     "old": "    elif unpacked.size != array.size * bitfact:", "new": "    elif unpacked.size < array.size * bitfact:"},
    {"id": "c03-nbits-guard-8", "file": Bf, "expect": "C03.R3",
     "old": "    if nbits not in {1, 2, 4}:\n        msg = f\"nbits must be 1, 2, or 4, got {nbits}\"\n        raise ValueError(msg)\n    if not isinstance(bitorder, str) or bitorder not in {\"big\", \"little\", \"b\", \"l\"}:\n        msg = f\"bitorder must be 'big' or 'little', got {bitorder}\"\n        raise ValueError(msg)\n    bitorder_str = \"big\" if bitorder[0] == \"b\" else \"little\"\n    # A numpy integer depth would make the size arithmetic wrap in its own width\n    bitfact = 8 // int(nbits)\n    if array.size % bitfact",
     "new": "    if nbits not in {1, 2, 4, 8}:\n        msg = f\"nbits must be 1, 2, or 4, got {nbits}\"\n        raise ValueError(msg)\n    if not isinstance(bitorder, str) or bitorder not in {\"big\", \"little\", \"b\", \"l\"}:\n        msg = f\"bitorder must be 'big' or 'little', got {bitorder}\"\n        raise ValueError(msg)\n    bitorder_str = \"big\" if bitorder[0] == \"b\" else \"little\"\n    # A numpy integer depth would make the size arithmetic wrap in its own width\n    bitfact = 8 // int(nbits)\n    if array.size % bitfact"},
    {"id": "c03-default-order-1bit-big", "file": Bf, "expect": "C03.R5",
     "old": "        1: \"little\",\n        2: \"big\",", "new": "        1: \"big\",\n        2: \"big\","},
    {"id": "c03-writer-hardcoded-order", "file": "sigpyproc/io/fileio.py", "expect": "C03.R5",
     "old": "packed = pack(arr, self.bitsinfo.nbits, bitorder=self.bitsinfo.bitorder)", "new": "packed = pack(arr, self.bitsinfo.nbits, bitorder=\"big\")"},
    {"id": "c03-dtype-guard-dropped", "file": Bf, "expect": "C03.R4",
     "old": "    if array.dtype != np.uint8:\n        msg = f\"Input array must be uint8, got {array.dtype}\"\n        raise ValueError(msg)\n    if nbits not in {1, 2, 4}:\n        msg = f\"nbits must be 1, 2, or 4, got {nbits}\"\n        raise ValueError(msg)\n    if not isinstance(bitorder, str) or bitorder not in {\"big\", \"little\", \"b\", \"l\"}:\n        msg = f\"bitorder must be 'big' or 'little', got {bitorder}\"\n        raise ValueError(msg)\n    bitorder_str = \"big\" if bitorder[0] == \"b\" else \"little\"\n    # A numpy integer depth would make the size arithmetic wrap in its own width\n    bitfact = 8 // int(nbits)\n    if unpacked is None:",
     "new": "    if nbits not in {1, 2, 4}:\n        msg = f\"nbits must be 1, 2, or 4, got {nbits}\"\n        raise ValueError(msg)\n    if not isinstance(bitorder, str) or bitorder not in {\"big\", \"little\", \"b\", \"l\"}:\n        msg = f\"bitorder must be 'big' or 'little', got {bitorder}\"\n        raise ValueError(msg)\n    bitorder_str = \"big\" if bitorder[0] == \"b\" else \"little\"\n    # A numpy integer depth would make the size arithmetic wrap in its own width\n    bitfact = 8 // int(nbits)\n    if unpacked is None:"},
]
MUTANTS += [
    {"id": "c03-pack-wrong-ragged-guard", "file": Bf, "expect": "C03.R4",
     "old": "    if array.size % bitfact != 0:\n", "new": "    if array.size % nbits != 0:\n"},
    {"id": "c03-revert-F32-order-prefix", "file": Bf, "expect": "C03.R4",
     "old": "    if not isinstance(bitorder, str) or bitorder not in {\"big\", \"little\", \"b\", \"l\"}:\n        msg = f\"bitorder must be 'big' or 'little', got {bitorder}\"\n        raise ValueError(msg)\n    bitorder_str = \"big\" if bitorder[0] == \"b\" else \"little\"\n    # A numpy integer depth would make the size arithmetic wrap in its own width\n    bitfact = 8 // int(nbits)\n    if unpacked is None:",
     "new": "    if (not bitorder) or (bitorder[0] not in {\"b\", \"l\"}):\n        msg = f\"bitorder must be 'big' or 'little', got {bitorder}\"\n        raise ValueError(msg)\n    bitorder_str = \"big\" if bitorder[0] == \"b\" else \"little\"\n    # A numpy integer depth would make the size arithmetic wrap in its own width\n    bitfact = 8 // int(nbits)\n    if unpacked is None:"},
    {"id": "c03-revert-F32-ragged", "file": Bf, "expect": "C03.R4",
     "old": "    if array.size % bitfact != 0:\n        msg = f\"Input size must be a multiple of {bitfact}, got {array.size}\"\n        raise ValueError(msg)\n", "new": ""},
    {"id": "c03-revert-F32-buffer-dtype", "file": Bf, "expect": "C03.R4",
     "old": "    elif unpacked.dtype != np.uint8:\n        msg = f\"Unpacking array must be uint8, got {unpacked.dtype}\"\n        raise ValueError(msg)\n", "new": ""},
    {"id": "c03-revert-F33", "file": Bf, "expect": "C03.R4",
     "old": "    bitfact = 8 // int(nbits)\n    if unpacked is None:", "new": "    bitfact = 8 // nbits\n    if unpacked is None:"},
    {"id": "c03-order-accepts-more", "file": Bf, "expect": "C03.R4",
     "old": "    if not isinstance(bitorder, str) or bitorder not in {\"big\", \"little\", \"b\", \"l\"}:\n        msg = f\"bitorder must be 'big' or 'little', got {bitorder}\"\n        raise ValueError(msg)\n    bitorder_str = \"big\" if bitorder[0] == \"b\" else \"little\"\n    # A numpy integer depth would make the size arithmetic wrap in its own width\n    bitfact = 8 // int(nbits)\n    if array.size % bitfact",
     "new": "    if not isinstance(bitorder, str) or bitorder not in {\"big\", \"little\", \"b\", \"l\", \"both\"}:\n        msg = f\"bitorder must be 'big' or 'little', got {bitorder}\"\n        raise ValueError(msg)\n    bitorder_str = \"big\" if bitorder[0] == \"b\" else \"little\"\n    # A numpy integer depth would make the size arithmetic wrap in its own width\n    bitfact = 8 // int(nbits)\n    if packed"},
]
MUTANTS += [
    {"id": "c03-vect-tail-from-zero", "file": "sigpyproc/core/kernels.py", "expect": "C03.R1",
     "old": "    for j in range(i, nwords):\n        x = array_uint64[j]", "new": "    for j in range(nwords - i):\n        x = array_uint64[j]"},
    {"id": "c03-vect-magic-swapped", "file": "sigpyproc/core/kernels.py", "expect": "C03.R1",
     "old": "        magic = types.uint64(0x8040201008040201)\n    else:\n        magic = types.uint64(0x0102040810204080)", "new": "        magic = types.uint64(0x0102040810204080)\n    else:\n        magic = types.uint64(0x8040201008040201)"},
    {"id": "c03-pack-short-spelling", "file": "sigpyproc/io/bits.py", "expect": "C03.R3",
     "old": "    pack_func = getattr(kernels, f\"pack{nbits:d}_8_{bitorder_str}\")", "new": "    bitorder_str = \"big\" if bitorder == \"big\" else \"little\"\n    pack_func = getattr(kernels, f\"pack{nbits:d}_8_{bitorder_str}\")"},
]
TWINS = [
    {"id": "c03-twin-vect-while-le", "file": "sigpyproc/core/kernels.py",
     "old": "    while i < nwords - batch_size:", "new": "    while i <= nwords - batch_size:"},
    {"id": "c03-twin-order-startswith", "file": "sigpyproc/io/bits.py",
     "old": "    pack_func = getattr(kernels, f\"pack{nbits:d}_8_{bitorder_str}\")", "new": "    bitorder_str = \"big\" if bitorder.startswith(\"b\") else \"little\"\n    pack_func = getattr(kernels, f\"pack{nbits:d}_8_{bitorder_str}\")"},
    {"id": "c03-twin-ragged-guard", "file": Bf,
     "old": "    if array.size % bitfact != 0:\n", "new": "    if not (array.size % bitfact == 0):\n"},
    {"id": "c03-twin-order-tuple", "file": Bf,
     "old": "    if not isinstance(bitorder, str) or bitorder not in {\"big\", \"little\", \"b\", \"l\"}:\n        msg = f\"bitorder must be 'big' or 'little', got {bitorder}\"\n        raise ValueError(msg)\n    bitorder_str = \"big\" if bitorder[0] == \"b\" else \"little\"\n    # A numpy integer depth would make the size arithmetic wrap in its own width\n    bitfact = 8 // int(nbits)\n    if array.size % bitfact",
     "new": "    if bitorder not in (\"big\", \"little\"):\n        msg = f\"bitorder must be 'big' or 'little', got {bitorder}\"\n        raise ValueError(msg)\n    bitorder_str = \"big\" if bitorder[0] == \"b\" else \"little\"\n    per_byte = 8 // int(nbits)\n    bitfact = per_byte\n    if array.size % bitfact"},
    {"id": "c03-twin-unroll", "file": K,
     "old": "        for jj in range(8):\n            unpacked[pos + jj] = (array[ii] >> jj) & 1",
     "new": "        byte = array[ii]\n        for jj in range(8):\n            unpacked[jj + pos] = (array[ii] >> jj) & 0x01"},
    {"id": "c03-twin-pack-reorder", "file": K,
     "old": "        packed[ii] = (array[pos + 0] << 4) | array[pos + 1]", "new": "        packed[ii] = array[pos + 1] | (array[pos + 0] << 4)"},
    {"id": "c03-twin-mask-after-shift", "file": K,
     "old": "        unpacked[pos + 0] = (array[ii] & 0x0F) >> 0\n        unpacked[pos + 1] = (array[ii] & 0xF0) >> 4",
     "new": "        unpacked[pos + 0] = array[ii] & 15\n        unpacked[pos + 1] = (array[ii] >> 4) & 15"},
]
