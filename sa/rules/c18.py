"""C18 - PSRFITS reads are position independent and agree with the SIGPROC path (structural clauses)."""
from __future__ import annotations

import ast

from ..dataflow import flow_of
from ..model import AnalysisError, ClassInfo, FuncInfo, Program, body_walk, calls_in_body, dotted, norm, parent
from ..poly import Poly, PolyEnv
from ..report import Result
from ..stream import dict_literal_keys

TITLE = "PSRFITS reads are position-independent and agree with the SIGPROC path"
LEVEL = "other"
TECHNIQUE = ("static analysis: row-cover algebra in canonical form, dependence of the read on the planned block (shared with C01), "
             "annotation-driven type check of header fields, reader/header channel-order pairing")
EXPLANATION = (
    "Decides: (R1) in PFITSReader.read_block and read_plan the first row and intra-row offset are divmod(start, NSBLK), the "
    "number of table rows read is ceil((offset + n)/NSBLK) for the n samples wanted, and exactly rows[offset : offset+n] is "
    "kept; (R2) read_plan satisfies the same structural gulped-reading rules as the SIGPROC reader (C01 R1,R2,R4,R5,R8 "
    "re-evaluated on PFITSReader.read_plan); (R3) every value Header.from_pfits stores into an int/float/str Header field is "
    "a plain number/string by its annotations - not an astropy Quantity/Time/Angle; (R4) because read_subints flips the "
    "channel axis when the file's channel spacing is positive, the header built for the reader describes descending order "
    "under that same condition; (R5) unpack/scale/offset/weight are applied in that order on the (samples, pols, chans) "
    "cube and the shape is validated; (R6) sample counts, shapes, sampling time, depth, channel frequencies and the start epoch "
    "are read from the PSRFITS keys/columns that define them; (R7) the samples stay float32 from read_subint to what read_plan yields: no numpy "
    "float64 scalar (np.sqrt(2.0), np.float64(...), ...) is combined with the float32 sample arrays - under NumPy 2 promotion that makes the block "
    "float64, which the typed streaming kernels reject while read_block (which casts) still works. Not decided: sample values, scale/offset arithmetic, "
    "multi-polarisation sums. "
    "Since F36, R1 also forbids an unqualified squeeze in io/pfits.py: a row keeps its (sample, polarisation, channel) axes when one of them has length 1."
)
READERS = "sigpyproc.readers"
PFITS = "sigpyproc.io.pfits"
HEADER = "sigpyproc.header"
PLAIN = {"int", "float", "str", "bool"}
BAD_TYPES = {"Quantity", "units.Quantity", "Time", "Angle", "SkyCoord", "TimeDelta", "EarthLocation", "FrequencyChannels"}
NUMERIC_EXTERNAL_ATTRS = {"mjd", "value", "deg", "jd", "name"}


def _anc18(n: ast.AST):
    p_ = parent(n)
    while p_ is not None:
        yield p_
        p_ = parent(p_)


def _row_cover(prog: Program, res: Result, fn: FuncInfo, n_name_hint: str | None) -> None:
    flow = flow_of(fn)
    cfg = flow.cfg
    tag = fn.qualname
    dms = [s for s in body_walk(fn.node) if isinstance(s, ast.Assign) and isinstance(s.value, ast.Call) and dotted(s.value.func) == "divmod"
           and isinstance(s.targets[0], ast.Tuple) and len(s.targets[0].elts) == 2 and norm(s.value.args[0]) == "start"]
    key = f"{tag}:divmod"
    if len(dms) != 1 or norm(flow.expand(dms[0].value.args[1], cfg.node_for(dms[0]))) != "self.sub_hdr.subint_samples":
        res.bad("R1", fn, fn.node, "start is not split into (row, offset) by divmod(start, sub_hdr.subint_samples)", construct=tag, key=key)
        return
    row, off = (norm(e) for e in dms[0].targets[0].elts)
    res.ok("R1", fn, dms[0], f"({row}, {off}) = divmod(start, NSBLK)", key=key)
    reads = [c for c in calls_in_body(fn.node) if (dotted(c.func) or "").endswith("read_subints")]
    if len(reads) != 1 or len(reads[0].args) < 2:
        res.bad("R1", fn, fn.node, "expected one read_subints(row, nrows) call", construct=tag, key=f"{tag}:read")
        return
    rd = reads[0]
    # the rows are read for THIS request / this block: the read is not skipped under any condition (rows kept from an earlier
    # block need not cover this one)
    from ..pathcond import path_conditions as _pc18
    pc_ = _pc18(flow)
    facts_ = [f_ for f_ in pc_.facts_at(rd) if f_.test_node is not None]
    loop_ = next((p_ for p_ in _anc18(rd) if isinstance(p_, (ast.For, ast.While))), None)
    inside = [f_ for f_ in facts_ if loop_ is not None and any(n_ is cfg.ast[f_.test_node] for n_ in ast.walk(loop_))] if loop_ is not None else []
    okr = not inside
    (res.ok if okr else res.bad)("R1", fn, rd, "the rows are read anew for every block" if okr else
                                 f"read_subints is skipped when `{inside[0].text()}` does not hold: rows kept from an earlier block are sliced for this one, "
                                 "and they need not cover it (fewer samples are delivered than announced)", key=f"{tag}:read-unconditional")
    # the slice applied to the rows
    sl = None
    for s in body_walk(fn.node):
        if isinstance(s, ast.Assign) and isinstance(s.value, ast.Subscript) and isinstance(s.value.slice, ast.Slice) \
                and s.value.slice.lower is not None and norm(s.value.slice.lower) == off:
            sl = s
    key = f"{tag}:slice"
    if sl is None:
        res.bad("R1", fn, rd, f"the rows read are not sliced from the intra-row offset `{off}`", key=key)
        return
    env = PolyEnv()
    up = env.poly(sl.value.slice.upper)
    n = up - Poly.sym(off)
    if not (len(n.symbols()) == 1 and n == Poly.sym(next(iter(n.symbols())))):
        res.bad("R1", fn, sl, f"slice upper bound `{norm(sl.value.slice.upper)}` is not offset + <samples wanted>", key=key)
        return
    nname = next(iter(n.symbols()))
    res.ok("R1", fn, sl, f"exactly rows[{off} : {off} + {nname}] is kept", key=key)
    nsubs = flow.expand(rd.args[1], cfg.node_for(rd), stop={off, nname})
    want = ast.parse(f"({off} + {nname} + self.sub_hdr.subint_samples - 1) // self.sub_hdr.subint_samples", mode="eval").body
    key = f"{tag}:rows"
    if norm(rd.args[0]) == row and env.poly(nsubs) == env.poly(want):
        res.ok("R1", fn, rd, f"rows read = ceil(({off} + {nname}) / NSBLK) starting at row {row}", key=key)
    else:
        res.bad("R1", fn, rd, f"number of rows read is `{norm(nsubs)}`; to cover samples [{off}, {off}+{nname}) of the first row onwards "
                f"it must be ({off} + {nname} + NSBLK - 1) // NSBLK starting at row `{row}`", key=key)
    if n_name_hint and nname != n_name_hint:
        res.bad("R1", fn, sl, f"the number of samples kept is `{nname}`, expected `{n_name_hint}`", key=f"{tag}:count")


def _static_type(prog: Program, fn: FuncInfo, e: ast.AST, at: int | None = None, depth: int = 0) -> tuple[str, str]:
    """('plain' | 'bad' | 'unknown', description) of the value of expression e."""
    if isinstance(e, ast.Constant):
        return ("plain", type(e.value).__name__)
    if isinstance(e, (ast.BinOp, ast.UnaryOp, ast.IfExp)) and depth < 6:
        parts = [e.left, e.right] if isinstance(e, ast.BinOp) else [e.body, e.orelse] if isinstance(e, ast.IfExp) else [e.operand]
        kinds = [_static_type(prog, fn, p, at, depth + 1) for p in parts]
        if any(k[0] == "bad" for k in kinds):
            return [k for k in kinds if k[0] == "bad"][0]
        if all(k[0] == "plain" for k in kinds):
            return ("plain", "arithmetic on plain numbers")
        return [k for k in kinds if k[0] != "plain"][0]
    if isinstance(e, ast.Name) and at is not None and depth < 6 and fn.param_annotation(e.id) is None:
        fl = flow_of(fn)
        ds = [d for d in fl.defs if d.var == e.id and d.kind == "assign" and d.value is not None]
        if ds:
            kinds = [_static_type(prog, fn, d.value, d.node, depth + 1) for d in ds
                     if not (isinstance(d.value, (ast.BinOp, ast.UnaryOp)) and e.id in {n.id for n in ast.walk(d.value) if isinstance(n, ast.Name)}
                             and depth > 0)]
            kinds = kinds or [("plain", "self-referential update")]
            if any(k[0] == "bad" for k in kinds):
                return [k for k in kinds if k[0] == "bad"][0]
            if all(k[0] == "plain" for k in kinds):
                return ("plain", f"{e.id}: every definition is a plain number")
            return [k for k in kinds if k[0] != "plain"][0]
    if isinstance(e, ast.Call):
        d = dotted(e.func) or ""
        if d in ("float", "int", "str", "bool", "round", "len", "os.fspath", "os.fsdecode"):
            return ("plain", f"{d}()")
        return ("unknown", f"call {d}")
    if isinstance(e, ast.Name):
        ann = fn.param_annotation(e.id)
        if ann is not None and norm(ann) in PLAIN:
            return ("plain", norm(ann))
        return ("unknown", f"name {e.id}")
    if isinstance(e, ast.Attribute):
        base_t = prog.type_of(e.value, fn)
        if base_t is not None:
            for c in prog.mro(base_t):
                m = c.methods.get(e.attr)
                if m is not None and m.is_property:
                    r = norm(m.node.returns) if m.node.returns is not None else ""
                    if r in PLAIN:
                        return ("plain", f"{c.name}.{e.attr} -> {r}")
                    if r.split("[")[0] in BAD_TYPES:
                        return ("bad", f"{c.name}.{e.attr} -> {r}")
                    return ("unknown", f"{c.name}.{e.attr} -> {r or '?'}")
                if e.attr in c.fields:
                    r = norm(c.fields[e.attr].annotation)
                    if r in PLAIN:
                        return ("plain", f"{c.name}.{e.attr}: {r}")
                    if r in BAD_TYPES:
                        return ("bad", f"{c.name}.{e.attr}: {r}")
            return ("unknown", f"{base_t.name}.{e.attr}")
        # attribute of an external-typed value (Time.mjd, Quantity.value, Angle.deg)
        inner = _static_type(prog, fn, e.value)
        if e.attr in NUMERIC_EXTERNAL_ATTRS and inner[0] in ("bad", "unknown"):
            return ("plain", f".{e.attr} of {inner[1]}")
        return ("unknown", f".{e.attr} of {inner[1]}")
    return ("unknown", norm(e)[:40])


F64_SCALAR_FUNCS = {"np.sqrt", "np.float64", "np.double", "np.log", "np.log2", "np.log10", "np.exp", "np.mean", "np.median", "np.std", "np.sum",
                    "math.sqrt"}   # math.* give Python floats (weak), listed separately below
WEAK_FUNCS = {"math.sqrt", "math.log", "math.exp", "float", "int", "round", "abs", "max", "min"}
F32_FUNCS = {"np.float32"}


def _sample_dtype(prog: Program, res: Result) -> None:
    """R7: a small dtype abstract interpretation of the PSRFITS sample path (read_subint, read_subint_pol, read_subints):
    float32 arrays combined with Python numbers stay float32; combined with a *numpy* float64 scalar they become float64."""
    for qual in ("PFITSFile.read_subint", "PFITSFile.read_subint_pol"):
        fn = prog.func(PFITS, qual)
        fl = flow_of(fn)
        culprit: list[tuple[ast.AST, str]] = []

        def kind(e: ast.AST, at: int, depth: int = 0) -> str:
            if depth > 12:
                return "any"
            if isinstance(e, ast.Constant) and isinstance(e.value, (int, float)) and not isinstance(e.value, bool):
                return "weak"
            if isinstance(e, ast.Name):
                ds = [d for d in fl.reaching(e.id, at) if d.kind in ("assign", "aug") and d.value is not None]
                if not ds:
                    return "any"
                kinds = {kind(d.value, d.node, depth + 1) for d in ds if not any(isinstance(n, ast.Name) and n.id == e.id for n in ast.walk(d.value))}
                kinds.discard("any")
                return kinds.pop() if len(kinds) == 1 else ("f64" if "f64" in kinds else "any")
            if isinstance(e, (ast.Subscript, ast.Attribute)):
                return kind(e.value, at, depth + 1) if isinstance(e, ast.Subscript) else "any"
            if isinstance(e, ast.UnaryOp):
                return kind(e.operand, at, depth + 1)
            if isinstance(e, ast.Call):
                d = dotted(e.func) or ""
                if d in F32_FUNCS:
                    return "f32"
                if d in WEAK_FUNCS:
                    return "weak"
                if isinstance(e.func, ast.Attribute) and e.func.attr == "astype" and e.args and norm(e.args[0]) in ("np.float32", "'float32'"):
                    return "f32"
                if d in ("np.zeros", "np.empty", "np.ones") and any(k.arg == "dtype" and norm(k.value) in ("np.float32", "'float32'") for k in e.keywords):
                    return "f32"
                if d in F64_SCALAR_FUNCS and all(kind(a, at, depth + 1) == "weak" for a in e.args):
                    return "f64"
                if d.endswith("read_subint"):
                    return "f32"
                return "any"
            if isinstance(e, ast.BinOp):
                l, r = kind(e.left, at, depth + 1), kind(e.right, at, depth + 1)
                if "f64" in (l, r):
                    if (l == "f64" and r in ("f32", "any")) or (r == "f64" and l in ("f32", "any")):
                        culprit.append((e, f"`{norm(e.left)[:40]}` is {l}, `{norm(e.right)[:40]}` is {r}"))
                    return "f64"
                if "f32" in (l, r):
                    return "f32"
                if l == r == "weak":
                    return "weak"
                return "any"
            return "any"

        for st in body_walk(fn.node):
            if isinstance(st, (ast.Assign, ast.AugAssign, ast.Return)) and getattr(st, "value", None) is not None:
                try:
                    kind(st.value, fl.cfg.node_for(st))
                except AnalysisError:
                    pass
        key = f"dtype:{qual}"
        if culprit:
            e, why = culprit[0]
            res.bad("R7", fn, e, f"a numpy float64 scalar is combined with the float32 samples ({why}): under NumPy 2 the block becomes float64, so "
                    f"read_plan yields float64 and the typed streaming kernels reject it", key=key)
        else:
            res.ok("R7", fn, fn.node, "no numpy float64 scalar is combined with the float32 sample arrays", key=key, construct=qual)


def run(prog: Program, res: Result, tier: str) -> None:
    # ---- R1 (cont.) a row keeps its (sample, polarisation, channel) axes when one of them has length 1 (F36) --------------
    from ..lints import check_no_bare_squeeze
    check_no_bare_squeeze(prog, res, "R1", ["sigpyproc.io.pfits"], "a file with one polarisation (or one sample per row) loses that axis and "
                          "cannot be read at all")
    prog.consulted.update({READERS, PFITS, HEADER, "sigpyproc.utils"})
    rb = prog.func(READERS, "PFITSReader.read_block")
    rp = prog.func(READERS, "PFITSReader.read_plan")
    _row_cover(prog, res, rb, "nsamps")
    _row_cover(prog, res, rp, None)
    # read_block: reshape(nsamps, nchans).T and range guards
    from ..normalform import canon, returned
    from ..pathcond import guarded
    from ..poly import PolyEnv
    key = "read_block:shape"
    flow = flow_of(rb)
    rets = [s_ for s_ in body_walk(rb.node) if isinstance(s_, ast.Return) and isinstance(s_.value, ast.Call)]
    shaped = False
    for r_ in rets:
        arg0 = r_.value.args[0] if r_.value.args else None
        ex = flow.expand(arg0, flow.cfg.node_for(r_)) if arg0 is not None else None
        # <rows>.reshape(nsamps, nchans).transpose() (or .T)
        for sub in (ast.walk(ex) if ex is not None else ()):
            inner = None
            if isinstance(sub, ast.Call) and isinstance(sub.func, ast.Attribute) and sub.func.attr == "transpose" and not sub.args:
                inner = sub.func.value
            elif isinstance(sub, ast.Attribute) and sub.attr == "T":
                inner = sub.value
            if isinstance(inner, ast.Call) and isinstance(inner.func, ast.Attribute) and inner.func.attr == "reshape":
                dims = inner.args[0].elts if len(inner.args) == 1 and isinstance(inner.args[0], ast.Tuple) else inner.args
                if len(dims) == 2 and canon(dims[0]) == canon("nsamps") and canon(dims[1]) == canon("self.header.nchans"):
                    shaped = True
    if shaped:
        res.ok("R1", rb, rb.node, "block is (channels, samples) = reshape(nsamps, nchans).T", construct="reshape", key=key)
    else:
        res.bad("R1", rb, rb.node, "read_block no longer reshapes the rows to (nsamps, nchans) and transposes", construct="reshape", key=key)
    rdc = [c for c in calls_in_body(rb.node) if (dotted(c.func) or "").endswith("read_subints")]
    key = "read_block:guards"
    P_ = lambda t: PolyEnv().poly(ast.parse(t, mode="eval").body)  # noqa: E731
    okg, whyg = guarded(flow, rdc, [("<=0", P_("-start")), ("<=0", P_("start + nsamps - self.header.nsamples"))], exc="ValueError")
    if okg:
        res.ok("R1", rb, rb.node, "out-of-range requests raise ValueError before anything is read", key=key, construct="guards")
    else:
        res.bad("R1", rb, rb.node, "read_block's range guards no longer dominate the read: " + "; ".join(whyg), construct="guards", key=key)

    # ---- R2 = C01 rules on PFITSReader.read_plan --------------------------------------------------
    from .c01 import check_reader
    scratch = Result("C01", prog)
    check_reader(prog, scratch, rp, "pfits")
    for o in scratch.obligations:
        res.add("R2", None, None, o.ok, f"[{o.rule}] {o.detail}", construct=o.construct, key=f"{o.rule}:{o.key}", where=o.where)
        res.obligations[-1].file, res.obligations[-1].line = o.file, o.line

    # ---- R3 plain header fields ------------------------------------------------------------------------
    fp = prog.func(HEADER, "Header.from_pfits")
    hdr = prog.cls(HEADER, "Header")
    # the literal mapping of Header fields, whatever it is called and however it reaches cls(**...): the dict literal of the
    # function with the most Header-field keys
    cands = [s for s in body_walk(fp.node) if isinstance(s, (ast.Assign, ast.AnnAssign)) and isinstance(s.value, ast.Dict)
             and dict_literal_keys(s.value) is not None]
    upd = sorted(cands, key=lambda s: -sum(1 for k in dict_literal_keys(s.value) if k in hdr.fields))[:1]
    d = dict_literal_keys(upd[0].value) if upd else None
    if d is None or not any(k in hdr.fields for k in d):
        raise AnalysisError("from_pfits: literal mapping of Header fields not found")
    required = [n for n in hdr.attrs_fields if hdr.fields[n].value is None]
    miss = sorted(set(required) - set(d))
    (res.ok if not miss else res.bad)("R3", fp, upd[0], f"all {len(required)} required Header fields are supplied" if not miss else
                                      f"from_pfits does not supply required Header fields {miss}", key="from_pfits:required", construct="required fields")
    for k, v in d.items():
        if k not in hdr.fields:
            res.bad("R3", fp, v, f"key {k} is not a Header field", key=f"from_pfits:{k}")
            continue
        ann = norm(hdr.fields[k].annotation)
        if ann not in PLAIN:
            continue
        ex = flow_of(fp).expand(v, flow_of(fp).cfg.node_for(upd[0]))
        kind, desc = _static_type(prog, fp, ex, flow_of(fp).cfg.node_for(upd[0]))
        key = f"from_pfits:{k}"
        if kind == "plain":
            res.ok("R3", fp, v, f"{k}: {ann} <- {desc}", key=key)
        elif kind == "bad":
            res.bad("R3", fp, v, f"Header.{k} is declared {ann} but receives `{norm(v)}` of type {desc}: header arithmetic then yields "
                    f"astropy objects (or raises) instead of numbers in MHz/s", key=key)
        else:
            res.bad("R3", fp, v, f"cannot establish that `{norm(v)}` ({desc}) is a plain {ann}", key=key)

    # ---- R4 channel order pairing ----------------------------------------------------------------------------
    rs = prog.func(PFITS, "PFITSFile.read_subints")
    flips = [s for s in body_walk(rs.node) if isinstance(s, ast.If) and any(isinstance(c, ast.Call) and dotted(c.func) in ("np.fliplr", "np.flip")
                                                                            for c in ast.walk(ast.Module(body=s.body, type_ignores=[])))]
    key = "order:reader"
    if len(flips) == 1 and norm(flips[0].test) == "self.sub_hdr.freqs.foff > 0":
        res.ok("R4", rs, flips[0], "read_subints reverses the channel axis exactly when the file's channel spacing is positive", key=key)
        reader_flips = True
    elif not flips:
        res.ok("R4", rs, rs.node, "read_subints never reorders channels", construct="no flip", key=key)
        reader_flips = False
    else:
        res.bad("R4", rs, flips[0], "channel flip condition is not `sub_hdr.freqs.foff > 0`", key=key)
        reader_flips = True
    # the flip lives in read_subints only: every sample the reader delivers must come through it (who-may-call)
    owners = {"read_subint_pol": {"PFITSFile.read_subints"}, "read_subint": {"PFITSFile.read_subint_pol"}}
    for callee, allowed in owners.items():
        sites = [(f_, c_) for f_ in prog.all_funcs() for c_ in calls_in_body(f_.node)
                 if isinstance(c_.func, ast.Attribute) and c_.func.attr == callee]
        for f_, c_ in sites:
            key_ = f"order:only-through-read_subints:{f_.qualname}:{callee}"
            if f_.qualname in allowed:
                res.ok("R4", f_, c_, f"{callee} is reached through {f_.qualname} (below the channel-order normalisation of read_subints)", key=key_)
            else:
                res.bad("R4", f_, c_, f"{f_.qualname} reads rows with {callee} directly: only read_subints reverses the channel axis of ascending files, so "
                        f"these samples are in file order while the header and every other read are in descending order", key=key_)
    # header: under foff > 0, foff must be negated and fch1 moved to the other band edge
    fl = flow_of(fp)
    src = norm(fp.node)
    neg = [s for s in body_walk(fp.node) if isinstance(s, ast.If) and isinstance(s.test, ast.Compare) and isinstance(s.test.ops[0], ast.Gt)
           and norm(s.test.comparators[0]) == "0" and "foff" in norm(s.test.left)]
    key = "order:header"
    if reader_flips:
        ok = False
        why = "from_pfits takes fch1/foff straight from the file's frequency table"
        if len(neg) == 1:
            body = " ; ".join(norm(s) for s in neg[0].body)
            fname = norm(neg[0].test.left)
            ok_foff = f"{fname} = -{fname}" in body or f"{fname} *= -1" in body or f"{fname} = -1 * {fname}" in body
            env = PolyEnv()
            ok_fch1 = False
            for s in neg[0].body:
                if isinstance(s, ast.Assign) and "fch1" in norm(s.targets[0]):
                    p = env.poly(s.value)
                    w = env.poly(ast.parse(f"{norm(s.targets[0])} + (subint_hdr.nchans - 1) * {fname}", mode="eval").body)
                    ok_fch1 = p == w
                    # must be computed before foff is negated
                    idx_f = [i for i, t in enumerate(neg[0].body) if isinstance(t, (ast.Assign, ast.AugAssign)) and norm(t.targets[0] if isinstance(t, ast.Assign) else t.target) == fname]
                    idx_c = neg[0].body.index(s)
                    if idx_f and idx_f[0] < idx_c:
                        ok_fch1 = False
            used = d.get("foff") is not None and fname in norm(fl.expand(d["foff"], fl.cfg.node_for(upd[0]), stop={fname})) and \
                any(isinstance(t, ast.Assign) and "fch1" in norm(t.targets[0]) and norm(t.targets[0]) in norm(d.get("fch1", ast.Constant(None))) for t in neg[0].body)
            ok = ok_foff and ok_fch1 and used
            why = "the ascending-file branch does not set foff -> -foff and fch1 -> fch1 + (nchans-1)*foff (before negating) for the values stored"
        if ok:
            res.ok("R4", fp, neg[0], "for an ascending file the header is rewritten to the descending order that the reader delivers", key=key)
        else:
            res.bad("R4", fp, upd[0], f"read_subints delivers channels in descending order for ascending files (it flips when foff > 0), but {why}: "
                    f"the header then labels channel 0 with the LOWEST frequency and a positive foff while the data start at the highest", key=key)
    else:
        res.ok("R4", fp, upd[0], "no reordering in the reader: header taken as stored", key=key)

    # ---- R5 per-row processing (reference definitions) ----------------------------------------------------------
    from .. import kernelspec
    ru = prog.func(PFITS, "PFITSFile.read_subint")
    extra = [(prog.func(PFITS, f"PFITSFile.{n}"), n, w) for n, w in (
        ("read_weights", "row isub's DAT_WTS, first nchans entries"),
        ("read_scales", "row isub's DAT_SCL as (npol, nchans)"),
        ("read_offsets", "row isub's DAT_OFFS as (npol, nchans)"),
        ("read_subint_pol", "polarisation selection: Coherence (AA+BB)/sqrt2, Stokes I, Intensity"))]
    for fn, name, what in [(ru, "read_subint", "unpack -> TPF shape check -> zero offset -> this row's scales+offsets -> this row's weights"),
                           (rs, "read_subints", "rows startsub..startsub+nsubs-1 each read with the caller's (poln_select, scloffs, weights), "
                                                "concatenated along time, channel axis flipped iff foff > 0, nothing else applied")] + extra:
        verdict, why = kernelspec.compare(fn, name)
        if verdict == "incomparable":
            if any(not o.ok and fn.ident in (o.where or "") for o in res.obligations):
                # a rule already reported this function: the shape difference is part of that report
                verdict, why = "different", [f"not comparable with its reference definition ({why[0]})"]
            else:
                raise AnalysisError(f"{name} cannot be compared with its reference definition: {why[0]}")
        (res.ok if verdict == "same" else res.bad)("R5", fn, fn.node, (what + "; " if verdict == "same" else f"{name} differs from its definition: ") +
                                                   ("; ".join(why))[:500], construct=name, key=f"{name}:definition")
    # ---- R6 the PSRFITS keys behind the numbers ----------------------------------------------------------------
    from ..props import property_expr
    sh = prog.cls(PFITS, "SubintHdr")
    want = {
        "subint_samples": "self.header['NSBLK']", "nchans": "self.header['NCHAN']", "npol": "self.header['NPOL']", "nbits": "self.header['NBITS']",
        "tsamp": "self.header['TBIN']", "nsubint": "self.header['NAXIS2']",
        "nsamples": "self.header.get('NSTOT', self.subint_samples * self.nsubint)",
        "subint_shape": "(self.subint_samples, self.npol, self.nchans)",
        "freqs": "FrequencyChannels(self._sub_freqs[:self.nchans])",
    }
    for name, w in want.items():
        pe = property_expr(prog, sh, name)
        m = sh.methods.get(name)
        ok = pe is not None and norm(pe) == w
        (res.ok if ok else res.bad)("R6", m, m.node if m else sh.node, f"SubintHdr.{name} = {w}" if ok else
                                    f"SubintHdr.{name} is `{norm(pe) if pe is not None else '?'}`, expected `{w}`", construct=f"SubintHdr.{name}", key=f"key:{name}")
    fc = prog.cls("sigpyproc.utils", "FrequencyChannels")
    for name, w in (("fch1", "self.array[0]"), ("foff", "self.array[1] - self.array[0]"), ("nchans", "len(self.array)")):
        pe = property_expr(prog, fc, name)
        m = fc.methods.get(name)
        ok = pe is not None and norm(pe) == w
        (res.ok if ok else res.bad)("R6", m, m.node if m else fc.node, f"FrequencyChannels.{name} = {w}" if ok else
                                    f"FrequencyChannels.{name} is `{norm(pe) if pe is not None else '?'}`, expected `{w}`", construct=f"FrequencyChannels.{name}", key=f"freq:{name}")
    pd_ = sh.methods.get("_parse_data")
    from ..normalform import normal_form as _nf18
    ok = pd_ is not None and [e.text() for e in _nf18(pd_).sets("self._sub_freqs")] == [canon("sub_data.field('DAT_FREQ')")]
    (res.ok if ok else res.bad)("R6", pd_, pd_.node if pd_ else sh.node, "channel frequencies come from the DAT_FREQ column of the first row" if ok else
                                "SubintHdr no longer reads channel frequencies from DAT_FREQ", construct="_parse_data", key="key:DAT_FREQ")
    ph = prog.cls(PFITS, "PrimaryHdr")
    pe = property_expr(prog, ph, "tstart")
    import re as _re18
    ok = pe is not None and _re18.fullmatch(
        r"Time\(self\.header\['STT_IMJD'\], format='mjd'(, location=self\.location)?(, scale='utc')?\) \+ "
        r"TimeDelta\(float\(self\.header\['STT_SMJD'\]\), float\(self\.header\['STT_OFFS'\]\), format='sec'\)", canon(pe)) is not None
    (res.ok if ok else res.bad)("R6", ph.methods["tstart"], ph.methods["tstart"].node, "start epoch = STT_IMJD days + (STT_SMJD + STT_OFFS) seconds" if ok else
                                "PrimaryHdr.tstart is no longer STT_IMJD + STT_SMJD + STT_OFFS", construct="tstart", key="key:tstart")
    _sample_dtype(prog, res)
    res.floor("R6", 14)
    res.floor("R7", 2)
    res.floor("R1", 8)
    res.floor("R2", 6)
    res.floor("R3", 8)
    res.floor("R4", 2)
    res.floor("R5", 6)


R = "sigpyproc/readers.py"
H = "sigpyproc/header.py"
P = "sigpyproc/io/pfits.py"
MUTANTS = [
    {"id": "c18-revert-F36", "file": "sigpyproc/io/pfits.py", "expect": "C18.R",
     "old": "        while sdata.ndim > 3 and sdata.shape[0] == 1:\n            sdata = sdata[0]\n", "new": "        sdata = sdata.squeeze()\n"},
    {"id": "c18-intensity-squeezed", "file": "sigpyproc/io/pfits.py", "expect": "C18.R1",
     "old": "            data = sdata[:, 0, :]\n\n        return data", "new": "            data = sdata[:, 0, :].squeeze()\n\n        return data"},
    {"id": "c18-one-row-shortcut", "file": "sigpyproc/readers.py", "expect": "C18.R4",
     "old": "            data = self._fitsfile.read_subints(startsub, nsubs)\n            data = data[startsamp : startsamp + block]",
     "new": "            if startsamp == 0 and block == self.sub_hdr.subint_samples:\n                data = self._fitsfile.read_subint_pol(startsub)\n            else:\n                data = self._fitsfile.read_subints(startsub, nsubs)\n                data = data[startsamp : startsamp + block]"},
    {"id": "c18-revert-F28", "file": "sigpyproc/io/pfits.py", "expect": "C18.R",
     "old": "            scale = np.float32(1.0 / np.sqrt(2.0))", "new": "            scale = 1.0 / np.sqrt(2.0)"},
    {"id": "c18-revert-F22", "file": R, "expect": "C18.R1",
     "old": "            startsamp + nsamps + self.sub_hdr.subint_samples - 1\n", "new": "            nsamps + self.sub_hdr.subint_samples - 1\n"},
    {"id": "c18-revert-F23-rows", "file": R, "expect": "C18.R",
     "old": "                startsamp + block + self.sub_hdr.subint_samples - 1\n", "new": "                nsamps + self.sub_hdr.subint_samples - 1\n"},
    {"id": "c18-rows-floor", "file": R, "expect": "C18.R1",
     "old": "            startsamp + nsamps + self.sub_hdr.subint_samples - 1\n", "new": "            startsamp + nsamps\n"},
    {"id": "c18-slice-from-zero", "file": R, "expect": "C18.R1",
     "old": "        data = data[startsamp : startsamp + nsamps]\n        data = data.reshape(nsamps, self.header.nchans).transpose()", "new": "        data = data[:nsamps]\n        data = data.reshape(nsamps, self.header.nchans).transpose()"},
    {"id": "c18-revert-F24", "file": H, "expect": "C18.R3",
     "old": "        foff = float(subint_hdr.freqs.foff.value)\n        fch1 = float(subint_hdr.freqs.fch1.value)\n", "new": "        foff = subint_hdr.freqs.foff\n        fch1 = subint_hdr.freqs.fch1\n"},
    {"id": "c18-tstart-time-object", "file": H, "expect": "C18.R3",
     "old": "            \"tstart\": primary_hdr.tstart.mjd,", "new": "            \"tstart\": primary_hdr.tstart,"},
    {"id": "c18-revert-F25", "file": H, "expect": "C18.R4",
     "old": "        if foff > 0:\n", "new": "        if foff > 1e30:\n"},
    {"id": "c18-flip-always", "file": P, "expect": "C18.R4",
     "old": "        if self.sub_hdr.freqs.foff > 0:\n            data = np.fliplr(data)", "new": "        if self.sub_hdr.freqs.foff < 0:\n            data = np.fliplr(data)"},
    {"id": "c18-weights-before-scales", "file": P, "expect": "C18.R5",
     "old": "        if scloffs:\n            data -= self.sub_hdr.zero_off  # This will not work for 2-bit data.\n            data = data * self.read_scales(isub) + self.read_offsets(isub)\n        if weights:\n            data *= self.read_weights(isub)\n",
     "new": "        if weights:\n            data *= self.read_weights(isub)\n        if scloffs:\n            data -= self.sub_hdr.zero_off  # This will not work for 2-bit data.\n            data = data * self.read_scales(isub) + self.read_offsets(isub)\n"},
    {"id": "c18-plan-startsub-stale", "file": R, "expect": "C18.R",
     "old": "        for ii, block, skip in track(blocks, description=description, disable=quiet):\n            startsub, startsamp = divmod(start, self.sub_hdr.subint_samples)\n",
     "new": "        startsub, startsamp = divmod(start, self.sub_hdr.subint_samples)\n        for ii, block, skip in track(blocks, description=description, disable=quiet):\n"},
    {"id": "c18-fch1-after-negation", "file": H, "expect": "C18.R4",
     "old": "            fch1 = fch1 + (subint_hdr.nchans - 1) * foff\n            foff = -foff\n", "new": "            foff = -foff\n            fch1 = fch1 + (subint_hdr.nchans - 1) * foff\n"},
]
MUTANTS += [
    {"id": "c18-weights-once-per-block", "file": P, "expect": "C18.R5",
     "old": "                scloffs=scloffs,\n                weights=weights,\n            )\n            data_list.append(sdata)\n        data = np.concatenate(data_list)\n",
     "new": "                scloffs=scloffs,\n                weights=False,\n            )\n            data_list.append(sdata)\n        data = np.concatenate(data_list)\n        if weights:\n            data = (data * self.read_weights(startsub)).astype(np.float32, copy=False)\n"},
    {"id": "c18-nsamples-one-row-short", "file": P, "expect": "C18.R6",
     "old": "        return self.header.get(\"NSTOT\", self.subint_samples * self.nsubint)", "new": "        return self.header.get(\"NSTOT\", self.subint_samples * (self.nsubint - 1))"},
    {"id": "c18-shape-pf-swapped", "file": P, "expect": "C18.R6",
     "old": "        return (self.subint_samples, self.npol, self.nchans)", "new": "        return (self.subint_samples, self.nchans, self.npol)"},
    {"id": "c18-foff-sign", "file": "sigpyproc/utils.py", "expect": "C18.R6",
     "old": "        return self.array[1] - self.array[0]", "new": "        return self.array[0] - self.array[1]"},
    {"id": "c18-weights-of-row-zero", "file": P, "expect": "C18.R5",
     "old": "        weights = self._fits[\"SUBINT\"].data[isub][\"DAT_WTS\"]", "new": "        weights = self._fits[\"SUBINT\"].data[0][\"DAT_WTS\"]"},
    {"id": "c18-offsets-from-scales", "file": P, "expect": "C18.R5",
     "old": "        offsets = self._fits[\"SUBINT\"].data[isub][\"DAT_OFFS\"]", "new": "        offsets = self._fits[\"SUBINT\"].data[isub][\"DAT_SCL\"]"},
    {"id": "c18-coherence-no-sqrt2", "file": P, "expect": "C18.R5",
     "old": "            scale = np.float32(1.0 / np.sqrt(2.0))", "new": "            scale = np.float32(1.0 / 2.0)"},
    {"id": "c18-scales-of-row-zero", "file": P, "expect": "C18.R5",
     "old": "            data = data * self.read_scales(isub) + self.read_offsets(isub)", "new": "            data = data * self.read_scales(0) + self.read_offsets(isub)"},
]
MUTANTS += [
    {"id": "c18-plan-reuses-rows", "file": "sigpyproc/readers.py", "expect": "C18.R1",
     "old": "            data = self._fitsfile.read_subints(startsub, nsubs)\n            data = data[startsamp : startsamp + block]", "new": "            if startsub != getattr(self, \"_rows_start\", -1):\n                self._rows = self._fitsfile.read_subints(startsub, nsubs)\n                self._rows_start = startsub\n            data = self._rows\n            data = data[startsamp : startsamp + block]"},
]
TWINS = [
    {"id": "c18-twin-rows-commuted", "file": R,
     "old": "            startsamp + nsamps + self.sub_hdr.subint_samples - 1\n", "new": "            nsamps + startsamp - 1 + self.sub_hdr.subint_samples\n"},
]
