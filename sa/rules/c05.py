"""C05 - SIGPROC headers survive encode/parse; in-place edits touch only their key (structural clauses)."""
from __future__ import annotations

import ast

from ..cfg import always_raises
from ..dataflow import flow_of
from ..model import AnalysisError, FuncInfo, Program, body_walk, calls_in_body, dotted, norm, parent
from ..report import Result
from ..stream import dict_literal_keys

TITLE = "SIGPROC headers survive encode/parse; in-place edits touch only their key"
LEVEL = "other"
TECHNIQUE = "static analysis: codec table agreement, key-coverage set comparison, dead-store (liveness) analysis, sign flow, guard dominance"
EXPLANATION = (
    "Decides: (R1) the parser and the encoder are driven by the same header_keys type table, use the same 'I' length "
    "prefix, frame the header with HEADER_START/HEADER_END and route exactly the 'str' keys through the string codec; "
    "(R2) every one of the header_keys is produced by Header.to_sigproc and consumed by Header.from_sigproc, with the "
    "telescope/machine/data-type id tables used forward one way and inverted the other; (R3) in from_sigproc/from_fbh5 "
    "no value computed for a header field is overwritten before it is used (dead store); (R4) the sign of the "
    "declination reaches the coordinate string other than as a factor of the truncated integer degrees (which "
    "annihilates it for -1 < dec < 0); (R5) edit_header validates the key, encodes before opening, writes only under the "
    "equal-length guard into a non-truncating handle positioned at byte 0, and raises otherwise. Not decided: numeric "
    "precision of the sexagesimal packing and byte-exact re-encoding of arbitrary values. "
    "Since F37/F48: every length prefix of encode_key counts the bytes that follow it (R1), and the seconds fields of parse_radec are written in fixed notation (R4)."
)
SIG = "sigpyproc.io.sigproc"
HEADER = "sigpyproc.header"


def run(prog: Program, res: Result, tier: str) -> None:
    prog.consulted.update({SIG, HEADER, "sigpyproc.params", "sigpyproc.io.fbh5"})
    keys = prog.literal(SIG, "header_keys")
    if len(keys) < 20:
        raise AnalysisError("header_keys table not recognised")
    tnode = prog.const(SIG, "header_keys")

    # ---- R1 codec table --------------------------------------------------------------------
    fmts = set(keys.values())
    key = "table-formats"
    if fmts <= {"b", "I", "d", "str"}:
        res.ok("R1", None, tnode, f"header_keys: {len(keys)} keys with formats {sorted(fmts)}", key=key, where=f"{SIG}::header_keys")
    else:
        res.bad("R1", None, tnode, f"header_keys contains formats {sorted(fmts - {'b', 'I', 'd', 'str'})} the codec does not handle",
                key=key, where=f"{SIG}::header_keys")
    from .. import kernelspec
    for name, what in (
            ("parse_header", "parser: HEADER_START required, keys read until HEADER_END, format from header_keys[key], 'str' keys via _read_string, numbers "
             "via struct.unpack(fmt, read(calcsize(fmt)))[0]; hdrlen = position after HEADER_END; datalen = filelen - hdrlen"),
            ("_read_string", "strings are <uint32 length><bytes>"),
            ("encode_key", "encoder: <uint32 number of BYTES><key bytes>[<uint32 number of BYTES><str bytes> | pack(table format, value)]"),
            ("encode_header", "HEADER_START, every recognised key encoded with header_keys[key] in dict order, HEADER_END")):
        fn = prog.func(SIG, name)
        verdict, why = kernelspec.compare(fn, name)
        if verdict == "incomparable":
            raise AnalysisError(f"{name} cannot be compared with its reference definition: {why[0]}")
        (res.ok if verdict == "same" else res.bad)("R1", fn, fn.node, (what if verdict == "same" else f"{name} differs from its definition: " + ("; ".join(why))[:500]),
                                                   construct=name, key=f"{name}:definition")
    # ---- R2 key coverage -------------------------------------------------------------------------
    hdr = prog.cls(HEADER, "Header")
    fields = set(hdr.attrs_fields)
    props = {n for n, m in hdr.methods.items() if m.is_property}
    ts = prog.func(HEADER, "Header.to_sigproc")
    src = norm(ts.node)
    upd = [s for s in body_walk(ts.node) if isinstance(s, ast.Assign) and norm(s.targets[0]) == "hdr_update"]
    ud = dict_literal_keys(upd[0].value) if upd else None
    from ..normalform import canon, normal_form, returned
    nft = normal_form(ts)
    base_ = [e for e in nft.effects if e.kind == "set" and e.target.startswith("$") and
             e.text() == canon("{key: value for key, value in self.to_dict().items() if key in sigproc.header_keys}")]
    filt_ok = len(base_) == 1
    if filt_ok:
        d_ = base_[0].target
        others_ = [e for e in nft.effects if e is not base_[0] and e.kind in ("set", "expr") and (d_ in (e.target or "") or e.text().startswith(d_ + "."))]
        filt_ok = len(others_) == 1 and others_[0].kind == "expr" and others_[0].text().startswith(d_ + ".update({") and \
            [e.text() for e in nft.returns()] == [d_]
    td = prog.func(HEADER, "Header.to_dict")
    nfd = normal_form(td)
    based = [e for e in nfd.effects if e.kind == "set" and e.target.startswith("$") and e.text() == canon("attrs.asdict(self)")]
    td_ok = len(based) == 1 and [e.text() for e in nfd.returns()] == [based[0].target] and any(
        e.text() == based[0].target + ".update(" + canon("{key: getattr(self, key) for key, value in vars(type(self)).items() if isinstance(value, property)}") + ")"
        for e in nfd.exprs())
    if ud is None or not filt_ok or not td_ok:
        res.bad("R2", ts, ts.node, "to_sigproc no longer builds (fields + properties) filtered by header_keys, updated by a literal dict",
                construct="to_sigproc", key="to_sigproc:shape")
        produced = set()
    else:
        produced = ((fields | props) & set(keys)) | (set(ud) & set(keys))
        res.ok("R2", ts, ts.node, "to_sigproc = {fields, properties} ∩ header_keys, then explicit updates", construct="to_sigproc", key="to_sigproc:shape")
    missing = sorted(set(keys) - produced)
    key = "produced"
    if produced and not missing:
        res.ok("R2", ts, upd[0], f"all {len(keys)} header_keys are produced ({len((fields | props) & set(keys))} by name, {len(set(ud) & set(keys))} explicit)", key=key)
    else:
        res.bad("R2", ts, upd[0] if upd else ts.node, f"SIGPROC keys never written by to_sigproc: {missing}", key=key, construct="produced keys")
    # explicit conversions
    if ud:
        want = {
            "data_type": "params.data_types.inverse[sig_header['data_type']]",
            "pulsarcentric": "1 if self.frame == 'pulsarcentric' else 0",
            "barycentric": "1 if self.frame == 'barycentric' else 0",
            "source_name": "self.source",
            "refdm": "self.dm",
            "src_dej": "float(self.dec.replace(':', ''))",
            "src_raj": "float(self.ra.replace(':', ''))",
            "za_start": "self.zenith.deg",
            "az_start": "self.azimuth.deg",
        }
        for k, w in want.items():
            got = norm(ud[k]) if k in ud else None
            (res.ok if got == w else res.bad)("R2", ts, ud.get(k, upd[0]), f"{k} = {w}" if got == w else
                                              f"SIGPROC key {k} is written as `{got}`, expected `{w}`", key=f"to_sigproc:{k}")
    for pn, table in (("telescope_id", "telescope_ids"), ("machine_id", "machine_ids")):
        m = hdr.methods.get(pn)
        srcm = norm(m.node) if m else ""
        attr = "telescope" if pn == "telescope_id" else "backend"
        ok = m is not None and returned(m) == [canon(f"sigproc.{table}.get(self.{attr}, 0)")]
        (res.ok if ok else res.bad)("R2", m, m.node if m else hdr.node, f"{pn} = {table}[{attr}] (forward lookup)" if ok else
                                    f"{pn} no longer looks {attr} up in {table}", construct=pn, key=f"id:{pn}")
    for rname in ("Header.from_sigproc", "Header.from_fbh5"):
        fs = prog.func(HEADER, rname)
        gets = set()
        for c in calls_in_body(fs.node):
            if dotted(c.func) == "header.get" and c.args and isinstance(c.args[0], ast.Constant):
                gets.add(c.args[0].value)
        consumed = (set(keys) & fields) | (gets & set(keys))
        missing = sorted(set(keys) - consumed)
        key = f"{rname}:consumed"
        if not missing:
            res.ok("R2", fs, fs.node, f"all {len(keys)} header_keys are consumed ({len(set(keys) & fields)} same-named fields, {len(gets & set(keys))} explicit)",
                   construct=rname, key=key)
        else:
            res.bad("R2", fs, fs.node, f"SIGPROC keys parsed but never mapped to a Header field: {missing}", construct=rname, key=key)
        u2 = [s for s in body_walk(fs.node) if isinstance(s, ast.Assign) and norm(s.targets[0]) == "hdr_update"]
        d2 = dict_literal_keys(u2[0].value) if u2 else None
        if d2 is None:
            res.bad("R2", fs, fs.node, "reader field mapping is not a literal dict", construct=rname, key=f"{rname}:map")
            continue
        want = {
            "data_type": "params.data_types[header.get('data_type', 1)]",
            "telescope": "sigproc.telescope_ids.inv.get(header.get('telescope_id', 0), 'Fake')",
            "backend": "sigproc.machine_ids.inv.get(header.get('machine_id', 0), 'FAKE')",
            "source": "header.get('source_name', 'Fake')",
            "dm": "header.get('refdm', 0)",
            "coord": "sigproc.parse_radec(header.get('src_raj', 0), header.get('src_dej', 0))",
            "azimuth": "Angle(header.get('az_start', 0) * units.deg)",
            "zenith": "Angle(header.get('za_start', 0) * units.deg)",
        }
        for k, w in want.items():
            got = norm(d2[k]) if k in d2 else None
            (res.ok if got == w else res.bad)("R2", fs, d2.get(k, u2[0]), f"{k} <- {w}" if got == w else
                                              f"Header field {k} is read as `{got}`, expected `{w}`", key=f"{rname}:{k}")
        # frame: barycentric / pulsarcentric flags -> frame, default topocentric
        flow = flow_of(fs)
        fr = d2.get("frame")
        key = f"{rname}:frame"
        if fr is None:
            res.bad("R2", fs, u2[0], "frame is not set from the barycentric/pulsarcentric flags", key=key)
        else:
            deps = flow.deps(fr, flow.cfg.node_for(u2[0]))
            texts = set()
            for d in flow.defs:
                if d.var == norm(fr) and d.value is not None:
                    texts.add(norm(d.value))
                    for cnd in flow.control_conditions(d.node):
                        texts.add(norm(cnd))
            alltxt = " ".join(sorted(texts))
            live_keys = set()
            for dd in flow.reaching(norm(fr), flow.cfg.node_for(u2[0])) if isinstance(fr, ast.Name) else []:
                if dd.value is not None:
                    live_keys |= {c.args[0].value for c in ast.walk(dd.value) if isinstance(c, ast.Call) and dotted(c.func) == "header.get"
                                  and c.args and isinstance(c.args[0], ast.Constant)}
                for cnd in flow.control_conditions(dd.node):
                    live_keys |= {c.args[0].value for c in ast.walk(cnd) if isinstance(c, ast.Call) and dotted(c.func) == "header.get"
                                  and c.args and isinstance(c.args[0], ast.Constant)}
            need = {"pulsarcentric", "barycentric"}
            if need <= live_keys and "'topocentric'" in alltxt:
                res.ok("R2", fs, fr, "frame depends on both the pulsarcentric and the barycentric flag (default topocentric)", key=key)
            else:
                res.bad("R2", fs, fr, f"the frame that reaches the header depends only on flags {sorted(live_keys)}: "
                        f"{sorted(need - live_keys)} is read but does not influence the result", key=key)

        # ---- R3 dead stores -------------------------------------------------------------------
        for d in flow.defs:
            if d.kind != "assign" or d.stmt is None:
                continue
            used = False
            for sub in body_walk(fs.node):
                if isinstance(sub, ast.Name) and sub.id == d.var and isinstance(sub.ctx, ast.Load):
                    try:
                        n = flow.cfg.node_for(sub)
                    except AnalysisError:
                        continue
                    if d in flow.reaching(d.var, n):
                        used = True
                        break
            key = f"{rname}:dead:{d.var}:{norm(d.stmt)[:50]}"
            if used:
                res.ok("R3", fs, d.stmt, f"value assigned to '{d.var}' is used", key=key)
            else:
                res.bad("R3", fs, d.stmt, f"the value computed for '{d.var}' is overwritten before any use (dead store): the header field "
                        f"it was meant for never sees it", key=key)

    # ---- R4 sign reaches output --------------------------------------------------------------------
    pr = prog.func(SIG, "parse_radec")
    flow = flow_of(pr)
    signs = [d for d in flow.defs if d.kind == "assign" and isinstance(d.value, ast.IfExp) and isinstance(d.value.test, ast.Compare)
             and isinstance(d.value.test.ops[0], ast.Lt) and norm(d.value.test.comparators[0]) == "0"]
    key = "parse_radec:sign"
    # the usual form: a '-'/'+' string chosen by the sign of the packed declination, written immediately before the degrees
    from ..pathcond import normal_compare as _ncmp
    from ..poly import Poly as _Poly, PolyEnv as _PEnv
    str_sign_ok = False
    for r_ in [s_ for s_ in body_walk(pr.node) if isinstance(s_, ast.Return) and s_.value is not None]:
        ex_ = flow.expand(r_.value, flow.cfg.node_for(r_))
        for js in [n for n in ast.walk(ex_) if isinstance(n, ast.JoinedStr)]:
            vals = js.values
            for i_, fv in enumerate(vals[:-1]):
                if not (isinstance(fv, ast.FormattedValue) and isinstance(fv.value, ast.IfExp)):
                    continue
                ie = fv.value
                if not (isinstance(ie.test, ast.Compare) and len(ie.test.ops) == 1 and isinstance(ie.body, ast.Constant) and isinstance(ie.orelse, ast.Constant)):
                    continue
                nc = _ncmp(_PEnv().poly(ie.test.left), type(ie.test.ops[0]), _PEnv().poly(ie.test.comparators[0]))
                neg_first = nc == ("<0", _Poly.sym("src_dej"))
                pos_first = nc == ("<=0", -_Poly.sym("src_dej"))
                minus, other = (ie.body.value, ie.orelse.value) if neg_first else (ie.orelse.value, ie.body.value) if pos_first else (None, None)
                nxt = vals[i_ + 1]
                if minus == "-" and other in ("+", "") and isinstance(nxt, ast.FormattedValue) and \
                        canon(nxt.value) == canon("int(abs(src_dej) // 10000)"):
                    str_sign_ok = True
    if str_sign_ok:
        res.ok("R4", pr, pr.node, "the sign is written as a '-'/'+' prefix of the degrees field, independent of their value", key=key, construct="sign")
    elif len(signs) != 1:
        # alternative: np.sign / copysign / formatting the float with sign
        res.bad("R4", pr, pr.node, "cannot find how the sign of the declination is carried", construct="parse_radec", key=key)
    else:
        sd = signs[0]
        v = sd.value
        uses = [n for n in body_walk(pr.node) if isinstance(n, ast.Name) and n.id == sd.var and isinstance(n.ctx, ast.Load)]
        if norm(v.test.left) != "src_dej":
            res.bad("R4", pr, sd.stmt, "the sign is not taken from src_dej", key=key)
        elif isinstance(v.body, ast.Constant) and isinstance(v.body.value, str):
            okstr = v.body.value == "-" and isinstance(v.orelse, ast.Constant) and v.orelse.value in ("+", "")
            # used immediately before the degrees in the coordinate string
            infmt = [u for u in uses if isinstance(parent(u), ast.FormattedValue)]
            if okstr and infmt:
                res.ok("R4", pr, sd.stmt, "the sign is written as a '-'/'+' prefix of the degrees field, independent of their value", key=key)
            else:
                res.bad("R4", pr, sd.stmt, "sign prefix is not '-' for negative declinations or is not placed in the coordinate string", key=key)
        else:
            bad = []
            for u in uses:
                p = parent(u)
                if isinstance(p, ast.BinOp) and isinstance(p.op, ast.Mult):
                    other = p.right if p.left is u else p.left
                    names = {n.id for n in ast.walk(other) if isinstance(n, ast.Name)}
                    truncated = isinstance(other, ast.Call) and dotted(other.func) == "int"
                    if truncated or not {"ami", "ase"} <= names:
                        bad.append(p)
            if bad or not uses:
                res.bad("R4", pr, bad[0] if bad else sd.stmt, f"the sign is applied only as `{norm(bad[0]) if bad else '?'}`: for -1 < dec < 0 the "
                        f"integer degrees are 0 and the sign is lost (-00:30:15.5 parses as +00:30:15.5)", key=key)
            else:
                res.ok("R4", pr, sd.stmt, "the numeric sign multiplies the full angle (degrees, minutes and seconds)", key=key)
    rets_pr = returned(pr)
    okd = len(rets_pr) == 1 and rets_pr[0].startswith("SkyCoord(f") and rets_pr[0].endswith(", unit=(units.hourangle, units.deg))")
    if okd:
        pos_ = -1
        import re as _re4
        fixed_secs = True
        for piece, is_sec in (("{int(FloorDiv(src_raj, 10000))}", False), ("{int(FloorDiv(Mod(src_raj, 10000), 100))}", False),
                              ("{Mod(Mod(src_raj, 10000), 100)", True),
                              ("{int(FloorDiv(abs(src_dej), 10000))}", False), ("{int(FloorDiv(Mod(abs(src_dej), 10000), 100))}", False),
                              ("{Mod(Mod(abs(src_dej), 10000), 100)", True)):
            nxt = rets_pr[0].find(piece, pos_ + 1)
            if nxt < 0:
                okd = False
                break
            pos_ = nxt
            if is_sec:
                # the seconds are a float: without a fixed-point format spec, values below 1e-4 print as "2e-05", which the
                # coordinate parser rejects (F48)
                tail = rets_pr[0][nxt + len(piece):]
                m_ = _re4.match(r"(:[^{}]*)?\}", tail)
                if m_ is None:
                    okd = False
                    break
                fixed_secs = fixed_secs and bool(m_.group(1)) and bool(_re4.fullmatch(r":\.?\d*\.\d+f", m_.group(1)))
        # six numeric fields and the sign field, nothing else
        okd = okd and rets_pr[0].count("{") == 7
        key_s = "parse_radec:seconds-format"
        if okd:
            (res.ok if fixed_secs else res.bad)("R4", pr, pr.node, "the seconds fields are written in fixed-point notation" if fixed_secs else
                                                "the seconds of RA/Dec are interpolated with str(): below 1e-4 s they print in exponent notation "
                                                "(\"2e-05\"), which SkyCoord rejects - a header with |dec| seconds of 0.00002 cannot be read back",
                                                construct="seconds format", key=key_s)
    (res.ok if okd else res.bad)("R4", pr, pr.node, "DDMMSS.S / HHMMSS.S are split with divmod by 10000 and 100 on the magnitude" if okd else
                                 "parse_radec no longer splits the packed sexagesimal floats by 10000 / 100", construct="parse_radec", key="parse_radec:split")

    # ---- R5 edit discipline ----------------------------------------------------------------------------
    ed = prog.func(SIG, "edit_header")
    flow = flow_of(ed)
    cfg = flow.cfg
    writes = [c for c in calls_in_body(ed.node) if isinstance(c.func, ast.Attribute) and c.func.attr in ("write", "writelines", "truncate", "tofile")]
    opens = [c for c in calls_in_body(ed.node) if isinstance(c.func, ast.Attribute) and c.func.attr == "open" or dotted(c.func) == "open"]
    encs = [c for c in calls_in_body(ed.node) if dotted(c.func) == "encode_header"]
    from ..normalform import canon, normal_form
    from ..pathcond import guarded, path_conditions
    from ..poly import PolyEnv
    key = "edit:guard"
    if len(writes) == 1 and len(opens) == 1 and len(encs) == 1:
        wn = cfg.node_for(writes[0])
        on = cfg.node_for(opens[0])
        written = flow.expand(writes[0].args[0], wn) if writes[0].args else None
        # the guard compares the parsed header's length with the length of exactly what is written
        hdrs = [d for d in flow.defs if d.kind == "assign" and isinstance(d.value, ast.Call) and dotted(d.value.func) == "parse_header"]
        okg, why = False, ["the parsed header is not a single local"]
        if written is not None and len(hdrs) == 1:
            penv = PolyEnv()
            old_len = penv.poly(ast.parse(f"parse_header({norm(hdrs[0].value.args[0])})['hdrlen']", mode="eval").body)
            new_len = penv.poly(ast.Call(func=ast.Name(id="len", ctx=ast.Load()), args=[written], keywords=[]))
            okg, why = guarded(flow, [opens[0], writes[0]], [("==0", old_len - new_len)], exc=None)
        if okg:
            res.ok("R5", ed, writes[0], "the file is opened and written only when the new header is exactly as long as the old one", key=key)
        else:
            res.bad("R5", ed, writes[0], "the in-place write (or the open) is not confined to the equal-length case: " + "; ".join(why), key=key)
        key = "edit:else-raises"
        okr, why = guarded(flow, [writes[0]], [("==0", old_len - new_len)], exc="ValueError") if okg else (False, why)
        if okr:
            res.ok("R5", ed, writes[0], "a header of different length raises ValueError and nothing is opened", key=key)
        else:
            res.bad("R5", ed, writes[0], "a header of different length does not raise ValueError", key=key)
        key = "edit:mode"
        mode = opens[0].args[0] if opens[0].args and dotted(opens[0].func) != "open" else (opens[0].args[1] if len(opens[0].args) > 1 else None)
        if mode is None:
            mode = next((k.value for k in opens[0].keywords if k.arg == "mode"), None)
        mlit = mode.value if isinstance(mode, ast.Constant) else None
        if isinstance(mlit, str) and "+" in mlit and "r" in mlit and "w" not in mlit and "a" not in mlit:
            res.ok("R5", ed, opens[0], f"file opened with mode {mlit!r}: read/write without truncation", key=key)
        else:
            res.bad("R5", ed, opens[0], f"edit_header opens the file with mode {mlit!r}: truncating or appending instead of in-place update", key=key)
        key = "edit:encode-first"
        if cfg.dominates(cfg.node_for(encs[0]), on):
            res.ok("R5", ed, encs[0], "the new header is encoded (and may raise) before the file is opened for writing", key=key)
        else:
            res.bad("R5", ed, encs[0], "the file is opened for writing before encode_header has succeeded", key=key)
        key = "edit:position"
        seeks = [c for c in calls_in_body(ed.node) if isinstance(c.func, ast.Attribute) and c.func.attr == "seek"]
        okpos = len(seeks) == 1 and norm(seeks[0].args[0]) == "0" and (len(seeks[0].args) == 1 or norm(seeks[0].args[1]) in ("0", "os.SEEK_SET")) and \
            cfg.dominates(cfg.node_for(seeks[0]), wn) and written is not None and isinstance(written, ast.Call) and dotted(written.func) == "encode_header"
        (res.ok if okpos else res.bad)("R5", ed, writes[0], "exactly the new header bytes are written at offset 0" if okpos else
                                       "the write is not the re-encoded header at byte 0", key=key)
        key = "edit:new-hdr"
        nfe = normal_form(ed)
        copies = [e for e in nfe.effects if e.kind == "set" and e.target.startswith("$v") and e.text() == canon("parse_header(filename).copy()")]
        oknew = bool(copies)
        for cp in copies:
            ups = [e for e in nfe.effects if e.kind == "expr" and e.text().startswith(cp.target + ".update({key: ") and set(cp.ctx) <= set(e.ctx)]
            others = [e for e in nfe.effects if e.kind in ("expr", "set") and e is not cp and e not in ups and
                      (e.text().startswith(cp.target + ".") or (e.kind == "set" and e.target.startswith(cp.target))) and set(cp.ctx) <= set(e.ctx)]
            wr = [e for e in nfe.effects if e.kind == "expr" and ".write(" in e.text() and set(cp.ctx) <= set(e.ctx)]
            oknew = oknew and len(ups) == 1 and not others and all(e.text().endswith(f".write(encode_header({cp.target}))") for e in wr) and bool(wr)
        (res.ok if oknew else res.bad)("R5", ed, encs[0], "new header = parsed header with exactly {key: value} replaced" if oknew else
                                       "the re-encoded header is not the parsed header with only the edited key replaced", key=key)
    else:
        res.bad("R5", ed, ed.node, f"edit_header shape changed: {len(writes)} write(s), {len(opens)} open(s), {len(encs)} encode(s)",
                construct="edit_header", key=key)
    fl_ed = flow
    first_io = [c for c in calls_in_body(ed.node) if dotted(c.func) in ("parse_header", "validate_path", "encode_header")]
    pc = path_conditions(fl_ed)
    key = "edit:key-guard"

    def _key_known(e, pol):
        return isinstance(e, ast.Compare) and len(e.ops) == 1 and norm(e.left) == "key" and norm(e.comparators[0]) == "header_keys" and \
            ((isinstance(e.ops[0], ast.In) and pol) or (isinstance(e.ops[0], ast.NotIn) and not pol))

    from ..pathcond import rejection
    facts = [pc.truth(c, _key_known) for c in first_io]
    if first_io and all(f is not None and "ValueError" in (rejection(pc, f) or ()) for f in facts):
        res.ok("R5", ed, ed.node, "an unknown key raises ValueError before the file is touched", key=key, construct="key guard")
    else:
        res.bad("R5", ed, ed.node, "an unknown key is not rejected before the file is read/opened", construct="edit_header", key=key)

    res.floor("R1", 5)
    res.floor("R2", 30)
    res.floor("R3", 6)
    res.floor("R4", 2)
    res.floor("R5", 7)


S = "sigpyproc/io/sigproc.py"
H = "sigpyproc/header.py"
MUTANTS = [
    {"id": "c05-revert-F48", "file": "sigpyproc/io/sigproc.py", "expect": "C05.R4",
     "old": "{se:.10f} {sign}{int(de)} {int(ami)} {ase:.10f}", "new": "{se} {sign}{int(de)} {int(ami)} {ase}"},
    {"id": "c05-revert-F37", "file": "sigpyproc/io/sigproc.py", "expect": "C05.R1",
     "old": "            + struct.pack(\"I\", len(value_bytes))\n", "new": "            + struct.pack(\"I\", len(value))\n"},
    {"id": "c05-key-prefix-in-chars", "file": "sigpyproc/io/sigproc.py", "expect": "C05.R1",
     "old": "    return struct.pack(\"I\", len(key_bytes)) + key_bytes + struct.pack(value_type, value)\n",
     "new": "    return struct.pack(\"I\", len(key) + 1) + key_bytes + struct.pack(value_type, value)\n"},
    {"id": "c05-parse-prefix-i", "file": S, "expect": "C05.R1",
     "old": "    strlen = struct.unpack(\"I\", fp.read(struct.calcsize(\"I\")))[0]", "new": "    strlen = struct.unpack(\"i\", fp.read(struct.calcsize(\"i\")))[0]"},
    {"id": "c05-encode-fixed-d", "file": S, "expect": "C05.R1",
     "old": "    return struct.pack(\"I\", len(key_bytes)) + key_bytes + struct.pack(value_type, value)", "new": "    return struct.pack(\"I\", len(key_bytes)) + key_bytes + struct.pack(\"d\", value)"},
    {"id": "c05-drop-za-start", "file": H, "expect": "C05.R2",
     "old": "            \"za_start\": self.zenith.deg,\n", "new": ""},
    {"id": "c05-swap-az-za", "file": H, "expect": "C05.R2",
     "old": "            \"za_start\": self.zenith.deg,\n            \"az_start\": self.azimuth.deg,", "new": "            \"za_start\": self.azimuth.deg,\n            \"az_start\": self.zenith.deg,"},
    {"id": "c05-reader-ignores-refdm", "file": H, "expect": "C05.R2",
     "old": "            \"dm\": header.get(\"refdm\", 0),\n            \"foff\": header.get(\"foff\", 0),\n            \"coord\": sigproc.parse_radec(\n                header.get(\"src_raj\", 0),\n                header.get(\"src_dej\", 0),\n            ),\n            \"azimuth\": Angle(header.get(\"az_start\", 0) * units.deg),\n            \"zenith\": Angle(header.get(\"za_start\", 0) * units.deg),\n            \"frame\": frame,\n        }\n        header.update(hdr_update)\n        header_check = {\n            key: value for key, value in header.items() if key in attrs.fields_dict(cls)\n        }\n        return cls(**header_check)\n\n    @classmethod\n    def from_pfits",
     "new": "            \"foff\": header.get(\"foff\", 0),\n            \"coord\": sigproc.parse_radec(\n                header.get(\"src_raj\", 0),\n                header.get(\"src_dej\", 0),\n            ),\n            \"azimuth\": Angle(header.get(\"az_start\", 0) * units.deg),\n            \"zenith\": Angle(header.get(\"za_start\", 0) * units.deg),\n            \"frame\": frame,\n        }\n        header.update(hdr_update)\n        header_check = {\n            key: value for key, value in header.items() if key in attrs.fields_dict(cls)\n        }\n        return cls(**header_check)\n\n    @classmethod\n    def from_pfits"},
    {"id": "c05-telescope-forward-table", "file": H, "expect": "C05.R2",
     "old": "            \"telescope\": sigproc.telescope_ids.inv.get(\n                header.get(\"telescope_id\", 0),\n                \"Fake\",\n            ),\n            \"backend\": sigproc.machine_ids.inv.get(header.get(\"machine_id\", 0), \"FAKE\"),\n            \"source\": header.get(\"source_name\", \"Fake\"),\n            \"dm\": header.get(\"refdm\", 0),\n            \"foff\": header.get(\"foff\", 0),\n            \"coord\": sigproc.parse_radec(\n                header.get(\"src_raj\", 0),\n                header.get(\"src_dej\", 0),\n            ),\n            \"azimuth\": Angle(header.get(\"az_start\", 0) * units.deg),\n            \"zenith\": Angle(header.get(\"za_start\", 0) * units.deg),\n            \"frame\": frame,\n        }\n        header.update(hdr_update)\n        header_check = {\n            key: value for key, value in header.items() if key in attrs.fields_dict(cls)\n        }\n        return cls(**header_check)\n\n    @classmethod\n    def from_pfits",
     "new": "            \"telescope\": sigproc.telescope_ids.inv.get(\n                header.get(\"machine_id\", 0),\n                \"Fake\",\n            ),\n            \"backend\": sigproc.machine_ids.inv.get(header.get(\"machine_id\", 0), \"FAKE\"),\n            \"source\": header.get(\"source_name\", \"Fake\"),\n            \"dm\": header.get(\"refdm\", 0),\n            \"foff\": header.get(\"foff\", 0),\n            \"coord\": sigproc.parse_radec(\n                header.get(\"src_raj\", 0),\n                header.get(\"src_dej\", 0),\n            ),\n            \"azimuth\": Angle(header.get(\"az_start\", 0) * units.deg),\n            \"zenith\": Angle(header.get(\"za_start\", 0) * units.deg),\n            \"frame\": frame,\n        }\n        header.update(hdr_update)\n        header_check = {\n            key: value for key, value in header.items() if key in attrs.fields_dict(cls)\n        }\n        return cls(**header_check)\n\n    @classmethod\n    def from_pfits"},
    {"id": "c05-edit-mode-wb", "file": S, "expect": "C05.R5",
     "old": "        with filepath.open(\"rb+\") as fp:", "new": "        with filepath.open(\"wb\") as fp:"},
    {"id": "c05-edit-no-guard", "file": S, "expect": "C05.R5",
     "old": "    if header[\"hdrlen\"] == len(new_hdr):\n        with filepath.open(\"rb+\") as fp:\n            fp.seek(0)\n            fp.write(new_hdr)\n    else:\n        msg = f\"New header is too long/short for file {filename}\"\n        raise ValueError(msg)",
     "new": "    with filepath.open(\"rb+\") as fp:\n        fp.seek(0)\n        fp.write(new_hdr)"},
    {"id": "c05-edit-guard-le", "file": S, "expect": "C05.R5",
     "old": "    if header[\"hdrlen\"] == len(new_hdr):", "new": "    if header[\"hdrlen\"] >= len(new_hdr):"},
    {"id": "c05-edit-key-guard-dropped", "file": S, "expect": "C05.R5",
     "old": "    if key not in header_keys:\n        msg = f\"Key '{key}' is not a valid sigproc key.\"\n        raise ValueError(msg)\n", "new": ""},
    {"id": "c05-edit-no-seek", "file": S, "expect": "C05.R5",
     "old": "            fp.seek(0)\n            fp.write(new_hdr)", "new": "            fp.write(new_hdr)"},
    {"id": "c05-radec-split-1000", "file": S, "expect": "C05.R4",
     "old": "    ami, ase = divmod(ami, 100)", "new": "    ami, ase = divmod(ami, 1000)"},
    {"id": "c05-hdrlen-before-end", "file": S, "expect": "C05.R1",
     "old": "            if key == \"HEADER_END\":\n                break\n", "new": "            if key == \"HEADER_END\" or key == \"\":\n                break\n"},
]
MUTANTS += [
    {"id": "c05-revert-F14", "file": H, "expect": "C05.R",
     "old": "        header = sigproc.parse_header_multi(\n            filenames,\n            check_contiguity=check_contiguity,\n        )\n        frame = \"topocentric\"\n        if header.get(\"pulsarcentric\"):\n            frame = \"pulsarcentric\"\n        if header.get(\"barycentric\"):\n            frame = \"barycentric\"\n",
     "new": "        header = sigproc.parse_header_multi(\n            filenames,\n            check_contiguity=check_contiguity,\n        )\n        frame = \"pulsarcentric\" if header.get(\"pulsarcentric\") else \"topocentric\"\n        frame = \"barycentric\" if header.get(\"barycentric\") else \"topocentric\"\n"},
    {"id": "c05-frame-elif-order", "file": H, "expect": "C05.R2",
     "old": "        header = fbh5.parse_header(filename)\n        frame = \"topocentric\"\n        if header.get(\"pulsarcentric\"):\n            frame = \"pulsarcentric\"\n        if header.get(\"barycentric\"):\n            frame = \"barycentric\"\n",
     "new": "        header = fbh5.parse_header(filename)\n        frame = \"topocentric\"\n        if header.get(\"barycentric\"):\n            frame = \"barycentric\"\n"},
    {"id": "c05-revert-F15", "file": S, "expect": "C05.R4",
     "edits": [{"file": S, "old": "    sign = \"-\" if src_dej < 0 else \"+\"\n", "new": "    sign = -1 if src_dej < 0 else 1\n"},
               {"file": S, "old": "{se:.10f} {sign}{int(de)} {int(ami)} {ase:.10f}", "new": "{se:.10f} {sign * int(de)} {int(ami)} {ase:.10f}"}]},
    {"id": "c05-sign-positive-prefix", "file": S, "expect": "C05.R4",
     "old": "    sign = \"-\" if src_dej < 0 else \"+\"", "new": "    sign = \"+\" if src_dej < 0 else \"-\""},
    {"id": "c05-to-sigproc-frame-swapped", "file": H, "expect": "C05.R2",
     "old": "            \"pulsarcentric\": 1 if self.frame == \"pulsarcentric\" else 0,\n            \"barycentric\": 1 if self.frame == \"barycentric\" else 0,",
     "new": "            \"pulsarcentric\": 1 if self.frame == \"barycentric\" else 0,\n            \"barycentric\": 1 if self.frame == \"pulsarcentric\" else 0,"},
]
TWINS = [
    {"id": "c05-twin-parse-temp", "file": S,
     "old": "                header[key] = struct.unpack(key_fmt, fp.read(struct.calcsize(key_fmt)))[\n                    0\n                ]",
     "new": "                nbytes = struct.calcsize(key_fmt)\n                header[key] = struct.unpack(key_fmt, fp.read(nbytes))[0]"},
    {"id": "c05-twin-frame-nested", "file": H,
     "old": "        header = fbh5.parse_header(filename)\n        frame = \"topocentric\"\n        if header.get(\"pulsarcentric\"):\n            frame = \"pulsarcentric\"\n        if header.get(\"barycentric\"):\n            frame = \"barycentric\"\n",
     "new": "        header = fbh5.parse_header(filename)\n        frame = \"barycentric\" if header.get(\"barycentric\") else (\n            \"pulsarcentric\" if header.get(\"pulsarcentric\") else \"topocentric\"\n        )\n"},
    {"id": "c05-twin-sign-empty-plus", "file": S,
     "old": "    sign = \"-\" if src_dej < 0 else \"+\"", "new": "    sign = \"-\" if src_dej < 0 else \"\""},
]
