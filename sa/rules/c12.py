"""C12 - FFT-based operations equal their time-domain definitions (length-carrying clauses only)."""
from __future__ import annotations

import ast

from .. import kernelspec
from ..dataflow import flow_of
from ..model import AnalysisError, FuncInfo, Program, body_walk, calls_in_body, dotted, norm, parent
from ..normalform import canon
from ..report import Result

TITLE = "FFT-based operations equal their direct time-domain definitions"
LEVEL = "other"
TECHNIQUE = "static analysis: length-carrying rule for inverse real FFTs over resolved call sites, kernel-vs-reference comparison"
EXPLANATION = (
    "Narrow claim - only the structural clauses: (R1) every inverse real FFT in the package (np.fft.irfft directly, the "
    "nb_irfft wrapper, and FourierSeries.ifft's default inverse) is given the transform length explicitly, because irfft "
    "cannot infer an odd length from nfreq = n//2+1 - without it rfft->ifft fails for every series whose good FFT size is "
    "odd; (R2) TimeSeries.rfft pads to nb_fft_good_size(nsamples, real=True), hands that same length to the FFT and records "
    "it as header nsamples, which is the length FourierSeries.ifft passes back; (R3) fftconvolve equals its reference "
    "definition (full linear convolution: pad to a good size >= n1+n2-1, multiply spectra, invert to that size, keep "
    "[:n1+n2-1]), correlate is convolution with the reversed conjugate, form_mspec is the modulus of each bin. Not decided: "
    "Parseval, equality with the DFT sum, rounding error - numeric clauses outside static analysis."
    ' Since F53: a spectrum read from a headered file records the transform length 2*(nbins-1), not the float count that the file size gives (R2).'
)
K = "sigpyproc.core.kernels"


def irfft_sites(prog: Program):
    """(function, call, n-argument or None, how) for every inverse real FFT issued by the package."""
    out = []
    for f in prog.all_funcs():
        flow = None
        for c in calls_in_body(f.node):
            d = dotted(c.func) or ""
            how = None
            if d in ("np.fft.irfft", "numpy.fft.irfft", "rocket_fft.irfft"):
                how = "np.fft.irfft"
            elif d.split(".")[-1] == "nb_irfft":
                how = "nb_irfft"
            elif isinstance(c.func, ast.Name):
                flow = flow or flow_of(f)
                ds = flow.reaching(c.func.id, flow.cfg.node_for(c))
                if any(d_.value is not None and (dotted(d_.value) or "").split(".")[-1] == "nb_irfft" for d_ in ds):
                    how = f"{c.func.id} (defaults to nb_irfft)"
            if how is None:
                continue
            n = c.args[1] if len(c.args) > 1 else next((k.value for k in c.keywords if k.arg == "n"), None)
            out.append((f, c, n, how))
    return out


def check_irfft(prog: Program, res: Result, rule: str, only: set[str] | None = None) -> int:
    cnt = 0
    for f, c, n, how in irfft_sites(prog):
        if only is not None and f.name not in only:
            continue
        cnt += 1
        key = f"{f.qualname}:{how}"
        if n is None:
            res.bad(rule, f, c, f"{how} is called without the transform length: irfft then assumes an even length 2*(nfreq-1), so a "
                    f"spectrum of an odd-length transform comes back one sample short", key=key)
        elif isinstance(n, ast.Constant) and n.value is None:
            res.bad(rule, f, c, f"{how} is given n=None", key=key)
        else:
            res.ok(rule, f, c, f"{how} is given the transform length `{norm(n)}`", key=key)
    return cnt


def run(prog: Program, res: Result, tier: str) -> None:
    prog.consulted.update({K, "sigpyproc.timeseries", "sigpyproc.fourierseries"})
    n = check_irfft(prog, res, "R1")
    if n < 4:
        raise AnalysisError(f"only {n} inverse real FFT sites found (4 confirmed by hand)")
    # wrapper forwards n
    w = prog.func(K, "nb_irfft")
    from ..normalform import canon, normal_form, returned
    ok = returned(w) == [canon("np.fft.irfft(arr, n)")]
    (res.ok if ok else res.bad)("R1", w, w.node, "nb_irfft forwards its length argument" if ok else "nb_irfft no longer forwards n to np.fft.irfft",
                                construct="nb_irfft", key="wrapper-forwards")
    wr = prog.func(K, "nb_rfft")
    ok = returned(wr) == [canon("np.fft.rfft(arr, n)")]
    (res.ok if ok else res.bad)("R2", wr, wr.node, "nb_rfft forwards its length argument" if ok else "nb_rfft no longer forwards n", construct="nb_rfft", key="rfft-wrapper")

    # ---- R2 rfft length bookkeeping ------------------------------------------------------------
    rf = prog.func("sigpyproc.timeseries", "TimeSeries.rfft")
    G = "kernels.nb_fft_good_size(self.nsamples, real=True)"
    rets = normal_form(rf).returns()
    ok = bool(rets)
    seen_default = False
    for e in rets:
        f_ = "kernels.nb_rfft" if e.under("fftn is None") or any("cmp[Is]($v" in c and c.startswith("if ") for c in e.ctx) else None
        m_ = __import__("re").fullmatch(r"fourierseries\.FourierSeries\((?P<f>[\w.$@]+)\(self\.data, (?P<n>.+?)\), self\.header\.new_header\(\{'nsamples': (?P<h>.+)\}\)\)", e.text())
        same_len = m_ is not None and m_.group("n") == m_.group("h")
        is_good = same_len and m_.group("n") == canon(G)
        # a caller-chosen transform length (optional parameter, None by default) is used for the FFT and recorded alike
        opt = [p_ for p_ in rf.params if p_ != "self" and e.under(f"{p_} is not None")]
        chosen = same_len and any(m_.group("n") in (p_, f"int({p_})") for p_ in opt)
        seen_default = seen_default or is_good
        ok = ok and (is_good or chosen) and (f_ is None or m_.group("f") == f_)
    ok = ok and seen_default
    (res.ok if ok else res.bad)("R2", rf, rf.node, "rfft pads to the good size n_good, transforms with length n_good and records nsamples = n_good" if ok else
                                "TimeSeries.rfft: the FFT length and the recorded header nsamples are no longer the same n_good", construct="rfft", key="rfft")
    gs = prog.func(K, "nb_fft_good_size")
    ok = returned(gs) == [canon("rocket_fft.good_size(n, real=real)")]
    (res.ok if ok else res.bad)("R2", gs, gs.node, "good size >= n from rocket_fft.good_size" if ok else "nb_fft_good_size changed", construct="good_size", key="good_size")
    fi = prog.func("sigpyproc.fourierseries", "FourierSeries.ifft")
    sites = [(c, n_) for f, c, n_, how in irfft_sites(prog) if f.node is fi.node]
    ok = len(sites) >= 1 and all(n_ is not None and norm(n_) == "self.header.nsamples" for c, n_ in sites)
    (res.ok if ok else res.bad)("R2", fi, fi.node, "the default inverse uses header.nsamples, the length rfft recorded" if ok else
                                "FourierSeries.ifft does not invert to header.nsamples", construct="ifft", key="ifft-length")
    vi_, whyi_ = kernelspec.compare(fi, "ifft")
    if vi_ == "incomparable":
        raise AnalysisError(f"FourierSeries.ifft cannot be compared with its reference definition: {whyi_[0]}")
    (res.ok if vi_ == "same" else res.bad)("R2", fi, fi.node, ("; ".join(whyi_))[:600], construct="ifft", key="ifft:definition")
    # a spectrum read back from a headered file: the SIGPROC header's nsamples is derived from the file size, i.e. it
    # counts the floats of the spectrum (n + 2), not the samples of the series - the length ifft inverts to must be
    # re-derived from the number of bins (F53)
    fsp = prog.func("sigpyproc.fourierseries", "FourierSeries.from_spec")
    fl_ = flow_of(fsp, prog)
    rets_ = [s_ for s_ in body_walk(fsp.node) if isinstance(s_, ast.Return) and s_.value is not None]
    ok = bool(rets_)
    why_ = ""
    for r_ in rets_:
        ex_ = fl_.expand(r_.value, fl_.cfg.node_for(r_))
        if not (isinstance(ex_, ast.Call) and len(ex_.args) >= 2):
            ok, why_ = False, "from_spec no longer returns cls(spectrum, header)"
            continue
        d_, h_ = ex_.args[0], ex_.args[1]
        upd_ = h_.args[0] if isinstance(h_, ast.Call) and isinstance(h_.func, ast.Attribute) and h_.func.attr == "new_header" and h_.args else None
        val_ = next((v for k, v in zip(upd_.keys, upd_.values) if isinstance(k, ast.Constant) and k.value == "nsamples"), None) if isinstance(upd_, ast.Dict) else None
        if val_ is None:
            ok, why_ = False, ("from_spec keeps the nsamples that Header.from_sigproc derives from the file size (the number of floats, n + 2): "
                               "ifft() then inverts to n + 2 samples, and rfft -> to_spec -> from_spec -> ifft does not return the series")
            continue
        import copy as _copy

        def tmpl(text: str, x: ast.AST) -> str:
            t_ = ast.parse(text, mode="eval").body

            class _S(ast.NodeTransformer):
                def visit_Name(self, node):  # noqa: N802
                    return _copy.deepcopy(x) if node.id == "X" else node
            return canon(_S().visit(t_))
        f_arr = d_.func.value if isinstance(d_, ast.Call) and isinstance(d_.func, ast.Attribute) and d_.func.attr == "view" else None
        want_ = {tmpl("2 * (X.size - 1)", d_), tmpl("2 * (len(X) - 1)", d_)} | ({tmpl("X.size - 2", f_arr), tmpl("len(X) - 2", f_arr)} if f_arr is not None else set())
        if canon(val_) not in want_:
            ok, why_ = False, f"from_spec records nsamples = `{norm(val_)}`, which is not the transform length 2*(nbins - 1) of the spectrum it read"
    (res.ok if ok else res.bad)("R2", fsp, fsp.node, "from_spec records the transform length 2*(nbins-1), not the float count the file size gives" if ok else why_,
                                construct="from_spec", key="from_spec:length")

    # ---- R3 definitions -------------------------------------------------------------------------------
    for name in ("fftconvolve", "form_mspec"):
        fn = prog.func(K, name)
        verdict, why = kernelspec.compare(fn)
        if verdict == "incomparable":
            raise AnalysisError(f"kernel {name} cannot be compared with its reference definition: {why[0]}")
        (res.ok if verdict == "same" else res.bad)("R3", fn, fn.node, ("; ".join(why))[:500], construct=name, key=name)
    co = prog.func("sigpyproc.timeseries", "TimeSeries.correlate")
    rets = normal_form(co).returns()
    ok = bool(rets)
    for e in rets:
        m_ = __import__("re").fullmatch(r"TimeSeries\((?P<c>kernels\.fftconvolve\(self\.data, np\.conj\((?P<y>.+?)\[::-1\]\)\)), self\.header\.new_header\(\{'nsamples': (?P<h>.+)\.size\}\)\)", e.text())
        ok = ok and m_ is not None and m_.group("h") == m_.group("c") and m_.group("y") in ("other.data", "other.astype(np.float32)", "other")
    (res.ok if ok else res.bad)("R3", co, co.node, "correlate(x, y) = fftconvolve(x, conj(reverse(y))): lags -(m-1)..n-1; header nsamples = result size" if ok else
                                "correlate is no longer convolution with the reversed conjugate / nsamples not the result size", construct="correlate", key="correlate")
    fs = prog.func("sigpyproc.fourierseries", "FourierSeries.form_spec")
    ok = any(e.text() == canon("PowerSpectrum(kernels.form_mspec(self.data), self.header.new_header())") and e.under("not interpolate")
             for e in normal_form(fs).returns())
    (res.ok if ok else res.bad)("R3", fs, fs.node, "form_spec() uses form_mspec on the Fourier bins" if ok else "form_spec no longer uses form_mspec", construct="form_spec", key="form_spec")
    res.floor("R1", 5)
    res.floor("R2", 5)
    res.floor("R3", 4)


KF = "sigpyproc/core/kernels.py"
MUTANTS = [
    {"id": "c12-revert-F18a", "file": "sigpyproc/fourierseries.py", "expect": "C12.R",
     "old": "            tim_ar = kernels.nb_irfft(self.data, self.header.nsamples)", "new": "            tim_ar = kernels.nb_irfft(self.data)"},
    {"id": "c12-fftconvolve-no-n", "file": KF, "expect": "C12.R",
     "old": "    ret = np.fft.irfft(sp1 * sp2, n_good)", "new": "    ret = np.fft.irfft(sp1 * sp2)"},
    {"id": "c12-fftconvolve-slice", "file": KF, "expect": "C12.R3",
     "old": "    return ret[:n]\n", "new": "    return ret[: n - 1]\n"},
    {"id": "c12-fftconvolve-pad-n1", "file": KF, "expect": "C12.R3",
     "old": "    n = n1 + n2 - 1\n    n_good = nb_fft_good_size(n, real=True)", "new": "    n = n1 + n2 - 1\n    n_good = nb_fft_good_size(n1, real=True)"},
    {"id": "c12-rfft-header-nsamples", "file": "sigpyproc/timeseries.py", "expect": "C12.R2",
     "old": "        hdr_changes = {\"nsamples\": n_good}", "new": "        hdr_changes = {\"nsamples\": self.nsamples}"},
    {"id": "c12-wrapper-drops-n", "file": KF, "expect": "C12.R1",
     "old": "    return np.fft.irfft(arr, n)", "new": "    return np.fft.irfft(arr)"},
    {"id": "c12-correlate-no-reverse", "file": "sigpyproc/timeseries.py", "expect": "C12.R3",
     "old": "        other_data_conj = np.conj(other_data[::-1])", "new": "        other_data_conj = np.conj(other_data)"},
    {"id": "c12-mspec-no-sqrt", "file": KF, "expect": "C12.R3",
     "old": "        mspec[i] = np.sqrt(fspec[i].real ** 2 + fspec[i].imag ** 2)", "new": "        mspec[i] = fspec[i].real ** 2 + fspec[i].imag ** 2"},
    {"id": "c12-ifft-wrong-length", "file": "sigpyproc/fourierseries.py", "expect": "C12.R2",
     "old": "            tim_ar = kernels.nb_irfft(self.data, self.header.nsamples)", "new": "            tim_ar = kernels.nb_irfft(self.data, 2 * (self.data.size - 1))"},
]
MUTANTS += [
    {"id": "c12-revert-F53", "file": "sigpyproc/fourierseries.py", "expect": "C12.R2",
     "old": "        return cls(spec, header.new_header({\"nsamples\": 2 * (spec.size - 1)}))", "new": "        return cls(spec, header)"},
    {"id": "c12-from-spec-float-count", "file": "sigpyproc/fourierseries.py", "expect": "C12.R2",
     "old": "        return cls(spec, header.new_header({\"nsamples\": 2 * (spec.size - 1)}))", "new": "        return cls(spec, header.new_header({\"nsamples\": 2 * spec.size}))"},
]
MUTANTS += [
    {"id": "c12-ifft-last-bin-real", "file": "sigpyproc/fourierseries.py", "expect": "C12.R2",
     "old": "            tim_ar = kernels.nb_irfft(self.data, self.header.nsamples)", "new": "            spec = self.data.copy()\n            spec[-1] = spec[-1].real\n            tim_ar = kernels.nb_irfft(spec, self.header.nsamples)"},
]
TWINS = [
    {"id": "c12-twin-from-spec-float-size", "file": "sigpyproc/fourierseries.py",
     "old": "        return cls(spec, header.new_header({\"nsamples\": 2 * (spec.size - 1)}))", "new": "        nsamples = data.size - 2\n        return cls(spec, header.new_header({\"nsamples\": nsamples}))"},
    {"id": "c12-twin-kw", "file": KF,
     "old": "    ret = np.fft.irfft(sp1 * sp2, n_good)", "new": "    ret = np.fft.irfft(sp1 * sp2, n=n_good)"},
]
