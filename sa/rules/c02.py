"""C02 - a multi-file stream reads as the concatenation of its data sections (structural clauses)."""
from __future__ import annotations

import ast

from ..cfg import always_raises
from ..dataflow import flow_of
from ..model import AnalysisError, FuncInfo, Program, body_walk, calls_in_body, dotted, norm, parent
from ..poly import Poly, PolyEnv
from ..report import Result
from ..normalform import canon, normal_form, strip_ordinals
from ..pathcond import guarded, path_conditions

TITLE = "A multi-file stream reads as the concatenation of its data sections"
LEVEL = "other"
TECHNIQUE = "static analysis: who-may-call (header skip), positioned-before-read typestate by dominance, guard-before-effect, offset algebra"
EXPLANATION = (
    "Decides: (R1) headers cannot leak into data: _open is called only from the constructor and from _seek2hdr, every other "
    "change of file goes through _seek2hdr, which lands on that file's header end; (R2) every library read in readers.py is "
    "dominated by a positioning seek in the same method (a fresh reader sits at byte 0 of the first header); (R3) "
    "out-of-range requests raise ValueError before the stream moves (_seek_set, read_block), an invalid whence raises, and "
    "opening past the last file raises - which is what makes a counted read past the end fail; (R4) a stream offset maps to "
    "the first file whose cumulative data length exceeds it and to offset minus the preceding files' data, relative to the "
    "header end; (R5) the reported position is file position - header length + data of the preceding files, from the same "
    "cumulative table; (R6) cread/creadinto advance to the next file exactly when the request is not yet satisfied and the "
    "stream has not ended, appending at the right buffer offset; (R7) the stream table holds one entry per file in the given "
    "order with that file's own header and data lengths, and totals are sums over it. Since F51 R1 also requires the reader's constructor to leave the stream at the first sample (_seek2hdr(0) after the base constructor). "
    "Not decided: equality with a byte-array model over "
    "arbitrary operation histories (needs executing histories)."
    ' Since the round-2 hunt: the byte stride of a sample that every positioning seek multiplies by is exact - no truncation, or byte-misaligned samples are refused (R2 samp_stride:exact; fails on the current tree = known finding K01).'
)
FIO = "sigpyproc.io.fileio"
READERS = "sigpyproc.readers"


def callers_of(prog: Program, name: str) -> list[tuple[FuncInfo, ast.Call]]:
    out = []
    for f in prog.all_funcs():
        for c in calls_in_body(f.node):
            d = dotted(c.func) or ""
            if d.split(".")[-1] == name:
                out.append((f, c))
    return out


def _on_true_branch(node: ast.AST, tests: tuple[str, ...]) -> bool:
    """node lies in the body (true branch) of an enclosing `if <one of tests>`."""
    cur, prev = parent(node), node
    while cur is not None and not isinstance(cur, ast.FunctionDef):
        if isinstance(cur, ast.If) and norm(cur.test) in tests:
            return any(prev is s or any(prev is x for x in ast.walk(s)) for s in cur.body)
        prev, cur = cur, parent(cur)
    return False


def P(text: str) -> Poly:
    return PolyEnv().poly(ast.parse(text, mode="eval").body)


def run(prog: Program, res: Result, tier: str) -> None:
    prog.consulted.update({FIO, READERS, "sigpyproc.io.sigproc"})
    # ---- R1 header skip -----------------------------------------------------------------------
    allowed = {"FileBase.__init__", "FileReader._seek2hdr"}
    for f, c in callers_of(prog, "_open"):
        key = f"_open@{f.qualname}"
        if f.qualname in allowed:
            res.ok("R1", f, c, f"_open called from {f.qualname}", key=key)
        else:
            res.bad("R1", f, c, f"{f.qualname} opens a file directly: the new file starts at byte 0, so header bytes would be read as data; "
                    f"only the constructor and _seek2hdr may call _open", key=key)
    # the base constructor opens file 0 at byte 0 - inside its header: a reader must leave its own constructor positioned at the first sample (F51)
    ini = prog.func(FIO, "FileReader.__init__")
    nfi = normal_form(ini)
    sup = [e for e in nfi.effects if e.kind == "expr" and e.text().startswith("super().__init__(")]
    pos0 = nfi.calls("self._seek2hdr")
    okp = len(pos0) == 1 and pos0[0].text() == canon("self._seek2hdr(0)") and not pos0[0].ctx and bool(sup) and all(nfi.before(e, pos0[0]) for e in sup)
    (res.ok if okp else res.bad)("R1", ini, ini.node, "a new reader is positioned at the first sample (_seek2hdr(0) after the files are opened)" if okp else
                                 "FileReader.__init__ leaves the stream where the base constructor opened it, at byte 0 of file 0: a first read without an absolute "
                                 "seek returns header bytes and the reported stream position is -hdrlen", construct="__init__", key="init:positioned")
    s2 = prog.func(FIO, "FileReader._seek2hdr")
    nf2 = normal_form(s2)
    opens = nf2.calls("self._open")
    seeks = nf2.calls("self.file_obj.seek")
    ok = len(opens) == 1 and len(seeks) == 1 and opens[0].text() == canon("self._open(ifile)") and \
        seeks[0].text() in (canon("self.file_obj.seek(self.sinfo.entries[ifile].hdrlen)"), canon("self.file_obj.seek(self.sinfo.entries[ifile].hdrlen, 0)"),
                            canon("self.file_obj.seek(self.sinfo.entries[ifile].hdrlen, os.SEEK_SET)")) and \
        nf2.before(opens[0], seeks[0]) and set(opens[0].ctx) == set(seeks[0].ctx)
    (res.ok if ok else res.bad)("R1", s2, s2.node, "_seek2hdr(i): open file i, then absolute seek to entries[i].hdrlen" if ok else
                                f"_seek2hdr no longer opens file i and seeks to that same file's header length: {[e.text() for e in opens + seeks]}",
                                construct="_seek2hdr", key="_seek2hdr")
    for f in prog.module(FIO).funcs.values():
        for s in body_walk(f.node):
            if isinstance(s, ast.Assign) and any(dotted(t) == "self.ifile_cur" for t in s.targets):
                key = f"ifile_cur@{f.qualname}"
                if f.qualname in ("FileBase.__init__", "FileBase._open", "FileBase._close_current"):
                    res.ok("R1", f, s, "ifile_cur is maintained only by the open/close primitives", key=key)
                else:
                    res.bad("R1", f, s, f"{f.qualname} changes the current file index without opening/seeking through _seek2hdr", key=key)
    n_s2 = 0
    for f, c in callers_of(prog, "_seek2hdr"):
        n_s2 += 1
        res.ok("R1", f, c, f"{f.qualname} changes file through _seek2hdr", key=f"_seek2hdr@{f.qualname}")
    res.notes.append(f"callers of _seek2hdr: {n_s2} (3 confirmed by hand; enforced through the R1 instance floor)")
    op = prog.func(FIO, "FileBase._open")
    fo = flow_of(op)
    openers = [c for c in calls_in_body(op.node) if dotted(c.func) == "self.opener"]
    ok, why = guarded(fo, openers, [("<=0", P("-ifile")), ("<0", P("ifile - len(self.files)"))])
    nfo = normal_form(op)
    okf = any(e.text() == canon("self.opener(self.files[ifile], mode=self.mode)") for e in nfo.sets("self.file_obj"))
    (res.ok if ok and okf else res.bad)("R3", op, op.node, "opening a file index outside the list raises ValueError (a counted read past the end of the stream fails)"
                                        if ok and okf else "_open no longer rejects an out-of-range file index with ValueError before opening files[ifile]: " +
                                        "; ".join(why or ["file_obj is not opener(files[ifile], mode)"]), construct="_open", key="_open:bounds")

    # ---- R2 (cont.) the byte stride those seeks multiply by is the size of one sample, exactly -----------------------------
    # samp_stride truncates nchans * itemsize / bitfact to an integer: for samples that are not a whole number of bytes
    # (4-bit x 1 or 3 channels) it is too small, and every positioning seek lands on the wrong byte.  Either no such file
    # gets this far (a guard on nchans * nbits % 8), or the stride has no truncation in it.
    ss = prog.func(READERS, "FilReader.samp_stride")
    rets_ss = [s_ for s_ in body_walk(ss.node) if isinstance(s_, ast.Return) and s_.value is not None]
    truncates = any(isinstance(n_, ast.Call) and dotted(n_.func) in ("int", "np.int64", "math.floor", "np.floor") or
                    isinstance(n_, ast.BinOp) and isinstance(n_.op, ast.FloorDiv) for r_ in rets_ss for n_ in ast.walk(r_.value))
    fcls = prog.cls(READERS, "FilReader")
    guard = None
    for mname in ("__init__", "samp_stride", "read_block", "read_plan"):
        m_ = fcls.methods.get(mname)
        if m_ is None:
            continue
        for n_ in body_walk(m_.node):
            if isinstance(n_, ast.If) and any(isinstance(b_, ast.Raise) for b_ in n_.body) and "nchans" in norm(n_.test) and \
                    any(isinstance(x_, ast.BinOp) and isinstance(x_.op, ast.Mod) for x_ in ast.walk(n_.test)):
                guard = n_
    ok_ss = bool(rets_ss) and (not truncates or guard is not None)
    (res.ok if ok_ss else res.bad)("R2", ss, rets_ss[0] if rets_ss else ss.node,
                                   "the byte stride of a sample is exact (no truncation, or byte-misaligned samples are refused)" if ok_ss else
                                   "samp_stride truncates nchans * itemsize / bitfact: when one sample is not a whole number of bytes (nchans * nbits % 8 != 0, "
                                   "e.g. 4-bit x 1 channel: stride 0; 4-bit x 3 channels: stride 1) every seek to start * samp_stride lands on the wrong "
                                   "byte and read_block(start > 0) returns other samples than the ones asked for", construct="samp_stride", key="samp_stride:exact")
    # ---- R2 positioned before read --------------------------------------------------------------------
    n2 = 0
    for f in prog.module(READERS).funcs.values():
        reads = [c for c in calls_in_body(f.node) if (dotted(c.func) or "") in ("self._file.cread", "self._file.creadinto")]
        if not reads:
            continue
        flow = flow_of(f)
        seeks = [c for c in calls_in_body(f.node) if (dotted(c.func) or "") == "self._file.seek" and not any(k.arg == "whence" for k in c.keywords)
                 and len(c.args) == 1]
        for r in reads:
            n2 += 1
            key = f"positioned:{f.qualname}:{dotted(r.func)}"
            doms = [s for s in seeks if flow.cfg.dominates(flow.cfg.node_for(s), flow.cfg.node_for(r))]
            if doms:
                p = PolyEnv().poly(flow.expand(doms[0].args[0], flow.cfg.node_for(doms[0])))
                stride = Poly.sym("self.samp_stride")
                # p = (sample index) * bytes-per-sample: every term carries the stride exactly once
                whole = bool(p.t) and all(dict(m).get("self.samp_stride", 0) == 1 for m in p.t)
                q = Poly({tuple(x for x in m if x[0] != "self.samp_stride"): c for m, c in p.t.items()}) if whole else None
                first = {"FilReader.read_block": Poly.sym("start"), "FilReader.read_plan": Poly.sym("start")}.get(f.qualname)
                if whole and (first is None or q == first):
                    res.ok("R2", f, r, f"the read is dominated by an absolute seek to sample `{q.canon()}` * bytes-per-sample", key=key)
                else:
                    res.bad("R2", f, doms[0], f"the positioning seek goes to {p.canon()}, not (first sample wanted) * samp_stride", key=key)
            else:
                res.bad("R2", f, r, "a read is not dominated by an absolute positioning seek in the same method: it would start wherever the "
                        "previous operation (or the header) left the stream", key=key)
    if n2 < 3:
        raise AnalysisError(f"only {n2} stream reads in readers.py (3 confirmed by hand)")

    # ---- R3 guards before effects ------------------------------------------------------------------------
    ss = prog.func(FIO, "FileReader._seek_set")
    flow = flow_of(ss)
    effects = [c for c in calls_in_body(ss.node) if (dotted(c.func) or "").split(".")[-1] in ("_seek2hdr", "seek", "_open")]
    key = "_seek_set:guard"
    ok, why = guarded(flow, effects, [("<=0", P("-offset")), ("<0", P("offset - self.sinfo.get_combined('datalen')"))])
    (res.ok if ok else res.bad)("R3", ss, effects[0] if effects else ss.node, "offset < 0 or >= total data length raises ValueError before any file is opened or moved"
                                if ok else "_seek_set does not reject offset < 0 or offset >= total data length before moving the stream: " + "; ".join(why),
                                key=key, construct="_seek_set guard")
    sk = prog.func(FIO, "FileReader.seek")
    nfs = normal_form(sk)
    moves = nfs.calls("self._seek_set")
    okw = bool(moves)
    for e in moves:
        if e.under("whence == 0"):
            okw = okw and e.text() == canon("self._seek_set(offset)")
        elif e.under("whence == 1"):
            okw = okw and e.text() == canon("self._seek_set(offset + self.cur_data_pos_stream)")
        else:
            okw = False
    fsk = flow_of(sk)
    mv_nodes = {fsk.cfg.node_for(c) for c in calls_in_body(sk.node) if dotted(c.func) == "self._seek_set"}
    okw = okw and len({e.text() for e in moves}) == 2 and fsk.cfg.must_pass(fsk.cfg.entry, fsk.cfg.exit, mv_nodes)
    (res.ok if okw else res.bad)("R3", sk, sk.node, "seek: whence 0 -> absolute, 1 -> current stream position + offset, anything else raises" if okw else
                                 "seek no longer maps whence 0/1 to absolute/relative stream offsets (or accepts other values)", construct="seek", key="seek:whence")
    rb = prog.func(READERS, "FilReader.read_block")
    flow = flow_of(rb)
    eff = [c for c in calls_in_body(rb.node) if (dotted(c.func) or "").startswith("self._file.")]
    ok, why = guarded(flow, eff, [("<=0", P("-start")), ("<=0", P("start + nsamps - self.header.nsamples"))])
    (res.ok if ok else res.bad)("R3", rb, rb.node, "read_block: start < 0 and start + nsamps > nsamples raise ValueError before the stream is touched" if ok else
                                "read_block's range guards no longer dominate the seek/read or no longer cover start<0 / start+nsamps>nsamples: " + "; ".join(why),
                                construct="read_block guards", key="read_block:guards")
    reads = [c for c in calls_in_body(rb.node) if dotted(c.func) == "self._file.cread"]
    okr = len(reads) == 1 and reads[0].args and PolyEnv().poly(flow.expand(reads[0].args[0], flow.cfg.node_for(reads[0]))) == P("self.header.nchans * nsamps")
    nfb = normal_form(rb)
    shaped = [e for e in nfb.effects if e.value and ".reshape(" in e.text() and ".transpose()" in e.text()]
    want_shape = strip_ordinals(canon("self._file.cread(self.header.nchans * nsamps).reshape(self._file.cread(self.header.nchans * nsamps).size // self.header.nchans, "
                                      "self.header.nchans).transpose()"))
    okr = okr and any(want_shape in e.text() for e in shaped)
    (res.ok if okr else res.bad)("R3", rb, rb.node, "read_block reads nchans*nsamps elements and views them as (nsamps, nchans).T" if okr else
                                 "read_block no longer reads nchans*nsamps elements / reshapes (nsamps, nchans)", construct="read_block read", key="read_block:read")

    # ---- R4 file-relative offset -------------------------------------------------------------------------------
    flow = flow_of(ss)
    env = PolyEnv()

    nfs = normal_form(ss)
    FID = "np.where(offset < self.sinfo.cumsum_datalens)[0][0]"
    enters = nfs.calls("self._seek2hdr")
    # np.searchsorted(cumsum, offset, side="right") is the same index: the first i with offset < cumsum[i] (cumsum is non-decreasing)
    FID_ALT = "np.searchsorted(self.sinfo.cumsum_datalens, offset, side='right')"
    fid_used = next((f_ for f_ in (FID, FID_ALT) if enters and enters[0].text() == canon(f"self._seek2hdr({f_})")), None)
    ok = bool(enters) and fid_used is not None and len({e.text() for e in enters}) == 1
    FID = fid_used or FID
    (res.ok if ok else res.bad)("R4", ss, ss.node, "file = first index with offset < cumulative data length, entered through _seek2hdr at its header end" if ok else
                                "_seek_set no longer enters, through _seek2hdr, the first file whose cumulative data length exceeds the offset (strict <): "
                                f"{[e.text() for e in enters]}", key="_seek_set:fileid", construct="fileid")
    s2calls = [c for c in calls_in_body(ss.node) if (dotted(c.func) or "") == "self._seek2hdr"]
    inseeks = nfs.calls("self.file_obj.seek")
    rel = ("os.SEEK_CUR", "io.SEEK_CUR", "1")
    later = {canon(f"self.file_obj.seek(offset - self.sinfo.cumsum_datalens[{FID} - 1], {w})") for w in rel}
    first = {canon(f"self.file_obj.seek(offset, {w})") for w in rel}
    both = {canon(f"self.file_obj.seek(offset if {FID} == 0 else offset - self.sinfo.cumsum_datalens[{FID} - 1], {w})") for w in rel}
    if not inseeks:
        res.bad("R4", ss, ss.node, "_seek_set performs no in-file seek", key="_seek_set:inseek", construct="in-file seek")
    raw_seeks = [c for c in calls_in_body(ss.node) if (dotted(c.func) or "") == "self.file_obj.seek"]
    covered = bool(raw_seeks) and flow.cfg.must_pass(flow.cfg.entry, flow.cfg.exit, {flow.cfg.node_for(c) for c in raw_seeks})
    for e in inseeks:
        in_first = e.under(f"{FID} == 0")
        after = bool(enters) and any(nfs.before(en, e) for en in enters)
        key = f"_seek_set:inseek:{'first' if in_first else 'later'}"
        good = after and covered and (e.text() in later or e.text() in both or (in_first and e.text() in first))
        if good:
            res.ok("R4", ss, raw_seeks[0], "in-file offset = stream offset - data of the preceding files, relative (SEEK_CUR) to the header end", key=key)
        else:
            res.bad("R4", ss, raw_seeks[0] if raw_seeks else ss.node, f"in-file seek is `{e.text()}`; expected offset"
                    f"{'' if in_first else ' - cumsum_datalens[file - 1]'} relative (SEEK_CUR) to the header end after _seek2hdr, on every path", key=key)
    cs = prog.func("sigpyproc.io.sigproc", "StreamInfo.cumsum_datalens")
    ok = [e.text() for e in normal_form(cs).returns()] == [canon("np.cumsum(self.get_info_list('datalen'))")]
    (res.ok if ok else res.bad)("R4", cs, cs.node, "cumsum_datalens = cumulative sum of the per-file data lengths" if ok else "cumsum_datalens changed", construct="cumsum", key="cumsum")

    # ---- R5 reported position --------------------------------------------------------------------------------------
    ps = prog.func(FIO, "FileReader.cur_data_pos_stream")
    pf = prog.func(FIO, "FileReader.cur_data_pos_file")
    base = "self.file_obj.tell() - self.sinfo.entries[self.ifile_cur].hdrlen"
    rets = [e for e in normal_form(pf).returns() if e.text() != "None"]
    ok = bool(rets) and all(e.text() == canon(base) for e in rets)
    (res.ok if ok else res.bad)("R5", pf, pf.node, "position in file = tell() - this file's header length" if ok else
                                "cur_data_pos_file is not tell() - hdrlen of the current file", construct="cur_data_pos_file", key="pos:file")
    rets = [e for e in normal_form(ps).returns() if e.text() != "None"]
    okp = bool(rets)
    prev = "self.sinfo.cumsum_datalens[self.ifile_cur - 1]"
    for e in rets:
        firstf = e.under("self.ifile_cur == 0")
        wants = {canon(f"{b} + {prev}") for b in ("self.cur_data_pos_file", f"({base})")} | \
            {canon(f"{b} + (0 if self.ifile_cur == 0 else {prev})") for b in ("self.cur_data_pos_file", f"({base})")}
        if firstf:
            wants |= {canon("self.cur_data_pos_file"), canon(base)}
        if e.text() not in wants:
            okp = False
    (res.ok if okp else res.bad)("R5", ps, ps.node, "stream position = position in file + data of the preceding files (none for the first file)" if okp else
                                 "cur_data_pos_stream is not (tell - hdrlen) + cumsum_datalens[ifile-1]", construct="cur_data_pos_stream", key="pos:stream")

    # ---- R7 the stream table -------------------------------------------------------------------------------------
    SIG = "sigpyproc.io.sigproc"
    si = prog.cls(SIG, "StreamInfo")
    defs = [
        ("get_info_list", "ret", "[getattr(entry, key) for entry in self.entries]", "per-file values in file order"),
        ("get_combined", "ret", "sum(self.get_info_list(key))", "stream total = sum over files"),
        ("add_entry", "expr", "self.entries.append(finfo)", "files are appended in the order given"),
    ]
    for name, kind, want, what in defs:
        m = si.methods.get(name)
        ok = m is not None and any(e.kind == kind and e.text() == canon(want) for e in normal_form(m).effects)
        (res.ok if ok else res.bad)("R7", m, m.node if m else si.node, f"StreamInfo.{name}: {what}" if ok else f"StreamInfo.{name} no longer is `{want}`",
                                    construct=f"StreamInfo.{name}", key=f"sinfo:{name}")
    pm = prog.func(SIG, "parse_header_multi")
    import re
    effs = normal_form(pm).effects
    files = r"(?:\[?\$v\d+(?:@\d+)?\]?|filenames)"
    ok_first = [e for e in effs if e.kind == "set" and re.fullmatch(rf"StreamInfo\(\[FileInfo\.from_dict\(parse_header\({files}\[0\]\)\)\]\)", e.text())]
    ok_rest = [e for e in effs if e.kind == "expr" and re.fullmatch(r"\$v\d+\.add_entry\(FileInfo\.from_dict\(parse_header\((\w+|L<[^>]*>)\)\)\)", e.text())]
    ok_match = [e for e in effs if e.kind == "expr" and re.fullmatch(rf"match_header\(parse_header\({files}\[0\]\), parse_header\((\w+|L<[^>]*>)\)\)", e.text())]
    tables = {e.target for e in ok_first}
    ok_total = [e for e in effs if e.kind == "set" and e.target.endswith("['nsamples']") and (
        e.text().endswith("['stream_info'].get_combined('nsamples')") or
        any(e.text() == f"{t}.get_combined('nsamples')" for t in tables))]
    loops = [l for l in body_walk(pm.node) if isinstance(l, ast.For)]
    ok_loop = len(loops) == 1 and isinstance(loops[0].iter, ast.Subscript) and isinstance(loops[0].iter.slice, ast.Slice) and \
        loops[0].iter.slice.lower is not None and norm(loops[0].iter.slice.lower) == "1" and loops[0].iter.slice.upper is None and loops[0].iter.slice.step is None
    ok_stored = [e for e in effs if e.kind == "set" and e.target.endswith("['stream_info']") and e.text() in tables]
    ok = bool(ok_first) and bool(ok_rest) and bool(ok_match) and bool(ok_total) and bool(ok_stored) and ok_loop
    (res.ok if ok else res.bad)("R7", pm, pm.node, "one FileInfo per file in the given order (headers must match); stream nsamples = sum of the files'" if ok else
                                "parse_header_multi no longer builds the stream table from every file in order", construct="parse_header_multi", key="sinfo:parse_multi")
    fi = prog.cls(SIG, "FileInfo")
    ok = {"filename", "hdrlen", "datalen", "nsamples", "tstart", "tsamp"} <= set(fi.attrs_fields) and \
        any(e.text() == canon("cls(**{key: info[key] for key in attrs.fields_dict(cls)})") for e in normal_form(fi.methods["from_dict"]).returns())
    (res.ok if ok else res.bad)("R7", fi.methods["from_dict"], fi.node, "FileInfo carries each file's own hdrlen/datalen/nsamples taken by name from its parsed header" if ok else
                                "FileInfo no longer takes hdrlen/datalen/nsamples by name from the parsed header", construct="FileInfo", key="sinfo:fileinfo")
    frd = prog.func(FIO, "FileReader.__init__")
    ok = any(e.text() in (canon("super().__init__(self.sinfo.get_info_list('filename'), mode)"), canon("super().__init__(sinfo.get_info_list('filename'), mode)"))
             for e in normal_form(frd).exprs()) and \
        any(e.text() == "sinfo" for e in normal_form(frd).sets("self.sinfo"))
    (res.ok if ok else res.bad)("R7", frd, frd.node, "the reader opens exactly the files of the stream table, in table order" if ok else
                                "FileReader no longer opens the stream table's files in order", construct="FileReader.__init__", key="sinfo:files")

    # ---- R6 read loops ---------------------------------------------------------------------------------------------------
    from .. import kernelspec
    for qual, name, what in (
            ("FileReader.cread", "cread", "counted read: stored elements = nunits // bitfact; each pass reads min(file data, outstanding) from the current "
             "position, the outstanding count shrinks by what was read and the loop ends exactly at zero, otherwise the next file is entered at its "
             "header end; pieces are concatenated in order and unpacked with the stream's depth and bit order"),
            ("FileReader.creadinto", "creadinto", "buffer read: each pass appends at view[nbytes:], the loop stops when the buffer is full or the stream "
             "has ended, otherwise the next file is entered at its header end; the byte count is returned; a non-blocking None is an error"),
            ("FileBase.eos", "eos", "end of stream = at the end of the current file AND it is the last file")):
        fn = prog.func(FIO, qual)
        verdict, why = kernelspec.compare(fn, name)
        if verdict == "incomparable":
            raise AnalysisError(f"{qual} cannot be compared with its reference definition: {why[0]}")
        (res.ok if verdict == "same" else res.bad)("R6", fn, fn.node, (what if verdict == "same" else f"{qual} differs from its definition: " + ("; ".join(why))[:500]),
                                                   construct=qual, key=f"{name}:definition")
    res.floor("R1", 9)
    res.floor("R2", 4)
    res.floor("R3", 5)
    res.floor("R4", 3)   # fileid, cumsum, and one in-file seek (two when the first file is a separate branch)
    res.floor("R5", 2)
    res.floor("R6", 3)
    res.floor("R7", 6)


F = "sigpyproc/io/fileio.py"
R = "sigpyproc/readers.py"
MUTANTS = [
    {"id": "c02-cread-cap-hoisted", "file": F, "expect": "C02.R6",
     "old": "        data = []\n        while count >= 0:\n            count_read = min(self.sinfo.entries[self.ifile_cur].datalen, count)\n",
     "new": "        data = []\n        datalen = self.sinfo.entries[self.ifile_cur].datalen\n        while count >= 0:\n            count_read = min(datalen, count)\n"},
    {"id": "c02-revert-F51", "file": F, "expect": "C02.R1",
     "old": "        # The stream begins at the first sample, not at the header of file 0\n        self._seek2hdr(0)\n", "new": ""},
    {"id": "c02-search-loop-le", "file": F, "expect": "C02.R4", "old": '        fileid = np.where(offset < self.sinfo.cumsum_datalens)[0][0]\n        self._seek2hdr(fileid)\n\n        if fileid == 0:\n            self.file_obj.seek(offset, os.SEEK_CUR)\n        else:\n            file_offset = offset - self.sinfo.cumsum_datalens[fileid - 1]\n            self.file_obj.seek(file_offset, os.SEEK_CUR)\n', "new": '        import itertools\n        data_ends = self.sinfo.cumsum_datalens\n        data_starts = itertools.chain([0], data_ends[:-1])\n        for fileid, (data_start, data_end) in enumerate(zip(data_starts, data_ends, strict=True)):\n            if offset <= data_end:\n                break\n        self._seek2hdr(fileid)\n        self.file_obj.seek(offset - data_start, os.SEEK_CUR)\n'},
    {"id": "c02-search-loop-from-end", "file": F, "expect": "C02.R4", "old": '        fileid = np.where(offset < self.sinfo.cumsum_datalens)[0][0]\n        self._seek2hdr(fileid)\n\n        if fileid == 0:\n            self.file_obj.seek(offset, os.SEEK_CUR)\n        else:\n            file_offset = offset - self.sinfo.cumsum_datalens[fileid - 1]\n            self.file_obj.seek(file_offset, os.SEEK_CUR)\n', "new": '        import itertools\n        data_ends = self.sinfo.cumsum_datalens\n        data_starts = itertools.chain([0], data_ends[:-1])\n        for fileid, (data_start, data_end) in enumerate(zip(data_starts, data_ends, strict=True)):\n            if offset < data_end:\n                break\n        self._seek2hdr(fileid)\n        self.file_obj.seek(offset - data_end, os.SEEK_CUR)\n'},
    {"id": "c02-open-direct-in-cread", "file": F, "expect": "C02.R1",
     "old": "            if count == 0:\n                break\n            self._seek2hdr(self.ifile_cur + 1)", "new": "            if count == 0:\n                break\n            self._open(self.ifile_cur + 1)"},
    {"id": "c02-seek2hdr-wrong-file", "file": F, "expect": "C02.R1",
     "old": "        self.file_obj.seek(self.sinfo.entries[ifile].hdrlen)", "new": "        self.file_obj.seek(self.sinfo.entries[0].hdrlen)"},
    {"id": "c02-guard-gt", "file": F, "expect": "C02.R3",
     "old": "        if offset < 0 or offset >= self.sinfo.get_combined(\"datalen\"):", "new": "        if offset < 0 or offset > self.sinfo.get_combined(\"datalen\"):"},
    {"id": "c02-drop-cumsum", "file": F, "expect": "C02.R4",
     "old": "            file_offset = offset - self.sinfo.cumsum_datalens[fileid - 1]", "new": "            file_offset = offset"},
    {"id": "c02-fileid-le", "file": F, "expect": "C02.R4",
     "old": "        fileid = np.where(offset < self.sinfo.cumsum_datalens)[0][0]", "new": "        fileid = np.where(offset <= self.sinfo.cumsum_datalens)[0][0]"},
    {"id": "c02-no-seek-read-block", "file": R, "expect": "C02.R2",
     "old": "        self._file.seek(start * self.samp_stride)\n        data = self._file.cread(self.header.nchans * nsamps)", "new": "        data = self._file.cread(self.header.nchans * nsamps)"},
    {"id": "c02-pos-stream-no-cumsum", "file": F, "expect": "C02.R5",
     "old": "        return self.cur_data_pos_file + self.sinfo.cumsum_datalens[self.ifile_cur - 1]", "new": "        return self.cur_data_pos_file + self.sinfo.cumsum_datalens[self.ifile_cur]"},
    {"id": "c02-pos-file-no-hdr", "file": F, "expect": "C02.R5",
     "old": "        return self.file_obj.tell() - self.sinfo.entries[self.ifile_cur].hdrlen", "new": "        return self.file_obj.tell()"},
    {"id": "c02-creadinto-overwrite", "file": F, "expect": "C02.R6",
     "old": "            nbytes_read = self.file_obj.readinto(read_buffer_view[nbytes:])", "new": "            nbytes_read = self.file_obj.readinto(read_buffer_view)"},
    {"id": "c02-eos-or", "file": F, "expect": "C02.R6",
     "old": "        return eof & eol", "new": "        return eof | eol"},
    {"id": "c02-seek-whence-any", "file": F, "expect": "C02.R3",
     "old": "        elif whence == 1:\n            self._seek_set(offset + self.cur_data_pos_stream)  # type: ignore [operator]\n        else:\n            msg = \"whence should be either 0 (SEEK_SET) or 1 (SEEK_CUR)\"\n            raise ValueError(msg)",
     "new": "        else:\n            self._seek_set(offset + self.cur_data_pos_stream)  # type: ignore [operator]"},
    {"id": "c02-read-block-guard-dropped", "file": R, "expect": "C02.R3",
     "old": "        if start < 0 or start + nsamps > self.header.nsamples:\n            msg = f\"requested block is out of range: start={start}, nsamps={nsamps}\"\n            raise ValueError(msg)\n\n        self._file.seek(start * self.samp_stride)\n        data = self._file.cread(",
     "new": "        self._file.seek(start * self.samp_stride)\n        data = self._file.cread("},
    {"id": "c02-open-no-bounds", "file": F, "expect": "C02.R3",
     "old": "        if ifile < 0 or ifile >= len(self.files):", "new": "        if ifile < 0:"},
    {"id": "c02-dedisp-seek-elements", "file": R, "expect": "C02.R2",
     "old": "        self._file.seek(first_sample * self.samp_stride)\n", "new": "        self._file.seek(first_sample * self.header.nchans)\n"},
]
MUTANTS += [
    {"id": "c02-combined-last", "file": "sigpyproc/io/sigproc.py", "expect": "C02.R7",
     "old": "        return sum(self.get_info_list(key))", "new": "        return self.get_info_list(key)[-1]"},
    {"id": "c02-entries-prepend", "file": "sigpyproc/io/sigproc.py", "expect": "C02.R7",
     "old": "        self.entries.append(finfo)", "new": "        self.entries.insert(0, finfo)"},
]
TWINS = [
    {"id": "c02-twin-cread-cap-temp-in-loop", "file": F,
     "old": "            count_read = min(self.sinfo.entries[self.ifile_cur].datalen, count)\n",
     "new": "            datalen = self.sinfo.entries[self.ifile_cur].datalen\n            count_read = min(datalen, count)\n"},
    {"id": "c02-twin-search-loop", "file": F, "old": '        fileid = np.where(offset < self.sinfo.cumsum_datalens)[0][0]\n        self._seek2hdr(fileid)\n\n        if fileid == 0:\n            self.file_obj.seek(offset, os.SEEK_CUR)\n        else:\n            file_offset = offset - self.sinfo.cumsum_datalens[fileid - 1]\n            self.file_obj.seek(file_offset, os.SEEK_CUR)\n', "new": '        import itertools\n        data_ends = self.sinfo.cumsum_datalens\n        data_starts = itertools.chain([0], data_ends[:-1])\n        for fileid, (data_start, data_end) in enumerate(zip(data_starts, data_ends, strict=True)):\n            if offset < data_end:\n                break\n        self._seek2hdr(fileid)\n        self.file_obj.seek(offset - data_start, os.SEEK_CUR)\n'},
    {"id": "c02-twin-cread-rename", "file": F,
     "old": "            count_read = min(self.sinfo.entries[self.ifile_cur].datalen, count)\n            data_read = np.fromfile(\n                self.file_obj,\n                count=count_read,\n                dtype=self.bitsinfo.dtype,\n            )\n            count -= len(data_read)\n            data.append(data_read)",
     "new": "            piece = np.fromfile(\n                self.file_obj,\n                dtype=self.bitsinfo.dtype,\n                count=min(self.sinfo.entries[self.ifile_cur].datalen, count),\n            )\n            count -= len(piece)\n            data.append(piece)"},
    {"id": "c02-twin-offset-temp", "file": F,
     "old": "            file_offset = offset - self.sinfo.cumsum_datalens[fileid - 1]\n            self.file_obj.seek(file_offset, os.SEEK_CUR)",
     "new": "            before = self.sinfo.cumsum_datalens[fileid - 1]\n            self.file_obj.seek(-before + offset, os.SEEK_CUR)"},
    {"id": "c02-twin-pos-temp", "file": F,
     "old": "        return self.cur_data_pos_file + self.sinfo.cumsum_datalens[self.ifile_cur - 1]",
     "new": "        preceding = self.sinfo.cumsum_datalens[self.ifile_cur - 1]\n        return preceding + self.cur_data_pos_file"},
]
