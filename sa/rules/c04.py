"""C04 - what is written is what is read back (writer width, writer/reader pairing)."""
from __future__ import annotations

import ast

from ..cfg import always_raises, simple_paths
from ..dataflow import flow_of
from ..model import AnalysisError, FuncInfo, Program, body_walk, calls_in_body, dotted, norm, parent
from ..report import Result
from ..stream import dict_literal_keys, prep_calls

TITLE = "What is written is what is read back, for every format and sample depth"
LEVEL = "other"
TECHNIQUE = "static analysis: path-wise must-pass-through conversion in the writer, writer/reader format pairing, table agreement"
EXPLANATION = (
    "Decides the structural clauses: (R1) on every path through FileWriter.cwrite the array handed to tofile has been "
    "converted to the declared sample type (astype/quantize) or packed by pack(), which refuses non-uint8 input - so no "
    "file is ever written at a width other than the header declares; (R2) each writer/reader pair (.tim, .dat, .spec, "
    ".fft, block.to_file/FilReader) agrees on headered-vs-raw layout and on the element type view; (R3) prep_outfile gives "
    "the writer and the encoded header the same depth on every path and for any caller-supplied `updates` (the 'nbits' entry "
    "of the mapping handed to new_header and the FileWriter depth are one canonical value); (R4) the reader infers the sample count as floor(8*datalen/nbits/nchans); (R5) the .inf writer and reader "
    "iterate the same presto_inf table, which carries tstart, tsamp and dm, and every key it names exists; (R6) the SIGPROC "
    "writer and reader pack/unpack sub-byte samples with the same (stream) depth and bit order; (R7) requantisation clips to "
    "[0, 2^nbits - 1] before the cast. Not decided: "
    "bit-identity of values and metadata precision."
    " Since wave 6: C08's rules for the DM recorded by to_file and carried by read_block are re-evaluated (R5)."
)
FILEIO = "sigpyproc.io.fileio"
HEADER = "sigpyproc.header"


def _is_declared_dtype(e: ast.AST) -> bool:
    return norm(e) in ("self.bitsinfo.dtype", "self.dtype", "self.bitsinfo.dtype.type")


def check_declared_width(prog: Program, res: Result, rule: str) -> None:
    """R1: every path to tofile converts to the declared dtype (shared with C07.R6)."""
    cw = prog.func(FILEIO, "FileWriter.cwrite")
    flow = flow_of(cw)
    cfg = flow.cfg
    tofiles = [c for c in calls_in_body(cw.node) if isinstance(c.func, ast.Attribute) and c.func.attr == "tofile"]
    if not tofiles:
        raise AnalysisError("FileWriter.cwrite has no tofile call")
    # quantize returns astype(self.dtype)
    q = prog.func("sigpyproc.io.bits", "BitsInfo.quantize")
    qrets = [s for s in body_walk(q.node) if isinstance(s, ast.Return)]
    q_ok = len(qrets) == 1 and isinstance(qrets[0].value, ast.Call) and isinstance(qrets[0].value.func, ast.Attribute) \
        and qrets[0].value.func.attr == "astype" and qrets[0].value.args and norm(qrets[0].value.args[0]) == "self.dtype"
    p = prog.func("sigpyproc.io.bits", "pack")
    from ..pathcond import path_conditions as _pcx, rejection as _rej
    pcp = _pcx(flow_of(p))

    def _is_u8(e, pol):
        if not (isinstance(e, ast.Compare) and len(e.ops) == 1):
            return False
        sides = {norm(e.left), norm(e.comparators[0])}
        if not (any(x.endswith(".dtype") for x in sides) and sides & {"np.uint8", "'uint8'", "np.dtype('uint8')"}):
            return False
        return (isinstance(e.ops[0], ast.Eq) and pol) or (isinstance(e.ops[0], ast.NotEq) and not pol)

    p_rets = [s for s in body_walk(p.node) if isinstance(s, ast.Return) and s.value is not None]
    pack_refuses = bool(p_rets) and all((f_ := pcp.truth(r_, _is_u8)) is not None and _rej(pcp, f_) is not None for r_ in p_rets)
    params = [x for x in cw.params if x != "self"]

    def how_of(v: ast.AST, conv: dict) -> str | None:
        """How the array denoted by v is known to have the declared sample type (None: it may still be the caller's dtype)."""
        if isinstance(v, ast.Name):
            return conv.get(v.id)
        if isinstance(v, ast.IfExp):
            a_, b_ = how_of(v.body, conv), how_of(v.orelse, conv)
            return f"{a_} / {b_}" if a_ is not None and b_ is not None else None
        if isinstance(v, ast.Call):
            d = dotted(v.func) or ""
            if isinstance(v.func, ast.Attribute) and v.func.attr == "astype" and v.args and _is_declared_dtype(v.args[0]):
                return "astype(declared dtype)"
            if d.endswith(".quantize") and q_ok:
                return "quantize() -> astype(declared dtype)"
            if d.split(".")[-1] == "pack" and pack_refuses:
                return "pack() (uint8 in, refuses anything else)"
            if d in ("np.asarray", "np.ascontiguousarray", "np.array") and any(k.arg == "dtype" and _is_declared_dtype(k.value) for k in v.keywords):
                return "asarray(dtype=declared dtype)"
            if d in ("np.asarray", "np.ascontiguousarray", "np.asanyarray") and len(v.args) == 1 and not v.keywords:
                return how_of(v.args[0], conv)   # no conversion: as good as its argument
        return None

    for t in tofiles:
        recv = t.func.value
        tn = cfg.node_for(t)
        key = f"cwrite:{norm(t)}"
        bad_path = None
        for path in simple_paths(cfg, cfg.entry, {tn}):
            conv: dict[str, str | None] = {x: None for x in params}
            for n in path:
                st = cfg.ast[n]
                if cfg.kind[n] == "stmt" and isinstance(st, ast.Assign) and len(st.targets) == 1 and isinstance(st.targets[0], ast.Name):
                    v = st.value
                    tgt = st.targets[0].id
                    how = how_of(v, conv)
                    conv[tgt] = how
            # dtype-equality guard that raises, passed on this path
            for n in path:
                st = cfg.ast[n]
                if cfg.kind[n] == "test" and isinstance(st, ast.If) and always_raises(st.body) and "dtype" in norm(st.test) \
                        and isinstance(st.test, ast.Compare) and isinstance(st.test.ops[0], ast.NotEq) \
                        and any(_is_declared_dtype(x) for x in [st.test.left] + st.test.comparators):
                    for x in ast.walk(st.test):
                        if isinstance(x, ast.Name):
                            conv[x.id] = "dtype guard raises on mismatch"
            if how_of(recv, conv) is None:
                bad_path = path
                break
        if bad_path is None:
            res.ok(rule, cw, t, "on every path the array written has been converted to / checked against the declared sample type", key=key)
        else:
            conds = [norm(cfg.ast[n].test) for n in bad_path if cfg.kind[n] == "test"]
            res.bad(rule, cw, t, f"a path reaches `{norm(t)}` with the caller's array in its in-memory dtype (path conditions seen: {conds}): "
                    f"e.g. uint8 data written under a 32-bit header, or float32 under an 8-bit header", key=key)


def check_bitorder_pairing(prog: Program, res: Result, rule: str) -> None:
    """SIGPROC writer and reader (un)pack sub-byte samples with the same stream depth and bit order (shared with C07.R6)."""
    sites = []
    for f in prog.module(FILEIO).funcs.values():
        for c in calls_in_body(f.node):
            if dotted(c.func) in ("unpack", "pack"):
                kw = {k.arg: k.value for k in c.keywords}
                nb = c.args[1] if len(c.args) > 1 else kw.get("nbits")
                sites.append((f, c, norm(nb) if nb is not None else None, norm(kw["bitorder"]) if "bitorder" in kw else None))
    writers = [x for x in sites if dotted(x[1].func) == "pack"]
    readers = [x for x in sites if dotted(x[1].func) == "unpack"]
    if not writers or not readers:
        raise AnalysisError("fileio: pack/unpack call sites not found")
    for f, c, nb, bo in sites:
        key = f"bitorder:{f.qualname}:{dotted(c.func)}"
        if nb == "self.bitsinfo.nbits" and bo == "self.bitsinfo.bitorder":
            res.ok(rule, f, c, "sub-byte samples are (un)packed with the stream's own depth and bit order", key=key)
        else:
            res.bad(rule, f, c, f"{dotted(c.func)} is called with nbits={nb}, bitorder={bo or '<default big>'}: the writer and the reader no longer agree "
                    f"on the bit order for every depth (1-bit SIGPROC data is little-endian), so packed samples read back permuted", key=key)



def _has_prep(fn: FuncInfo) -> bool:
    return bool(prep_calls(fn))


def _fromfile(fn: FuncInfo) -> ast.Call | None:
    for c in calls_in_body(fn.node):
        if dotted(c.func) == "np.fromfile":
            return c
    return None


def run(prog: Program, res: Result, tier: str) -> None:
    prog.consulted.update({FILEIO, HEADER, "sigpyproc.io.bits", "sigpyproc.io.sigproc", "sigpyproc.timeseries",
                           "sigpyproc.fourierseries", "sigpyproc.block", "sigpyproc.params"})
    check_declared_width(prog, res, "R1")

    # ---- R2 pairing ---------------------------------------------------------------------
    pairs = [
        ("sigpyproc.timeseries", "TimeSeries.to_tim", "TimeSeries.from_tim", "sigproc", None),
        ("sigpyproc.timeseries", "TimeSeries.to_dat", "TimeSeries.from_dat", "presto", None),
        ("sigpyproc.fourierseries", "FourierSeries.to_spec", "FourierSeries.from_spec", "sigproc", "complex"),
        ("sigpyproc.fourierseries", "FourierSeries.to_fft", "FourierSeries.from_fft", "presto", "complex"),
    ]
    for mod, wname, rname, fmt, kind in pairs:
        w, r = prog.func(mod, wname), prog.func(mod, rname)
        w_hdr = _has_prep(w)
        ff = _fromfile(r)
        key = f"{wname}/{rname}"
        if ff is None:
            res.bad("R2", r, r.node, "reader does not use np.fromfile", construct=rname, key=key)
            continue
        off = [k.value for k in ff.keywords if k.arg == "offset"]
        r_hdr = bool(off) and "hdrlen" in norm(off[0])
        via_sigproc_hdr = any((dotted(c.func) or "").endswith("from_sigproc") for c in calls_in_body(r.node))
        via_inf = any((dotted(c.func) or "").endswith("from_inffile") for c in calls_in_body(r.node))
        w_inf = any((dotted(c.func) or "").endswith("make_inf") for c in calls_in_body(w.node))
        if w_hdr != r_hdr:
            res.bad("R2", w, w.node, f"{wname} writes a {'SIGPROC-headered' if w_hdr else 'raw'} file but {rname} reads it as "
                    f"{'headered (skips hdrlen)' if r_hdr else 'raw from byte 0'}: the header bytes come back as samples", construct=key, key=key)
            continue
        if (r_hdr and not via_sigproc_hdr) or (not r_hdr and not (via_inf and w_inf)):
            res.bad("R2", w, w.node, f"{key}: metadata side of the pair is inconsistent (SIGPROC header vs .inf side-car)", construct=key, key=key)
            continue
        # element type view
        okview = True
        detail = ""
        if kind == "complex":
            wv = [c for c in calls_in_body(w.node) if isinstance(c.func, ast.Attribute) and c.func.attr == "view"]
            rv = [c for c in calls_in_body(r.node) if isinstance(c.func, ast.Attribute) and c.func.attr == "view"]
            rd = [k.value for k in ff.keywords if k.arg == "dtype"]
            okview = len(wv) == 1 and norm(wv[0].args[0]) == "np.float32" and len(rv) == 1 and norm(rv[0].args[0]) == "np.complex64" \
                and rd and norm(rd[0]) == "np.float32"
            detail = "written as a float32 view of complex64, read as float32 and viewed as complex64"
        else:
            rd = [k.value for k in ff.keywords if k.arg == "dtype"]
            okview = bool(rd) and norm(rd[0]) in ("np.float32", "header.dtype")
            detail = "float32 samples both ways"
        if okview:
            res.ok("R2", w, w.node, f"{key}: both {'headered' if w_hdr else 'raw + .inf'}; {detail}", construct=key, key=key)
        else:
            res.bad("R2", w, w.node, f"{key}: element type view written and read do not match", construct=key, key=key)
    # block.to_file <-> FilReader.read_block (time-major flat order)
    tf = prog.func("sigpyproc.block", "FilterbankBlock.to_file")
    cws = [c for c in calls_in_body(tf.node) if isinstance(c.func, ast.Attribute) and c.func.attr == "cwrite"]
    rb = prog.func("sigpyproc.readers", "FilReader.read_block")
    resh = [c for c in calls_in_body(rb.node) if isinstance(c.func, ast.Attribute) and c.func.attr == "transpose"]
    key = "FilterbankBlock.to_file/FilReader.read_block"
    okw = len(cws) == 1 and norm(cws[0].args[0]) == "self.data.transpose().ravel()" and _has_prep(tf)
    okr = any(norm(c.func.value).endswith(".reshape(nsamps_read, self.header.nchans)") for c in resh)
    if okw and okr:
        res.ok("R2", tf, cws[0], "block (chans, samples) is written time-major and read back as reshape(samples, chans).T", key=key)
    else:
        res.bad("R2", tf, tf.node, "block layout written by to_file and read by read_block do not agree", construct=key, key=key)

    check_bitorder_pairing(prog, res, "R6")

    hd = prog.func(HEADER, "Header.dtype")
    from ..normalform import canon as _canon, returned as _returned
    ok = _returned(hd) == [_canon("BitsInfo(self.nbits).dtype")]
    (res.ok if ok else res.bad)("R2", hd, hd.node, "Header.dtype is the storage dtype of header.nbits (what from_tim reads with)" if ok else
                                "Header.dtype is no longer BitsInfo(self.nbits).dtype", construct="Header.dtype", key="Header.dtype")

    # ---- R7 requantisation to the declared depth ------------------------------------------------------------
    from .. import kernelspec
    from ..props import property_expr
    qf = prog.func("sigpyproc.io.bits", "BitsInfo.quantize")
    verdict, why = kernelspec.compare(qf, "quantize")
    if verdict == "incomparable":
        raise AnalysisError(f"quantize cannot be compared with its reference definition: {why[0]}")
    (res.ok if verdict == "same" else res.bad)("R7", qf, qf.node, ("quantize = clip(int32(x*scale + mean + 0.5), digi_min, digi_max) cast to the storage dtype; "
                                                                  if verdict == "same" else "quantize differs from its definition: ") + ("; ".join(why))[:400],
                                               construct="quantize", key="quantize")
    bcls = prog.cls("sigpyproc.io.bits", "BitsInfo")
    for name, want in (("digi_min", "0"), ("digi_max", "(1 << self.nbits) - 1"), ("digi_mean", "(1 << self.nbits - 1) - 0.5"),
                       ("digi_scale", "self.digi_mean / self.digi_sigma")):
        pe = property_expr(prog, bcls, name)
        ok = pe is not None and norm(pe) == want
        m = bcls.methods.get(name)
        (res.ok if ok else res.bad)("R7", m, m.node if m else bcls.node, f"BitsInfo.{name} = {want}" if ok else
                                    f"BitsInfo.{name} is `{norm(pe) if pe is not None else '?'}`, expected `{want}`: quantised values may leave the "
                                    f"representable range of the declared depth and wrap on the cast", construct=name, key=f"quantize:{name}")

    # ---- R3 depth agreement ----------------------------------------------------------------------
    prep = prog.func(HEADER, "Header.prep_outfile")
    fl = flow_of(prep)
    ctor = [c for c in calls_in_body(prep.node) if (dotted(c.func) or "").endswith("FileWriter")]
    key = "prep_outfile:depth"
    ok3 = False
    if len(ctor) == 1:
        from ..normalform import canon as _canon3
        nb = [k.value for k in ctor[0].keywords if k.arg == "nbits"]
        newh = [c for c in calls_in_body(prep.node) if (dotted(c.func) or "").endswith("new_header") and c.args]
        if nb and len(newh) == 1:
            darg = newh[0].args[0]      # a name, or the mapping written in place
            w_txt = _canon3(fl.expand(nb[0], fl.cfg.node_for(ctor[0])))            # the depth the writer packs with
            # the depth the derived header declares: the 'nbits' entry of the mapping given to new_header, on every path
            import copy as _copy3
            h_txt = _canon3(fl.expand(ast.Subscript(value=_copy3.deepcopy(darg), slice=ast.Constant("nbits"), ctx=ast.Load()),
                                      fl.cfg.node_for(newh[0])))
            enc = [c for c in calls_in_body(prep.node) if (dotted(c.func) or "").endswith("encode_header") and c.args]
            encoded = len(enc) == 1 and "new_header(" in _canon3(fl.expand(enc[0].args[0], fl.cfg.node_for(enc[0])))
            ok3 = h_txt == w_txt and encoded
    if ok3:
        res.ok("R3", prep, ctor[0], "the header that is encoded declares, on every path and for any caller-supplied updates, the depth "
               "the writer packs with", key=key)
    else:
        res.bad("R3", prep, prep.node, "prep_outfile does not give FileWriter and the encoded header the same nbits for every caller: a depth "
                "declared through `updates` alone (or any other path) can differ from the writer's", construct="prep_outfile", key=key)
    nsites = 0
    for f in prog.all_funcs():
        for c in prep_calls(f):
            nsites += 1
            key = f"{f.qualname}:prep:{norm(c.args[0]) if c.args else ''}"
            if ok3:
                res.ok("R3", f, c, "depth of header and writer are decided together inside prep_outfile", key=key)
    if nsites < 12:
        raise AnalysisError(f"only {nsites} prep_outfile call sites found (12 confirmed by hand)")

    # ---- R4 count formula --------------------------------------------------------------------------------
    ph = prog.func("sigpyproc.io.sigproc", "parse_header")
    import re as _re
    from ..normalform import normal_form
    from ..dataflow import flow_of as _flow_of
    nfp = normal_form(ph)
    fl = _flow_of(ph)
    tells = sorted((c for c in calls_in_body(ph.node) if (dotted(c.func) or "").endswith(".tell")), key=lambda c: (c.lineno, c.col_offset))
    ends = [c for c in calls_in_body(ph.node) if (dotted(c.func) or "").endswith(".seek") and len(c.args) == 2 and norm(c.args[0]) == "0"
            and norm(c.args[1]) in ("2", "os.SEEK_END", "io.SEEK_END")]
    if len(tells) != 2:
        raise AnalysisError(f"parse_header takes {len(tells)} stream positions (2 expected: end of header, end of file)")
    positions = len(ends) == 1 and fl.cfg.dominates(fl.cfg.node_for(tells[0]), fl.cfg.node_for(ends[0])) and \
        fl.cfg.dominates(fl.cfg.node_for(ends[0]), fl.cfg.node_for(tells[1]))
    recv = dotted(tells[0].func.value)
    T0, T1 = f"{recv}.tell#0()", f"{recv}.tell#1()"
    asg = [e for e in nfp.effects if e.kind == "set" and e.target.endswith("['nsamples']")]
    key = "parse_header:nsamples"
    if not asg:
        raise AnalysisError("parse_header no longer assigns header['nsamples']")
    H = r"\$v\d+"
    bits8 = _re.escape(f"-8*{T0} + 8*{T1}")
    forms = (rf"FloorDiv\(FloorDiv\({bits8}, int\({H}\['nbits'\]\)\), int\({H}\['nchans'\]\)\)",
             rf"FloorDiv\(FloorDiv\({bits8}, int\({H}\['nchans'\]\)\), int\({H}\['nbits'\]\)\)",
             rf"FloorDiv\({bits8}, int\({H}\['nbits'\]\)\*int\({H}\['nchans'\]\)\)",
             rf"FloorDiv\({bits8}, int\({H}\['nchans'\]\)\*int\({H}\['nbits'\]\)\)")
    if positions and len(asg) == 1 and any(_re.fullmatch(f, asg[0].value) for f in forms):
        res.ok("R4", ph, ph.node, "nsamples = 8*(file length - header length) // nbits // nchans (inverse of the writer's packed layout, floor)", key=key,
               construct="nsamples")
    else:
        res.bad("R4", ph, ph.node, f"sample count formula `{asg[0].value}` is not floor(8*datalen/nbits/nchans) with datalen = end of file - end of header",
                key=key, construct="nsamples")
    dl = [e for e in nfp.effects if e.kind == "set" and e.target.endswith("['datalen']")]
    key = "parse_header:datalen"
    if positions and len(dl) == 1 and dl[0].value == f"-1*{T0} + {T1}":
        res.ok("R4", ph, ph.node, "datalen = file length - header length", key=key, construct="datalen")
    else:
        res.bad("R4", ph, ph.node, "datalen is not filelen - hdrlen", key=key, construct="datalen")

    # ---- R5 .inf table ---------------------------------------------------------------------------------------
    table = prog.literal_or_none("sigpyproc.params", "presto_inf") if hasattr(prog, "literal_or_none") else None
    tnode = prog.const("sigpyproc.params", "presto_inf")
    if not isinstance(tnode, ast.Dict):
        raise AnalysisError("presto_inf is not a dict literal")
    entries = {}
    for k, v in zip(tnode.keys, tnode.values):
        if isinstance(k, ast.Constant) and isinstance(v, ast.Tuple) and len(v.elts) == 3 and isinstance(v.elts[0], ast.Constant):
            entries[k.value] = (v.elts[0].value, norm(v.elts[1]), v.elts[2].value if isinstance(v.elts[2], ast.Constant) else None)
    mk = prog.func(HEADER, "Header.make_inf")
    rd = prog.func(HEADER, "Header.from_inffile")
    w_iter = any(isinstance(n, ast.comprehension) and norm(n.iter) == "params.presto_inf.items()" for n in ast.walk(mk.node))
    r_use = "params.presto_inf[desc]" in norm(rd.node) and "params.presto_inf.keys()" in norm(rd.node)
    key = "inf:table"
    if w_iter and r_use:
        res.ok("R5", mk, mk.node, ".inf writer iterates presto_inf and the reader looks every line up in the same table", construct="presto_inf", key=key)
    else:
        res.bad("R5", mk, mk.node, ".inf writer and reader no longer share the presto_inf table", construct="presto_inf", key=key)
    hdr = prog.cls(HEADER, "Header")
    avail = set(hdr.attrs_fields) | {n for n, m in hdr.methods.items() if m.is_property}
    for s in body_walk(mk.node):
        if isinstance(s, ast.Assign) and isinstance(s.targets[0], ast.Subscript) and dotted(s.targets[0].value) == "inf_dict" \
                and isinstance(s.targets[0].slice, ast.Constant):
            avail.add(s.targets[0].slice.value)
    missing = sorted(k for k, _, _ in entries.values() if k not in avail)
    key = "inf:keys"
    if missing:
        res.bad("R5", mk, tnode, f"presto_inf names keys that make_inf cannot supply: {missing}", key=key, construct="presto_inf keys")
    else:
        res.ok("R5", mk, tnode, f"all {len(entries)} presto_inf keys are Header fields/properties or set by make_inf", key=key, construct="presto_inf keys")
    timing = {k: t for k, t, _ in entries.values()}
    key = "inf:timing"
    if all(timing.get(k) == "float" for k in ("tstart", "tsamp", "dm")) and timing.get("nsamples") == "int":
        res.ok("R5", mk, tnode, "tstart, tsamp, dm (float) and nsamples (int) are carried by the .inf table", key=key, construct="presto_inf timing")
    else:
        res.bad("R5", mk, tnode, "the .inf table no longer carries tstart/tsamp/dm as floats and nsamples as int", key=key, construct="presto_inf timing")
    # reader supplies every required Header field
    required = [n for n in hdr.attrs_fields if hdr.fields[n].value is None]
    upd = [s for s in body_walk(rd.node) if isinstance(s, ast.Assign) and norm(s.targets[0]) == "hdr_update"]
    have = set(timing)
    if upd and dict_literal_keys(upd[0].value):
        have |= set(dict_literal_keys(upd[0].value))
    miss = sorted(set(required) - have)
    key = "inf:required"
    if miss:
        res.bad("R5", rd, rd.node, f"from_inffile cannot supply required Header fields {miss}", construct="from_inffile", key=key)
    else:
        res.ok("R5", rd, rd.node, f"from_inffile supplies all {len(required)} required Header fields", construct="from_inffile", key=key)
    from ..report import depends as _depends
    _depends(res, "R5", prog, tier, "C08", accept=lambda o: "to_file" in (o.key or "") or "file-dm" in (o.key or ""),
             why="the DM of a block written with to_file and read back: C08's rules for the DM recorded by to_file and carried by read_block are re-evaluated here")
    _depends(res, "R2", prog, tier, "C02", accept=lambda o: o.rule == "C02.R2" and "read_block" in (o.where or ""),
             why="reading a product back with read_block: every read is positioned by an absolute seek to the sample asked for (C02.R2) - a reader that "
                 "trusts the position a previous call left returns other samples than the ones written")
    res.floor("R1", 1)
    res.floor("R6", 3)
    res.floor("R7", 5)
    res.floor("R2", 6)
    res.floor("R3", 13)
    res.floor("R4", 2)
    res.floor("R5", 4)


F = "sigpyproc/io/fileio.py"
T = "sigpyproc/timeseries.py"
FS = "sigpyproc/fourierseries.py"
H = "sigpyproc/header.py"
MUTANTS = [
    {"id": "c04-no-conversion", "file": F, "expect": "C04.R1",
     "old": "        arr = np.asarray(arr).astype(self.bitsinfo.dtype, copy=False)\n", "new": ""},
    {"id": "c04-convert-only-subbyte", "file": F, "expect": "C04.R1",
     "old": "        arr = np.asarray(arr).astype(self.bitsinfo.dtype, copy=False)\n        if self.bitsinfo.unpack:\n",
     "new": "        if self.bitsinfo.unpack:\n            arr = np.asarray(arr).astype(self.bitsinfo.dtype, copy=False)\n"},
    {"id": "c04-from-tim-offset0", "file": T, "expect": "C04.R2",
     "old": "            offset=header.stream_info.entries[0].hdrlen,\n        )\n        return cls(data, header)", "new": "            offset=0,\n        )\n        return cls(data, header)"},
    {"id": "c04-dat-headered", "file": T, "expect": "C04.R2",
     "old": "        self.data.astype(np.float32, copy=False).tofile(out_filename)\n",
     "new": "        with self.header.prep_outfile(out_filename, nbits=32) as outfile:\n            outfile.cwrite(self.data)\n"},
    {"id": "c04-spec-view-f64", "file": FS, "expect": "C04.R2",
     "old": "            outfile.cwrite(self.data.view(np.float32))", "new": "            outfile.cwrite(self.data.view(np.float64))"},
    {"id": "c04-fft-read-f64", "file": FS, "expect": "C04.R2",
     "old": "        data = np.fromfile(fftpath, dtype=np.float32)", "new": "        data = np.fromfile(fftpath, dtype=np.float64)"},
    {"id": "c04-prep-writer-input-depth", "file": H, "expect": "C04.R3",
     "old": "            mode=\"w+\",\n            nbits=nbits,", "new": "            mode=\"w+\",\n            nbits=self.nbits,"},
    {"id": "c04-revert-F29", "file": H, "expect": "C04.R3",
     "old": "        if nbits is None:\n            nbits = updates.get(\"nbits\", self.nbits)\n        # The header must declare the depth the writer packs with\n        updates = {**updates, \"nbits\": nbits}\n",
     "new": "        if nbits is None:\n            nbits = self.nbits\n        if nbits != self.nbits:\n            updates[\"nbits\"] = nbits\n"},
    {"id": "c04-header-depth-only-when-given", "file": H, "expect": "C04.R3",
     "old": "        updates = {**updates, \"nbits\": nbits}\n", "new": "        updates = {\"nbits\": nbits, **updates}\n"},
    {"id": "c04-nsamples-bytes", "file": "sigpyproc/io/sigproc.py", "expect": "C04.R4",
     "old": "8 * int(header[\"datalen\"]) // int(header[\"nbits\"]) // int(header[\"nchans\"])", "new": "int(header[\"datalen\"]) // int(header[\"nchans\"])"},
    {"id": "c04-inf-drop-dm", "file": "sigpyproc/params.py", "expect": "C04.R5",
     "old": "    \"Dispersion measure (cm-3 pc)\": (\"dm\", float, \".12g\"),\n", "new": ""},
    {"id": "c04-inf-bad-key", "file": "sigpyproc/params.py", "expect": "C04.R5",
     "old": "    \"Telescope used\": (\"telescope\", str, \"s\"),", "new": "    \"Telescope used\": (\"telescope_name\", str, \"s\"),"},
    {"id": "c04-block-tofile-chan-major", "file": "sigpyproc/block.py", "expect": "C04.R2",
     "old": "        out_file.cwrite(self.data.transpose().ravel())", "new": "        out_file.cwrite(self.data.ravel())"},
    {"id": "c04-quantize-keeps-int32", "file": "sigpyproc/io/bits.py", "expect": "C04.R1",
     "edits": [{"file": "sigpyproc/io/bits.py", "old": "        return arr.astype(self.dtype, copy=False)", "new": "        return arr"},
               {"file": F, "old": "        arr = np.asarray(arr).astype(self.bitsinfo.dtype, copy=False)\n", "new": ""}]},
]
MUTANTS += [
    {"id": "c04-digi-max-overflow", "file": "sigpyproc/io/bits.py", "expect": "C04.R7",
     "old": "        return (1 << self.nbits) - 1", "new": "        return 1 << self.nbits"},
    {"id": "c04-quantize-no-clip", "file": "sigpyproc/io/bits.py", "expect": "C04.R7",
     "old": "        np.clip(arr, self.digi_min, self.digi_max, out=arr)\n", "new": ""},
    {"id": "c04-writer-default-bitorder", "file": F, "expect": "C04.R6",
     "old": "            packed = pack(arr, self.bitsinfo.nbits, bitorder=self.bitsinfo.bitorder)", "new": "            packed = pack(arr, self.bitsinfo.nbits)"},
    {"id": "c04-reader-big", "file": F, "expect": "C04.R6",
     "old": "            return unpack(data_ar, self.bitsinfo.nbits, bitorder=self.bitsinfo.bitorder)", "new": "            return unpack(data_ar, self.bitsinfo.nbits, bitorder=\"big\")"},
]
TWINS = [
    {"id": "c04-twin-site-depth-through-updates", "file": "sigpyproc/block.py",
     "old": "        out_file = self.header.prep_outfile(filename, updates=updates, nbits=32)", "new": "        out_file = self.header.prep_outfile(filename, updates=updates)"},
    {"id": "c04-twin-prep-store-form", "file": H,
     "old": "        updates = {**updates, \"nbits\": nbits}\n", "new": "        updates = dict(updates)\n        updates[\"nbits\"] = nbits\n"},
    {"id": "c04-twin-guard-form", "file": F,
     "old": "        arr = np.asarray(arr).astype(self.bitsinfo.dtype, copy=False)\n",
     "new": "        if arr.dtype != self.bitsinfo.dtype:\n            msg = \"dtype mismatch\"\n            raise ValueError(msg)\n"},
    {"id": "c04-twin-local", "file": F,
     "old": "        arr = np.asarray(arr).astype(self.bitsinfo.dtype, copy=False)\n",
     "new": "        out = np.asarray(arr).astype(self.bitsinfo.dtype, copy=False)\n        arr = out\n"},
]
