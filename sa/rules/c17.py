"""C17 - re-tuning a folded cube depends only on the target (history independence proof)."""
from __future__ import annotations

import ast

from ..cfg import simple_paths
from ..dataflow import flow_of
from ..model import AnalysisError, ClassInfo, FuncInfo, Program, body_walk, calls_in_body, dotted, norm, parent
from ..poly import Poly, PolyEnv, Rat, RatEnv
from ..report import Result

TITLE = "Re-tuning a folded cube depends only on the target DM/period, not the history"
LEVEL = "proof"
TECHNIQUE = "static analysis: effect (field-write) analysis + path-wise symbolic telescoping invariant + data/control dependence"
EXPLANATION = (
    "Static induction argument over FoldedData: (R1) outside __init__ the class assigns only the shift accumulators and "
    "the reported dm/period; (R3) on every path of each step getter the returned step equals new-accumulator minus "
    "old-accumulator (telescoping), so the cumulative rotation always equals the accumulator; (R2) the new accumulator "
    "value T(target), including the branch conditions that select it, depends only on the argument and on state that "
    "is never written after construction (frozen header, array shapes, folding values), and vanishes when the target "
    "equals the folding value; (R4) update_dm/update_period rotate every (subint, subband) profile with np.roll by "
    "exactly that step, indexed by the axis the accumulator was sized for, and then store the target as the reported "
    "value; (R5) no other method mutates the cube in place (replace_nan is the one documented exception). By induction "
    "the cube after any update sequence is the folded cube rotated by T(last target): idempotent, history independent, "
    "and bit-identical to the original at the folding values; np.roll preserves each profile's multiset. "
    "Since F34, R4 also forbids an unqualified squeeze where the steps come from (params.compute_dmdelays, foldedcube): with one sub-band the step array must stay 1-D."
)
MOD = "sigpyproc.foldedcube"
CLS = "FoldedData"
DATA_MUTATION_EXCEPTIONS = {"replace_nan": "replaces NaNs by the median; documented, not a rotation"}


def field_of_property(prog: Program, cls: ClassInfo, name: str) -> str | None:
    """`self.<name>` -> underlying expression text if <name> is a trivial property (`return self._x...`)."""
    for c in prog.mro(cls):
        m = c.methods.get(name)
        if m is not None and m.is_property:
            rets = [s for s in body_walk(m.node) if isinstance(s, ast.Return) and s.value is not None]
            if len(rets) == 1:
                return norm(rets[0].value)
            return None
    return None


def resolve_leaf(prog: Program, cls: ClassInfo, d: str, depth: int = 0) -> str:
    """Rewrite `self.prop.rest` through trivial properties to `self._field.rest`."""
    parts = d.split(".")
    if depth > 5 or parts[0] != "self" or len(parts) < 2:
        return d
    und = field_of_property(prog, cls, parts[1])
    if und is None:
        return d
    # und is like `self._dm` or `self.data.shape[2]`
    base = und
    rest = ".".join(parts[2:])
    new = base + ("." + rest if rest else "")
    head = new.split("[")[0]
    return resolve_leaf(prog, cls, head, depth + 1) + new[len(head):]


def run(prog: Program, res: Result, tier: str) -> None:
    cls = prog.cls(MOD, CLS)
    prog.consulted.update({MOD, "sigpyproc.header", "sigpyproc.params"})
    init = cls.methods.get("__init__")
    if init is None:
        raise AnalysisError("FoldedData.__init__ not found")

    # ---- field writes ------------------------------------------------------------
    writes: dict[str, list[tuple[FuncInfo, ast.AST]]] = {}
    inplace: dict[str, list[tuple[FuncInfo, ast.AST]]] = {}
    for m in cls.methods.values():
        for sub in body_walk(m.node):
            if isinstance(sub, ast.Attribute) and isinstance(sub.ctx, ast.Store) and dotted(sub.value) == "self":
                writes.setdefault(sub.attr, []).append((m, sub))
            if isinstance(sub, ast.Subscript) and isinstance(sub.ctx, ast.Store):
                b = sub
                while isinstance(b, ast.Subscript):
                    b = b.value
                d = dotted(b)
                if d and d.startswith("self."):
                    inplace.setdefault(resolve_leaf(prog, cls, d), []).append((m, sub))
            if isinstance(sub, ast.Call) and isinstance(sub.func, ast.Attribute) and sub.func.attr in ("fill", "sort", "resize"):
                d = dotted(sub.func.value)
                if d and d.startswith("self."):
                    inplace.setdefault(resolve_leaf(prog, cls, d), []).append((m, sub))
    mutable = {f for f, sites in writes.items() if any(m.name != "__init__" for m, _ in sites)}
    mutable |= {d.split(".")[1] for d, sites in inplace.items() if any(m.name != "__init__" for m, _ in sites)}

    # ---- discover update methods and getters -----------------------------------------
    updates = []
    for m in cls.methods.values():
        rolls = [c for c in calls_in_body(m.node) if dotted(c.func) in ("np.roll", "numpy.roll")]
        fm = flow_of(m)
        stores = [s for s in body_walk(m.node) if isinstance(s, ast.Assign) and isinstance(s.targets[0], ast.Subscript)
                  and (dotted(_sub_base(fm.expand(s.targets[0], fm.cfg.node_for(s)))) or "").startswith("self.")]
        if rolls and stores:
            updates.append(m)
    # the public re-tuning entry points must be among them: one that stores into the cube without np.roll is not a rotation
    for nm_ in ("update_dm", "update_period"):
        m_ = cls.methods.get(nm_)
        if m_ is not None and m_ not in updates:
            fm_ = flow_of(m_)
            st_ = [s for s in body_walk(m_.node) if isinstance(s, ast.Assign) and isinstance(s.targets[0], ast.Subscript)
                   and (dotted(_sub_base(fm_.expand(s.targets[0], fm_.cfg.node_for(s)))) or "").startswith("self.")]
            res.bad("R4", m_, st_[0] if st_ else m_.node, f"{nm_} changes the cube without np.roll: only a cyclic rotation by the step (modulo nbins, any number of turns) "
                    "keeps each profile's values and composes with the recorded shifts", key=f"{nm_}:rotate")
    if len(updates) < 2 and not res.violations():
        raise AnalysisError(f"expected >= 2 in-place rotating update methods in FoldedData, found {len(updates)}")
    header_frozen = any("frozen" in d for d in prog.cls("sigpyproc.header", "Header").decorators)
    hdr_node = prog.cls("sigpyproc.header", "Header").node
    (res.ok if header_frozen else res.bad)(
        "R2", None, hdr_node, "Header is a frozen attrs class: header fields cannot change after construction"
        if header_frozen else "Header is no longer frozen: header-derived state is mutable", construct="Header",
        key="header-frozen", where="sigpyproc.header::Header")

    getters = {}
    signs = {}
    for up in updates:
        flow = flow_of(up)
        arg = [p for p in up.params if p != "self"]
        if len(arg) != 1:
            res.bad("R4", up, up.node, "update method does not take exactly one target argument", construct=up.name, key=up.name)
            continue
        arg = arg[0]
        roll_stores = [s for s in body_walk(up.node) if isinstance(s, ast.Assign) and isinstance(s.targets[0], ast.Subscript) and
                       isinstance(flow.expand(s.value, flow.cfg.node_for(s)), ast.Call)
                       and dotted(flow.expand(s.value, flow.cfg.node_for(s)).func) in ("np.roll", "numpy.roll")]
        if len(roll_stores) != 1:
            res.bad("R4", up, up.node, "expected exactly one rotation store", construct=up.name, key=up.name)
            continue
        st = roll_stores[0]
        # look through views and temporaries (`row = self.data[i]; row[j] = np.roll(prof, shift)`); the loop variables stay
        lvs = {n.id for l in ast.walk(up.node) if isinstance(l, ast.For) for n in ast.walk(l.target) if isinstance(n, ast.Name)}
        tgt = flow.expand(st.targets[0], flow.cfg.node_for(st), stop=lvs)
        call = flow.expand(st.value, flow.cfg.node_for(st), stop=lvs | {d.var for d in flow.defs if d.kind == "assign" and isinstance(d.value, ast.Call)
                                                                         and (dotted(d.value.func) or "").startswith("self._get")})
        # np.roll(a, shift, axis) in positional form, whatever was passed by keyword
        pos_ = list(call.args)
        for nm_ in ("a", "shift")[len(pos_):]:
            kw_ = next((k for k in call.keywords if k.arg == nm_), None)
            if kw_ is None:
                break
            pos_.append(kw_.value)
        call = ast.Call(func=call.func, args=pos_, keywords=[k for k in call.keywords if k.arg not in ("a", "shift")[len(call.args):len(pos_)]])
        # a full-slice store into a view (`profile[:] = ...`) writes the element itself
        while isinstance(tgt, ast.Subscript) and isinstance(tgt.slice, ast.Slice) and tgt.slice.lower is None \
                and tgt.slice.upper is None and tgt.slice.step is None:
            tgt = tgt.value
        # same element read and written
        okel = len(call.args) >= 2 and norm(call.args[0]) == norm(tgt)
        # loops over all (subint, subband)
        loops = []
        cur = parent(st)
        while cur is not None and cur is not up.node:
            if isinstance(cur, ast.For):
                loops.append(cur)
            cur = parent(cur)

        def extent(l: ast.For) -> str | None:
            if not (isinstance(l.iter, ast.Call) and dotted(l.iter.func) == "range" and len(l.iter.args) == 1
                    and isinstance(l.target, ast.Name)):
                return None
            a0 = l.iter.args[0]
            if isinstance(a0, ast.Call) and dotted(a0.func) == "len" and len(a0.args) == 1:
                # len(cube) / len(cube[i]) with i an enclosing loop variable: the extent of axis 0 / 1
                seq = flow.expand(a0.args[0], flow.cfg.node_for(l), stop=lvs)
                depth = 0
                while isinstance(seq, ast.Subscript) and norm(seq.slice) in lvs:
                    seq, depth = seq.value, depth + 1
                base = resolve_leaf(prog, cls, norm(seq)) if dotted(seq) else None
                return f"{base}.shape[{depth}]" if base == "self._data" else None
            return resolve_leaf(prog, cls, norm(a0))
        ranges = {norm(l.target): extent(l) for l in loops}
        idx_text = _subscripts(tgt)
        base_ok = resolve_leaf(prog, cls, norm(_sub_base(tgt)) or "") == "self._data"
        axis_kw = [k for k in call.keywords if k.arg == "axis"]
        axis = axis_kw[0].value.value if axis_kw and isinstance(axis_kw[0].value, ast.Constant) else (None if axis_kw else 0)
        full = okel and base_ok and len(loops) == 2 and sorted(idx_text) == sorted(ranges) and set(ranges.values()) == {
            "self._data.shape[0]", "self._data.shape[1]"} and idx_text[0] in ranges and ranges[idx_text[0]] == "self._data.shape[0]" \
            and axis in (0, -1)
        # one loop over the sub-integrations rotating each whole (subband, phase) plane along its phase axis: every
        # profile of the plane gets the same step, which is right only when the step is indexed by the sub-integration
        plane = okel and base_ok and len(loops) == 1 and idx_text == list(ranges) and \
            set(ranges.values()) == {"self._data.shape[0]"} and axis in (1, -1)
        key = f"{up.name}:rotate"
        if not (full or plane):
            res.bad("R4", up, st, "the rotation is not applied to every (subint, subband) profile of the cube in place", key=key)
            continue
        shift = call.args[1]
        sign = +1
        if isinstance(shift, ast.UnaryOp) and isinstance(shift.op, ast.USub):
            sign, shift = -1, shift.operand
        if not (isinstance(shift, ast.Subscript) and isinstance(shift.value, ast.Name) and norm(shift.slice) in ranges):
            res.bad("R4", up, st, "rotation amount is not step[<loop variable>]", key=key)
            continue
        step_name = shift.value.id
        ds = flow.reaching(step_name, flow.cfg.node_for(st))
        if len(ds) != 1 or not isinstance(ds[0].value, ast.Call) or not (dotted(ds[0].value.func) or "").startswith("self."):
            res.bad("R4", up, st, "rotation step does not come from a single getter call", key=key)
            continue
        gcall = ds[0].value
        gname = dotted(gcall.func).split(".", 1)[1]
        if gname not in cls.methods or len(gcall.args) != 1 or norm(gcall.args[0]) != arg:
            res.bad("R4", up, gcall, "the step getter is not called with the update's own argument", key=key)
            continue
        getters[up.name] = (cls.methods[gname], ranges[norm(shift.slice)], up, arg)
        signs[up.name] = sign
        res.ok("R4", up, st, f"every profile is rotated in place by np.roll(profile, {'-' if sign < 0 else '+'}step[{norm(shift.slice)}])"
               f" with step = self.{gname}({arg})", key=key)
        # reported value stored after the rotation on all paths
        reported = [s for s in body_walk(up.node) if isinstance(s, ast.Assign) and dotted(s.targets[0]) and
                    dotted(s.targets[0]).startswith("self._") and norm(s.value) == arg]
        cfg = flow.cfg
        key = f"{up.name}:reported"
        if len(reported) == 1 and cfg.must_pass(cfg.entry, cfg.exit, {cfg.node_for(reported[0])}) and \
                cfg.dominates(cfg.node_for(gcall), cfg.node_for(reported[0])):
            res.ok("R4", up, reported[0], "the reported value is set to the target after the step is computed, on every path", key=key)
        else:
            res.bad("R4", up, up.node, "the reported value is not set to the target on every path after the rotation",
                    construct=up.name, key=key)
    if len(set(signs.values())) > 1:
        anyup = updates[0]
        res.bad("R4", anyup, anyup.node, f"update methods disagree on the rotation direction: {signs}", construct="sign", key="sign")

    # ---- getters: telescoping invariant and dependence ------------------------------------
    accs = set()
    for upname, (g, acc_extent, up, uparg) in getters.items():
        flow = flow_of(g)
        cfg = flow.cfg
        garg = [p for p in g.params if p != "self"][0]
        paths = simple_paths(cfg, cfg.entry, {cfg.exit})
        if not paths:
            raise AnalysisError(f"{g.ident}: no path to a return")
        for pi, path in enumerate(paths):
            env: dict[str, Poly] = {}
            field_src: dict[str, tuple[ast.AST | None, int]] = {}
            conds: list[tuple[ast.AST, int]] = []
            ret = None
            penv = lambda: PolyEnv(dict(env))  # noqa: E731
            for a, b in zip(path, path[1:] + [None]):
                node = cfg.ast[a]
                kind = cfg.kind[a]
                if kind == "test":
                    conds.append((node.test, a))
                elif kind == "stmt":
                    if isinstance(node, ast.Assign) and len(node.targets) == 1:
                        t = node.targets[0]
                        if isinstance(t, ast.Name):
                            env[t.id] = penv().poly(node.value)
                        elif dotted(t) and dotted(t).startswith("self."):
                            env[dotted(t)] = penv().poly(node.value)
                            field_src[dotted(t)] = (node.value, a)
                    elif isinstance(node, ast.Expr) and isinstance(node.value, ast.Call) and isinstance(node.value.func, ast.Attribute) \
                            and node.value.func.attr == "fill" and dotted(node.value.func.value) and len(node.value.args) == 1:
                        f = dotted(node.value.func.value)
                        env[f] = penv().poly(node.value.args[0])
                        field_src[f] = (node.value.args[0], a)
                    elif isinstance(node, ast.Return):
                        ret = (penv().poly(node.value) if node.value is not None else None, node)
            key = f"{g.name}:path{pi}:" + ("|".join(norm(c) for c, _ in conds) or "straight")
            if ret is None or ret[0] is None:
                res.bad("R3", g, g.node, "a path returns no step", construct=g.name, key=key)
                continue
            written = [f for f in field_src]
            if len(written) != 1:
                res.bad("R3", g, ret[1], f"path writes fields {written}; exactly one accumulator must be updated together "
                        f"with the returned step", key=key)
                continue
            acc = written[0]
            accs.add(acc.split(".", 1)[1])
            acc_new = env[acc]
            acc_old = Poly.sym(acc)
            resid = ret[0] + acc_old - acc_new
            if resid.is_zero():
                res.ok("R3", g, ret[1], f"returned step = new {acc} - old {acc} (telescoping): cumulative rotation == {acc}", key=key)
            else:
                res.bad("R3", g, ret[1], f"returned step is not (new {acc}) - (old {acc}); residual {resid.canon()[:120]}: "
                        f"the cumulative rotation drifts away from the accumulator", key=key)
            # accumulator sized for the axis it is indexed by in the update
            # R2: T depends only on argument + immutable state (data + control)
            leaves: set[str] = set()
            src_expr, src_node = field_src[acc]
            for d in flow.deps(src_expr, src_node):
                leaves.add(d)
            for c, cn in conds:
                leaves |= flow.deps(c, cn)
            bad_leaves = []
            for d in sorted(leaves):
                if not d.startswith("self.") or d.startswith("call:"):
                    continue
                r = resolve_leaf(prog, cls, d)
                parts = r.split(".")
                field = parts[1].split("[")[0]
                if r.startswith("self._data.shape") or r.startswith("self.data.shape"):
                    continue
                if field == acc.split(".")[1]:
                    bad_leaves.append(f"{d} (the accumulator itself)")
                elif field in mutable:
                    bad_leaves.append(f"{d} -> self.{field} (assigned after construction in "
                                      f"{sorted({m.name for m, _ in writes.get(field, []) if m.name != '__init__'})})")
                elif field in cls.methods and not cls.methods[field].is_property:
                    continue
            key2 = f"{g.name}:deps:" + ("|".join(norm(c) for c, _ in conds) or "straight")
            if bad_leaves:
                res.bad("R2", g, src_expr if isinstance(src_expr, ast.AST) and hasattr(src_expr, "lineno") else g.node,
                        f"the new accumulator value (or the branch selecting it) depends on mutable state: {bad_leaves}; "
                        f"the cumulative rotation then depends on the update history, not only on the target", key=key2,
                        construct=norm(src_expr))
            else:
                res.ok("R2", g, g.node, f"path [{' & '.join(norm(c) for c, _ in conds) or 'unconditional'}]: new {acc} depends "
                       f"only on '{garg}' and construction-time state", construct=g.name, key=key2)
        # zero at the folding value: the subject of a `== 0` test vanishes for target == immutable field
        def _zero_test(t: ast.AST) -> ast.AST | None:
            """The subject X of a test that distinguishes X == 0 from X != 0 (either polarity, either operand order)."""
            while isinstance(t, ast.UnaryOp) and isinstance(t.op, ast.Not):
                t = t.operand
            if isinstance(t, ast.Compare) and len(t.ops) == 1 and isinstance(t.ops[0], (ast.Eq, ast.NotEq)):
                if norm(t.comparators[0]) in ("0", "0.0"):
                    return t.left
                if norm(t.left) in ("0", "0.0"):
                    return t.comparators[0]
            return None

        tests = [s for s in body_walk(g.node) if isinstance(s, ast.If) and _zero_test(s.test) is not None]
        key = f"{g.name}:zero"
        if len(tests) != 1:
            res.bad("R3b", g, g.node, "no single `delta == 0` restore branch", construct=g.name, key=key)
        else:
            subj = flow.expand(_zero_test(tests[0].test), cfg.node_for(tests[0]))
            r = RatEnv().rat(subj)
            ok = None
            for s in sorted(r.n.symbols()):
                if s.startswith("self.") and s != f"self.{garg}":
                    if r.n.subst(garg, Poly.sym(s)).is_zero():
                        field = resolve_leaf(prog, cls, s).split(".")[1]
                        ok = (s, field)
                        break
            if ok is None:
                res.bad("R3b", g, tests[0], f"`{norm(subj)} == 0` does not vanish when the target equals a stored value", key=key)
            elif ok[1] in mutable:
                res.bad("R3b", g, tests[0], f"the restore branch fires when the target equals {ok[0]}, which is overwritten by "
                        f"every update (not the folding value)", key=key)
            else:
                res.ok("R3b", g, tests[0], f"restore branch fires exactly at target == {ok[0]} (construction-time folding value)", key=key)

    # accumulator allocation matches the axis used to index the step
    for upname, (g, extent, up, _) in getters.items():
        flow = flow_of(g)
        acc_fields = {dotted(t) for s in body_walk(g.node) if isinstance(s, ast.Assign) for t in s.targets
                      if dotted(t) and dotted(t).startswith("self.")}
        for af in sorted(acc_fields):
            name = af.split(".", 1)[1]
            alloc = [s for s in body_walk(init.node) if isinstance(s, ast.Assign) and dotted(s.targets[0]) == af]
            key = f"{up.name}:{name}:size"
            if len(alloc) == 1 and isinstance(alloc[0].value, ast.Call) and dotted(alloc[0].value.func) in ("np.zeros",) \
                    and alloc[0].value.args and resolve_leaf(prog, cls, norm(alloc[0].value.args[0])) == extent:
                res.ok("R4", init, alloc[0], f"{af} starts at zero with one entry per index of the axis that {up.name} indexes", key=key)
            else:
                res.bad("R4", init, alloc[0] if alloc else init.node, f"{af} is not a zero array sized for the axis "
                        f"({extent}) that {up.name} indexes the step with", key=key, construct=af)

    # ---- R1: fields written outside __init__ ----------------------------------------------
    allowed = set(accs)
    for up in updates:
        for s in body_walk(up.node):
            if isinstance(s, ast.Assign) and dotted(s.targets[0]) and dotted(s.targets[0]).startswith("self._"):
                allowed.add(dotted(s.targets[0]).split(".", 1)[1])
    for f in sorted(mutable):
        sites = [(m, n) for m, n in writes.get(f, []) if m.name != "__init__"]
        sites += [(m, n) for d, ss in inplace.items() if d.split(".")[1] == f for m, n in ss if m.name != "__init__"]
        for m, n in sites:
            key = f"{f}@{m.name}"
            if f == "_data":
                continue  # handled by R5
            if f in allowed and (m in updates or m in [g for g, *_ in getters.values()]):
                res.ok("R1", m, n, f"self.{f} is an accumulator / reported value written by the update machinery", key=key)
            else:
                res.bad("R1", m, n, f"self.{f} is assigned outside __init__ by {m.name}: state the rotation target may "
                        f"depend on is no longer fixed at construction", key=key)

    # ---- R5: no other in-place mutation of the cube ----------------------------------------------
    for d, ss in inplace.items():
        if d.split(".")[1] != "_data":
            continue
        for m, n in ss:
            key = f"data@{m.name}"
            if m in updates:
                res.ok("R5", m, n, "in-place rotation by the update method", key=key)
            elif m.name in DATA_MUTATION_EXCEPTIONS:
                res.ok("R5", m, n, f"named exception: {DATA_MUTATION_EXCEPTIONS[m.name]}", key=key)
            else:
                res.bad("R5", m, n, f"{m.name} modifies the cube in place outside the update methods", key=key)
    res.trusted_base += ["np.roll(x, s) is a cyclic permutation of x; rotations compose additively modulo nbins"]
    res.assumptions += ["replace_nan is a documented non-rotation mutation and is outside the property's update sequences"]
    # ---- R2 (cont.) the DM steps are computed by params.compute_dmdelays: its law, constant, rounding and shape rules (C09.R2) --------
    from ..report import depends
    depends(res, "R2", prog, tier, "C09", accept=lambda o: "compute_dmdelays" in (o.where or ""),
            why="update_dm rotates by compute_dmdelays(subband freqs, dm - ref_dm): C09's rules for that function are re-evaluated here")
    # ---- R4 (cont.) the step arrays have one entry per index of the axis they are indexed with, also when that axis has length 1:
    # no unqualified squeeze where the DM steps come from (F34: a one-sub-band cube got a 0-d step array) ----------------------
    from ..lints import check_no_bare_squeeze
    check_no_bare_squeeze(prog, res, "R4", ["sigpyproc.params", MOD], "with one sub-band the step array becomes 0-d and `step[isubband]` "
                          "fails on the second update")
    res.floor("R3", 4)
    res.floor("R2", 5)
    res.floor("R4", 6)
    res.floor("R3b", 2)


def _sub_base(t: ast.AST) -> ast.AST:
    while isinstance(t, ast.Subscript):
        t = t.value
    return t


def _subscripts(t: ast.AST) -> list[str]:
    out = []
    while isinstance(t, ast.Subscript):
        out.append(norm(t.slice))
        t = t.value
    return list(reversed(out))


F = "sigpyproc/foldedcube.py"
MUTANTS = [
    {"id": "c17-revert-F34", "file": "sigpyproc/params.py", "expect": "C17.R4",
     "old": "    # Only the DM axis of a scalar DM is dropped: one channel stays a 1D array\n    return delays[0] if scalar_dm else delays\n", "new": "    return delays.squeeze()\n"},
    {"id": "c17-steps-squeezed-in-getter", "file": F, "expect": "C17.R4",
     "old": "        delta_dm = newdm - self._ref_dm\n", "new": "        delta_dm = np.squeeze(newdm - self._ref_dm)\n"},
    {"id": "c17-delta-vs-reported-dm", "file": F, "expect": "C17.R",
     "old": "delta_dm = newdm - self._ref_dm", "new": "delta_dm = newdm - self.dm"},
    {"id": "c17-binwidth-from-reported-period", "file": F, "expect": "C17.R2",
     "old": "tsamp = self._ref_period / self.nbins", "new": "tsamp = self.period / self.nbins"},
    {"id": "c17-pdelays-reported-period", "file": F, "expect": "C17.R",
     "old": "            (newperiod / self._ref_period - 1)\n", "new": "            (newperiod / self._period - 1)\n"},
    {"id": "c17-forget-subtract", "file": F, "expect": "C17.R3",
     "old": "        bin_drifts = drifts - self._fph_shifts\n        self._fph_shifts = drifts\n        return bin_drifts",
     "new": "        bin_drifts = drifts\n        self._fph_shifts = drifts\n        return bin_drifts"},
    {"id": "c17-forget-acc-update", "file": F, "expect": "C17.R3",
     "old": "        bin_drifts = drifts - self._tph_shifts\n        self._tph_shifts = drifts\n        return bin_drifts",
     "new": "        bin_drifts = drifts - self._tph_shifts\n        return bin_drifts"},
    {"id": "c17-restore-no-reset", "file": F, "expect": "C17.R3",
     "old": "            drifts = -1 * self._fph_shifts\n            self._fph_shifts.fill(0)\n            return drifts",
     "new": "            drifts = -1 * self._fph_shifts\n            return drifts"},
    {"id": "c17-wrong-axis", "file": F, "expect": "C17.R4",
     "old": "                    -dmdelays[isubband],", "new": "                    -dmdelays[isubint],"},
    {"id": "c17-sign-disagree", "file": F, "expect": "C17.R4",
     "old": "                    -pdelays[isubint],", "new": "                    pdelays[isubint],"},
    {"id": "c17-reported-not-set", "file": F, "expect": "C17.R4",
     "old": "                    axis=0,\n                )\n        self._dm = dm", "new": "                    axis=0,\n                )"},
    {"id": "c17-ref-mutated", "file": F, "expect": "C17.R",
     "old": "    def replace_nan(self) -> None:", "new": "    def rebase(self) -> None:\n        self._ref_dm = self._dm\n\n    def replace_nan(self) -> None:"},
    {"id": "c17-partial-rotation", "file": F, "expect": "C17.R4",
     "old": "        dmdelays = self._get_dmdelays(dm)\n        for isubint in range(self.nsubints):",
     "new": "        dmdelays = self._get_dmdelays(dm)\n        for isubint in range(self.nsubints - 1):"},
    {"id": "c17-extra-inplace", "file": F, "expect": "C17.R5",
     "old": "    def replace_nan(self) -> None:", "new": "    def clip(self) -> None:\n        self.data[self.data < 0] = 0\n\n    def replace_nan(self) -> None:"},
    {"id": "c17-half-step", "file": F, "expect": "C17.R3",
     "old": "        bin_drifts = drifts - self._fph_shifts\n", "new": "        bin_drifts = (drifts - self._fph_shifts) // 2\n"},
    {"id": "c17-plane-roll-wrong-axis", "file": F, "expect": "C17.R4", "old": '        for isubint in range(self.nsubints):\n            for isubband in range(self.nsubbands):\n                self.data[isubint][isubband] = np.roll(\n                    self.data[isubint][isubband],\n                    -pdelays[isubint],\n                    axis=0,\n                )\n',
     "new": "        for isubint in range(self.nsubints):\n            self.data[isubint] = np.roll(self.data[isubint], -pdelays[isubint], axis=0)\n"},
    {"id": "c17-plane-roll-dm-by-subint", "file": F, "expect": "C17.R4", "old": '        for isubint in range(self.nsubints):\n            for isubband in range(self.nsubbands):\n                self.data[isubint][isubband] = np.roll(\n                    self.data[isubint][isubband],\n                    -dmdelays[isubband],\n                    axis=0,\n                )\n',
     "new": "        for isubint in range(self.nsubints):\n            self.data[isubint] = np.roll(self.data[isubint], -dmdelays[isubint], axis=1)\n"},
    {"id": "c17-views-skip-first-subband", "file": F, "expect": "C17.R4", "old": '        for isubint in range(self.nsubints):\n            for isubband in range(self.nsubbands):\n                self.data[isubint][isubband] = np.roll(\n                    self.data[isubint][isubband],\n                    -dmdelays[isubband],\n                    axis=0,\n                )\n',
     "new": "        for subint in self.data:\n            for isubband, profile in enumerate(subint[1:]):\n                profile[:] = np.roll(profile, -dmdelays[isubband], axis=0)\n"},
]
TWINS = [
    {"id": "c17-twin-inline", "file": F,
     "old": "        bin_drifts = drifts - self._fph_shifts\n        self._fph_shifts = drifts\n        return bin_drifts",
     "new": "        step = -self._fph_shifts + drifts\n        self._fph_shifts = drifts\n        return step"},
    {"id": "c17-twin-neg", "file": F,
     "old": "            drifts = -1 * self._tph_shifts\n", "new": "            drifts = -self._tph_shifts\n"},
    {"id": "c17-twin-local-ref", "file": F,
     "old": "        delta_dm = newdm - self._ref_dm\n", "new": "        ref = self._ref_dm\n        delta_dm = newdm - ref\n"},
    {"id": "c17-twin-element-views", "file": F, "old": '        for isubint in range(self.nsubints):\n            for isubband in range(self.nsubbands):\n                self.data[isubint][isubband] = np.roll(\n                    self.data[isubint][isubband],\n                    -dmdelays[isubband],\n                    axis=0,\n                )\n',
     "new": "        for subint in self.data:\n            for isubband, profile in enumerate(subint):\n                profile[:] = np.roll(profile, -dmdelays[isubband], axis=0)\n"},
    {"id": "c17-twin-zip-views", "file": F, "old": '        for isubint in range(self.nsubints):\n            for isubband in range(self.nsubbands):\n                self.data[isubint][isubband] = np.roll(\n                    self.data[isubint][isubband],\n                    -pdelays[isubint],\n                    axis=0,\n                )\n',
     "new": "        for subint, pdelay in zip(self.data, pdelays, strict=True):\n            for profile in subint:\n                profile[:] = np.roll(profile, -pdelay, axis=0)\n"},
    {"id": "c17-twin-plane-roll", "file": F, "old": '        for isubint in range(self.nsubints):\n            for isubband in range(self.nsubbands):\n                self.data[isubint][isubband] = np.roll(\n                    self.data[isubint][isubband],\n                    -pdelays[isubint],\n                    axis=0,\n                )\n',
     "new": "        for isubint in range(self.nsubints):\n            self.data[isubint] = np.roll(self.data[isubint], -pdelays[isubint], axis=1)\n"},
]
