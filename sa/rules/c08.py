"""C08 - output metadata describes the output data (structural clauses)."""
from __future__ import annotations

import ast
from fractions import Fraction

from ..dataflow import flow_of
from ..model import AnalysisError, FuncInfo, Program, body_walk, calls_in_body, dotted, norm, parent
from ..poly import Poly, PolyEnv
from ..props import transparent_casts
from ..report import Result
from ..normalform import canon, normal_form, returned
from ..stream import dict_literal_keys, plan_loops, prep_calls, with_range_len

TITLE = "Output metadata describes the output data"
LEVEL = "other"
TECHNIQUE = ("static analysis: length-provenance dataflow for header nsamples, start->tstart dependence, header key/field "
             "agreement, frequency-label span algebra, unit lints on MHz quantities")
EXPLANATION = (
    "For every construction of a TimeSeries / FilterbankBlock / DMTBlock and every prepared output file the check decides: "
    "(R1) when the array's length is set explicitly in the function (allocated, padded, sliced, or returned by a "
    "length-changing kernel) the header update carries nsamples derived from that same length; (R2) every API that takes "
    "`start` and returns a time-ordered product or prepares an output file sets tstart = header.mjd_after_nsamps(start); "
    "(R3) every literal key of a header update is a real Header field (others are silently dropped by new_header); (R4) "
    "the new fch1/foff of each derived product, written as fch1 + a*foff and b*foff, has the definitional (a, b): selection "
    "a = first selected channel, b = 1; inversion a = nchans-1, b = -1; k summed/averaged inputs 0 <= a <= k-1, b = k; (R5) "
    "no floor division on an MHz quantity and no truncating int() of a frequency ratio used as a channel index; (R6) tsamp, "
    "nchans and foff of decimated products are scaled by the same factors as the data, and the DM applied is recorded. Not "
    "decided: the 5 microsecond accuracy of mjd_after_nsamps. "
    "Since F39-F41 and F49: the sub-band slice of read_block is known to lie inside the band and its nchans / fch1 are the length and first channel of the slice (R1/R4); every block derived from a FilterbankBlock carries its DM and to_file records it (R6); valid-samples dedispersion advances tstart by the samples it drops, streamed products by the lead of their delays (R2); the .inf low-channel frequency and the fch1 rebuilt from it are mutually inverse for either sign of foff (R4)."
    " Since F56-F58: pad_samples moves tstart back by the padding offset (R2); a block read from a file carries the file's reference DM, and dedisperse / dmt_transform shift by the delays of (label - this block's DM) (R6)."
)
HEADER = "sigpyproc.header"
CONTAINERS = {"TimeSeries", "FilterbankBlock", "DMTBlock"}
SCOPE = ["sigpyproc.base", "sigpyproc.readers", "sigpyproc.block", "sigpyproc.timeseries", "sigpyproc.fourierseries"]
LENGTH_CHANGING = {
    # callee suffix -> how the new length may legitimately be written
    "downsample_1d": "len", "pad": "len", "resample_tim": "len", "fftconvolve": "len", "roll_block_valid": "len",
    "dmt_block_valid": "len", "downsample_2d": "formula", "cread": "len", "read_subints": "len",
}
TSTART_EXCEPTIONS = {
    "Filterbank.bandpass": "its product is a spectrum (one value per channel), not a time-ordered series",
    "Filterbank.fold": "a FoldedData cube is not in the property's list of time-domain products",
    "Filterbank.compute_stats": "no product of its own",
    "Filterbank.compute_stats_basic": "no product of its own",
    "Filterbank.clean_rfi": "delegates to apply_channel_mask, which is checked",
    "FilReader.read_plan": "yields raw blocks, no header",
    "PFITSReader.read_plan": "yields raw blocks, no header",
    "Filterbank.read_plan": "abstract",
    "Filterbank.read_block": "abstract",
    "Filterbank.read_dedisp_block": "abstract",
    "PFITSReader.read_dedisp_block": "not implemented (raises)",
}
FREQ_ATTRS = ("foff", "fch1", "ftop", "fbottom", "fcenter", "fmax", "fmin", "bandwidth")


def _update_dict(flow, call: ast.Call, argname: str | None):
    """Literal dict passed to new_header(arg0) / prep_outfile(updates=...), following one local name."""
    v = None
    if argname is None:
        v = call.args[0] if call.args else None
    else:
        for kw in call.keywords:
            if kw.arg == argname:
                v = kw.value
    if v is None:
        return {}, None
    node = v
    if isinstance(v, ast.Name):
        ds = [d for d in flow.reaching(v.id, flow.cfg.node_for(call)) if d.kind == "assign"]
        if len(ds) == 1:
            node = ds[0].value
    d = dict_literal_keys(node)
    if d is None and isinstance(node, ast.Dict) and any(k is None for k in node.keys) and any(k is not None for k in node.keys):
        # {**forwarded, 'key': value}: the literal keys are checked here, the forwarded mapping where it is built
        lit = ast.Dict(keys=[k for k in node.keys if k is not None], values=[v for k, v in zip(node.keys, node.values) if k is not None])
        d = dict_literal_keys(lit)
        if d is not None and all(_forwards_parameter(flow, v) for k, v in zip(node.keys, node.values) if k is None):
            return d, node
        d = None
    if d is None and _forwards_parameter(flow, node):
        return {}, node   # the caller's mapping passed on (possibly copied): its keys are checked where it is built
    return d, node


def _forwards_parameter(flow, e: ast.AST, depth: int = 0) -> bool:
    """e is a parameter of the function, an empty dict, a copy of those (`dict(p)`, `{**p}`, `p.copy()`), or a choice between them."""
    if depth > 4 or e is None:
        return False
    if isinstance(e, ast.Name):
        if e.id in flow.fn.params:
            return True
        # a local that only ever holds the caller's mapping (or the empty default for it)
        ds = [d for d in flow.defs if d.var == e.id]
        return bool(ds) and all(d.kind == "assign" and d.value is not None and _forwards_parameter(flow, d.value, depth + 1) for d in ds)
    if isinstance(e, ast.Dict):
        return all(k is None and _forwards_parameter(flow, v, depth + 1) for k, v in zip(e.keys, e.values))
    if isinstance(e, ast.Call):
        d = dotted(e.func)
        if d == "dict" and not e.keywords:
            return not e.args or (len(e.args) == 1 and _forwards_parameter(flow, e.args[0], depth + 1))
        if isinstance(e.func, ast.Attribute) and e.func.attr == "copy" and not e.args:
            return _forwards_parameter(flow, e.func.value, depth + 1)
        return False
    if isinstance(e, ast.IfExp):
        return _forwards_parameter(flow, e.body, depth + 1) and _forwards_parameter(flow, e.orelse, depth + 1)
    if isinstance(e, ast.BoolOp) and isinstance(e.op, ast.Or):
        return all(_forwards_parameter(flow, v, depth + 1) for v in e.values)
    return False


def _header_updates(fn: FuncInfo):
    """All (call, dict, kind) header-update sites in fn."""
    flow = flow_of(fn)
    out = []
    for c in calls_in_body(fn.node):
        if isinstance(c.func, ast.Attribute) and c.func.attr == "new_header":
            d, node = _update_dict(flow, c, None)
            out.append((c, d, "new_header", node))
        elif isinstance(c.func, ast.Attribute) and c.func.attr == "prep_outfile":
            d, node = _update_dict(flow, c, "updates")
            out.append((c, d, "prep_outfile", node))
    return out


def _advanced_by_lead(flow, ex: ast.AST) -> bool:
    """`mjd_after_nsamps(start - min(0, int(D.min())))` with D the dispersion delays: a product whose channels are counted from
    the earliest one (delays shifted to be non-negative) begins |min delay| samples after `start` (F38)."""
    if not (isinstance(ex, ast.Call) and norm(ex.func) == "self.header.mjd_after_nsamps" and len(ex.args) == 1):
        return False
    from ..normalform import canon, strip_ordinals
    got = strip_ordinals(canon(ex.args[0]))
    lead = "min(0, int(self.header.get_dmdelays(dm).min()))"
    return got in (strip_ordinals(canon(f"start - {lead}")), strip_ordinals(canon(f"start + -1 * {lead}")))


def run(prog: Program, res: Result, tier: str) -> None:
    prog.consulted.update(SCOPE + [HEADER])
    hdr = prog.cls(HEADER, "Header")
    fields = set(hdr.attrs_fields)
    if len(fields) < 20:
        raise AnalysisError("Header attrs fields not recognised")

    # ---- R3 update keys are fields ------------------------------------------------------------
    nsites = 0
    for f in prog.all_funcs():
        for c, d, kind, node in _header_updates(f):
            nsites += 1
            key = f"{f.qualname}:{kind}:{norm(c)[:60]}"
            if d is None:
                res.bad("R3", f, c, "header update is not a literal dict: keys cannot be checked", key=key)
                continue
            unknown = sorted(k for k in d if k not in fields)
            if unknown:
                res.bad("R3", f, c, f"update key(s) {unknown} are not Header fields: new_header silently drops them, so the value never "
                        f"reaches the output header", key=key)
            else:
                res.ok("R3", f, c, f"{len(d)} update key(s) are Header fields", key=key)
    # new_header really filters by attrs fields (that is why unknown keys vanish) and builds a new Header
    nh = prog.func(HEADER, "Header.new_header")
    from ..normalform import canon, normal_form, returned
    from ..pathcond import guarded, holds, path_conditions, rejection
    nfn = normal_form(nh)
    base_ = [e for e in nfn.effects if e.kind == "set" and e.target.startswith("$") and e.text() in (canon("attrs.asdict(self)"), canon("dict(attrs.asdict(self))"))]
    okn = len(base_) == 1
    if okn:
        d_ = base_[0].target
        ups_ = nfn.calls(f"{d_}.update")
        filt = "Header(**{key: value for key, value in NEW.items() if key in attrs.asdict(self)})"
        good_rets = {canon(filt).replace("NEW", d_)}
        # on the path without an update the untouched field dict may be used directly
        untouched = {canon(filt).replace("NEW", "attrs.asdict(self)"), canon(filt).replace("NEW", "dict(attrs.asdict(self))")}
        rets_ = nfn.returns()
        okn = len(ups_) == 1 and ups_[0].text() == f"{d_}.update(update_dict)" and ups_[0].under("update_dict is not None") and bool(rets_) and \
            all(e.text() in good_rets or (e.text() in untouched and e.under("update_dict is None")) for e in rets_) and \
            any(e.text() in good_rets for e in rets_) and \
            not [e for e in nfn.effects if e.kind in ("set", "expr") and e is not base_[0] and e not in ups_ and d_ in (e.target or "") + e.text()[:len(d_) + 1]]
    (res.ok if okn else res.bad)("R3", nh, nh.node, "new_header = attrs.asdict(self) updated by the dict, filtered to fields, rebuilt"
                                 if okn else "new_header no longer builds the derived header from asdict + update", construct="new_header", key="new_header")

    # ---- R1 nsamples follows data ---------------------------------------------------------------------
    for modname in SCOPE:
        for f in prog.module(modname).funcs.values():
            _check_nsamples(prog, res, f)

    # the containers themselves refuse data whose length differs from the header (mechanism named by the property's anchors)
    for modname, qual, lenexpr in (("sigpyproc.block", "BaseBlock._check_input", "self.nsamples"), ("sigpyproc.timeseries", "TimeSeries._check_input", "len(self.data)")):
        f = prog.func(modname, qual)
        other_ = lenexpr
        gs = []
        ok = any(e.under(f"{other_} != self.header.nsamples") for e in normal_form(f).raises())
        if ok:
            # and it is a ValueError: the raise statement guarded by that test
            from ..dataflow import flow_of as _fo
            pc_ = path_conditions(_fo(f))
            ok = False
            for r_ in [x for x in body_walk(f.node) if isinstance(x, ast.Raise)]:
                if holds(pc_, r_, f"{other_} != self.header.nsamples") is not None and r_.exc is not None and \
                        dotted(r_.exc.func if isinstance(r_.exc, ast.Call) else r_.exc) == "ValueError":
                    ok = True
        (res.ok if ok else res.bad)("R1", f, gs[0] if gs else f.node, "the container raises ValueError when the data length differs from header.nsamples" if ok else
                                    f"{qual} no longer rejects data whose length differs from header.nsamples", key=f"{qual}:length-check", construct=qual)
    for modname, qual, called in (("sigpyproc.block", "BaseBlock.__init__", "self._check_input()"), ("sigpyproc.timeseries", "TimeSeries.__init__", "self._check_input()")):
        f = prog.func(modname, qual)
        nff = normal_form(f)
        ok = any(e.text() == canon(called) and not e.ctx for e in nff.exprs()) and \
            all(nff.before(st_, next(e for e in nff.exprs() if e.text() == canon(called))) for st_ in nff.effects if st_.kind == "set")
        (res.ok if ok else res.bad)("R1", f, f.node, "the constructor runs the consistency check" if ok else f"{qual} no longer calls _check_input",
                                    key=f"{qual}:calls-check", construct=qual)
    bn = prog.func("sigpyproc.block", "BaseBlock.nsamples")
    ok = returned(bn) == [canon("self.data.shape[1]")]
    (res.ok if ok else res.bad)("R1", bn, bn.node, "block nsamples = data.shape[1]" if ok else "BaseBlock.nsamples is not data.shape[1]", key="BaseBlock.nsamples", construct="nsamples")

    # ---- R2 tstart follows start -------------------------------------------------------------------------
    n2 = 0
    for modname in ("sigpyproc.base", "sigpyproc.readers"):
        for f in prog.module(modname).funcs.values():
            if "start" not in f.params or f.is_abstract:
                continue
            if f.qualname in TSTART_EXCEPTIONS:
                res.ok("R2", f, f.node, f"named exception: {TSTART_EXCEPTIONS[f.qualname]}", construct=f.qualname, key=f"{f.qualname}:exception")
                continue
            ups = _header_updates(f)
            if not ups:
                res.bad("R2", f, f.node, "takes `start` but builds no header: cannot advance tstart", construct=f.qualname, key=f"{f.qualname}:tstart")
                continue
            n2 += 1
            flow = flow_of(f)
            missing = []
            for c, d, kind, node in ups:
                v = (d or {}).get("tstart")
                ok = False
                if v is not None:
                    ex = flow.expand(v, flow.cfg.node_for(c))
                    ok = norm(ex) == "self.header.mjd_after_nsamps(start)" or _advanced_by_lead(flow, ex)
                if not ok:
                    missing.append(c)
            key = f"{f.qualname}:tstart"
            if missing:
                res.bad("R2", f, missing[0], "the product's header keeps the file's tstart although the data begin at sample `start`: "
                        "no \"tstart\": self.header.mjd_after_nsamps(start) in the header update", key=key)
            else:
                res.ok("R2", f, ups[0][0], "tstart = header.mjd_after_nsamps(start)", key=key)
    m = prog.func(HEADER, "Header.mjd_after_nsamps")
    okm = returned(m) == [canon("(self.obs_time + TimeDelta(nsamps * self.tsamp, format='sec')).mjd")]
    (res.ok if okm else res.bad)("R2", m, m.node, "mjd_after_nsamps(n) = (obs_time + n*tsamp seconds).mjd" if okm else
                                 "mjd_after_nsamps no longer adds nsamps*tsamp seconds to the start epoch", construct="mjd_after_nsamps", key="mjd_after_nsamps")

    # ---- R4 label span ----------------------------------------------------------------------------------------
    _label_span(prog, res)
    _read_block_selection(prog, res)
    _inf_frequency_label(prog, res)

    # ---- R5 unit lints --------------------------------------------------------------------------------------------
    n5 = 0
    for modname in SCOPE:
        for f in prog.module(modname).funcs.values():
            for sub in body_walk(f.node):
                if isinstance(sub, ast.BinOp) and isinstance(sub.op, ast.FloorDiv) and _mentions_freq(sub.left):
                    n5 += 1
                    res.bad("R5", f, sub, "floor division applied to a frequency in MHz: the result is rounded down to a whole number of MHz "
                            "(e.g. -0.1*32//4 = -1.0, not -0.8)", key=f"{f.qualname}:floordiv:{norm(sub)}")
                if isinstance(sub, ast.Call) and dotted(sub.func) == "int" and len(sub.args) == 1 and _freq_ratio(sub.args[0]):
                    n5 += 1
                    res.bad("R5", f, sub, "int() truncates a ratio of frequencies used as a channel index: for spacings that are not exactly "
                            "representable the quotient lands just below the integer and the wrong channel is selected; round to nearest",
                            key=f"{f.qualname}:int-ratio")
                if isinstance(sub, ast.Call) and dotted(sub.func) == "round" and len(sub.args) == 1 and _freq_ratio(sub.args[0]):
                    res.ok("R5", f, sub, "frequency -> channel index conversion rounds to nearest", key=f"{f.qualname}:round-ratio")
    res.ok("R5", None, None, f"scanned {len(SCOPE)} modules for floor-division / truncation of MHz quantities; {n5} finding(s)",
           construct="unit lints", key="scan", where="package")

    # ---- R6 scaling and dm --------------------------------------------------------------------------------------------------
    _scaling_and_dm(prog, res)

    # ---- R7 the header's own derived quantities --------------------------------------------------------------------
    _header_algebra(prog, res, "R7")

    res.floor("R7", 9)
    res.floor("R1", 15)
    res.floor("R2", 16)
    res.floor("R3", 40)
    res.floor("R4", 6)
    res.floor("R5", 3)
    res.floor("R6", 5)


def _header_algebra(prog: Program, res: Result, rule: str) -> None:
    """Band edges, channel labels and durations are the stated functions of (fch1, foff, nchans, tsamp, nsamples)."""
    from ..props import property_expr
    hdr = prog.cls(HEADER, "Header")
    env = PolyEnv(atom_hook=transparent_casts)

    def inl(e):
        from ..props import inline_props
        return env.poly(inline_props(prog, hdr, e))
    want = {
        "ftop": "self.fch1 - 0.5 * self.foff",
        "fbottom": "self.fch1 - 0.5 * self.foff + self.foff * self.nchans",
        "fcenter": "self.fch1 - 0.5 * self.foff + 0.5 * self.foff * self.nchans",
        "chan_freqs": "np.arange(self.nchans, dtype=np.float32) * self.foff + self.fch1",
        "bandwidth": "abs(self.foff) * self.nchans",
        "tobs": "self.tsamp * self.nsamples",
        "fmax": "self.chan_freqs.max()",
        "fmin": "self.chan_freqs.min()",
    }
    for name, w in want.items():
        pe = property_expr(prog, hdr, name)
        m = hdr.methods.get(name)
        if name in ("fmax", "fmin"):
            ok = pe is not None and norm(pe) == w
        else:
            ok = pe is not None and inl(pe) == inl(ast.parse(w, mode="eval").body)
        (res.ok if ok else res.bad)(rule, m, m.node if m else hdr.node, f"Header.{name} = {w}" if ok else
                                    f"Header.{name} is `{norm(pe) if pe is not None else '?'}`, expected `{w}`: channel labels / band edges / durations "
                                    f"derived from it no longer describe the data", construct=f"Header.{name}", key=f"hdr:{name}")
    dh = hdr.methods.get("dedispersed_header")
    ok = dh is not None and returned(dh) == [canon("self.new_header({'dm': dm, 'nchans': 1, 'data_type': 'time series', 'nbits': 32})")]
    (res.ok if ok else res.bad)(rule, dh, dh.node if dh else hdr.node, "dedispersed_header(dm): dm recorded, one channel, 32-bit time series" if ok else
                                "dedispersed_header no longer records (dm, nchans=1, time series, 32 bit)", construct="dedispersed_header", key="hdr:dedispersed")


def _mentions_freq(e: ast.AST) -> bool:
    for n in ast.walk(e):
        if isinstance(n, ast.Attribute) and n.attr in FREQ_ATTRS:
            return True
        if isinstance(n, ast.Name) and n.id in ("fch1", "foff", "new_foff", "new_fch1"):
            return True
    return False


def _freq_ratio(e: ast.AST) -> bool:
    return isinstance(e, ast.BinOp) and isinstance(e.op, ast.Div) and _mentions_freq(e.left) and _mentions_freq(e.right)


def _array_length_class(prog: Program, f: FuncInfo, flow, arr: ast.AST, at: ast.Call):
    """-> (kind, info): 'alloc' (size poly), 'lenchange' (callee, var), 'same'."""
    if isinstance(arr, ast.Name):
        ds = flow.origin_defs(arr.id, flow.cfg.node_for(at))
        vals = [d.value for d in ds if d.kind == "assign" and d.value is not None]
        for v in vals:
            if isinstance(v, ast.Call):
                d = dotted(v.func) or ""
                if d in ("np.zeros", "np.empty", "np.ones") and v.args:
                    size = v.args[0]
                    if isinstance(size, ast.Tuple):
                        size = size.elts[-1]
                    return "alloc", (size, v)
        for v in vals:
            # follow slices / reshapes / transposes back to a length-changing producer
            inner = v
            for _ in range(6):
                if isinstance(inner, ast.Subscript):
                    inner = inner.value
                elif isinstance(inner, ast.Call) and isinstance(inner.func, ast.Attribute) and inner.func.attr in (
                        "reshape", "transpose", "ravel", "astype", "squeeze"):
                    inner = inner.func.value
                elif isinstance(inner, ast.Name):
                    ds2 = [d for d in flow.reaching(inner.id, flow.cfg.node_for(at)) if d.kind == "assign" and d.value is not None]
                    if len(ds2) >= 1 and ds2[0].value is not inner:
                        inner = ds2[0].value
                    else:
                        break
                else:
                    break
            if isinstance(inner, ast.Call):
                d = dotted(inner.func) or ""
                suffix = d.split(".")[-1]
                if suffix in LENGTH_CHANGING:
                    return "lenchange", (suffix, arr.id, inner)
        return "same", None
    return "same", None


def _check_nsamples(prog: Program, res: Result, f: FuncInfo) -> None:
    flow = flow_of(f)
    for c in calls_in_body(f.node):
        d = dotted(c.func) or ""
        cname = d.split(".")[-1]
        is_container = cname in CONTAINERS or d in ("cls", "self.__class__", "self._derived")
        if not is_container or len(c.args) < 2:
            continue
        if d == "cls" and (f.cls is None or f.cls.name not in CONTAINERS):
            continue
        if d in ("self.__class__", "self._derived") and (f.cls is None or f.cls.name not in ({"BaseBlock"} | CONTAINERS)):
            continue
        if d == "self._derived":
            cname = "__class__"   # the block's own kind, rebuilt around new data
        arr, hexpr = c.args[0], c.args[1]
        kind, info = _array_length_class(prog, f, flow, arr, c)
        if kind == "same":
            continue
        # locate the header update
        hcall = hexpr
        if isinstance(hexpr, ast.Name):
            ds = [dd for dd in flow.reaching(hexpr.id, flow.cfg.node_for(c)) if dd.kind == "assign"]
            hcall = ds[0].value if len(ds) == 1 else hexpr
        key = f"{f.qualname}:{cname}:nsamples"
        if not (isinstance(hcall, ast.Call) and isinstance(hcall.func, ast.Attribute) and hcall.func.attr == "new_header"):
            res.bad("R1", f, c, "container built from an array of explicit length without a derived header", key=key)
            continue
        ud, _ = _update_dict(flow, hcall, None)
        v = (ud or {}).get("nsamples")
        if v is None:
            res.bad("R1", f, c, f"the array handed to {cname} has a length set in this function "
                    f"({'allocated' if kind == 'alloc' else 'returned by ' + info[0]}), but the header update has no \"nsamples\": the "
                    f"container's length check fails or the header misdescribes the data", key=key)
            continue
        env = PolyEnv(atom_hook=transparent_casts)
        at = flow.cfg.node_for(c)
        if kind == "alloc":
            size, alloc = info
            want = env.poly(with_range_len(flow.expand(size, flow.cfg.node_for(alloc))))
            got = env.poly(with_range_len(flow.expand(v, at)))
            alt = f"len({norm(arr)})"
            if got == want or norm(v) in (alt, f"{norm(arr)}.size", f"{norm(arr)}.shape[1]"):
                res.ok("R1", f, c, f"header nsamples = the allocated length ({want.canon()[:80]})", key=key)
            else:
                res.bad("R1", f, c, f"header nsamples is `{norm(v)}` = {got.canon()[:80]}, but the array was allocated with "
                        f"length {want.canon()[:80]}", key=key)
        else:
            suffix, var, producer = info
            how = LENGTH_CHANGING[suffix]
            for _ in range(3):
                # a temporary (or the parameter of a dissolved helper) standing for the length expression
                if isinstance(v, ast.Name):
                    ds_ = [dd for dd in flow.reaching(v.id, at) if dd.kind == "assign" and dd.value is not None]
                    if len(ds_) == 1 and len(flow.reaching(v.id, at)) == 1:
                        v, at = ds_[0].value, ds_[0].node
                        continue
                break
            ok = norm(v) in (f"len({var})", f"{var}.size", f"{var}.shape[1]", f"{var}.shape[-1]")
            if not ok and how == "formula" and suffix == "downsample_2d":
                # stats.downsample_2d(data, (f_axis0, f_axis1), ...) -> shape[1] // f_axis1
                fac = producer.args[1]
                if isinstance(fac, ast.Tuple) and len(fac.elts) == 2:
                    ok = norm(v) == f"self.header.nsamples // {norm(fac.elts[1])}"
            if not ok:
                # nsamps_read = data.size // nchans style: depends on the producer's result
                ex = flow.expand(v, at)
                ok = any(isinstance(n, ast.Call) and n is not None and norm(n) == norm(producer) for n in ast.walk(ex)) or \
                    _same_request(f, v, producer)
            if ok:
                res.ok("R1", f, c, f"header nsamples follows the length of the array returned by {suffix}", key=key)
            else:
                res.bad("R1", f, c, f"header nsamples `{norm(v)}` is not derived from the array returned by {suffix}", key=key)


def _same_request(f: FuncInfo, v: ast.AST, producer: ast.Call) -> bool:
    """PSRFITS read_block: rows are sliced/reshaped to exactly `nsamps`, and nsamples is that same name."""
    if not isinstance(v, ast.Name):
        return False
    for s in body_walk(f.node):
        if isinstance(s, ast.Assign) and isinstance(s.value, ast.Call) and isinstance(s.value.func, ast.Attribute) \
                and s.value.func.attr == "reshape" and s.value.args and norm(s.value.args[0]) == v.id:
            return True
    return False


def _read_block_selection(prog: Program, res: Result) -> None:
    """Sub-band requests of read_block (both readers): the rows `data[cs : cs + n]` are exactly n rows of the band only when
    0 <= cs and cs + n <= header.nchans - otherwise the slice is silently shorter than the `nchans` the header is given (or
    empty) - and the label of the first row is the centre of channel cs, `header.fch1 + cs*foff`, for either sign of foff."""
    from ..pathcond import guarded
    for cname in ("FilReader", "PFITSReader"):
        f = prog.func("sigpyproc.readers", f"{cname}.read_block")
        flow = flow_of(f)
        ups = [(c, d) for c, d, k2, _ in _header_updates(f) if k2 == "new_header" and d]
        # the row selection: a slice [lo:up] of the (channel, sample) array whose length is the nchans the header is given (or, failing that,
        # the only two-sided slice whose upper bound mentions its lower bound)
        two_sided = [s_ for s_ in body_walk(f.node) if isinstance(s_, ast.Assign) and isinstance(s_.value, ast.Subscript) and isinstance(s_.value.slice, ast.Slice)
                     and s_.value.slice.lower is not None and s_.value.slice.upper is not None and s_.value.slice.step is None]
        ups0 = [d_ for c_, d_, k2_, _ in _header_updates(f) if k2_ == "new_header" and d_]
        want_n = PolyEnv().poly(ups0[0]["nchans"]) if len(ups0) == 1 and "nchans" in ups0[0] else None
        rows = [s_ for s_ in two_sided if want_n is not None and PolyEnv().poly(s_.value.slice.upper) - PolyEnv().poly(s_.value.slice.lower) == want_n]
        if not rows:
            rows = [s_ for s_ in two_sided if norm(s_.value.slice.lower) in norm(s_.value.slice.upper) and
                    not any(isinstance(n_, ast.Name) and n_.id in ("startsamp", "start") for n_ in ast.walk(s_.value.slice.lower))]
        key = f"{cname}.read_block:rows"
        if len(ups) != 1 or len(rows) != 1:
            res.bad("R1", f, f.node, "cannot identify the channel slice and the header of the block", construct="read_block", key=key)
            continue
        c, d = ups[0]
        lo, up = rows[0].value.slice.lower, rows[0].value.slice.upper
        P_ = lambda e: PolyEnv().poly(e)  # noqa: E731
        n_rows = P_(up) - P_(lo)
        why = []
        if "nchans" not in d or P_(d["nchans"]) != n_rows:
            why.append(f"the header's nchans (`{norm(d.get('nchans', ast.Constant(None)))}`) is not the length of the slice ({n_rows.canon()})")
        names_ = {n_.id for e_ in (lo, up) for n_ in ast.walk(e_) if isinstance(n_, ast.Name)}
        okg, whyg = guarded(flow, [rows[0]], [("<=0", -P_(lo)), ("<=0", P_(up) - Poly.sym("self.header.nchans"))], stop=names_)
        if not okg:
            why.append("the slice is not known to lie inside the band (0 <= first row, last row <= header.nchans): " + "; ".join(whyg) +
                       " - a request reaching past the band gives fewer rows than the header declares")
        (res.ok if not why else res.bad)("R1", f, rows[0], "the rows copied are exactly the `nchans` channels the header declares, inside the band; anything else "
                                         "raises ValueError" if not why else "; ".join(why), key=key)
        key = f"{cname}.read_block:label"
        lab = d.get("fch1")
        okl = lab is not None and (PolyEnv().poly(flow.expand(lab, flow.cfg.node_for(c), stop={norm(lo)} if isinstance(lo, ast.Name) else set()))
                                   == Poly.sym("self.header.fch1") + P_(lo) * Poly.sym("self.header.foff"))
        (res.ok if okl else res.bad)("R4", f, c, "the first row is labelled with the centre of the channel it was copied from (header.fch1 + first row * foff)"
                                     if okl else f"the block's fch1 is `{norm(lab) if lab is not None else '?'}`, not header.fch1 + <first row>*foff: a requested "
                                     "frequency off the channel grid labels every row wrongly", key=key)


def _inf_frequency_label(prog: Program, res: Result) -> None:
    """The PRESTO .inf side-car stores the centre of the LOWEST channel; make_inf computes it from the header and from_inffile
    turns it back into fch1.  For either sign of foff the composition must be the identity on fch1 (F49)."""
    import copy
    mk = prog.func(HEADER, "Header.make_inf")
    rd = prog.func(HEADER, "Header.from_inffile")
    w = [s_ for s_ in body_walk(mk.node) if isinstance(s_, ast.Assign) and norm(s_.targets[0]) in ("inf_dict['freq_low']", 'inf_dict["freq_low"]')]
    ups = [d for c, d, k2, _ in _header_updates(rd) if d and "fch1" in d]
    r = None
    for s_ in body_walk(rd.node):
        if isinstance(s_, ast.Assign) and isinstance(s_.value, ast.Dict):
            for k_, v_ in zip(s_.value.keys, s_.value.values):
                if isinstance(k_, ast.Constant) and k_.value == "fch1":
                    r = v_
    key = "inf:freq-roundtrip"
    if len(w) != 1 or r is None:
        res.bad("R4", mk, mk.node, "cannot find the freq_low written by make_inf / the fch1 rebuilt by from_inffile", construct="freq_low", key=key)
        return
    fch1, foff, n = Poly.sym("fch1"), Poly.sym("foff"), Poly.sym("nchans")
    ftop = fch1 - foff.scale(Fraction(1, 2))
    fbottom = ftop + foff * n
    bad = []
    for sign in (+1, -1):
        def subst(e: ast.AST, low: Poly | None) -> Poly:
            class T(ast.NodeTransformer):
                def visit_Subscript(self, node):  # noqa: N802
                    t_ = norm(node)
                    alias = {"header['foff']": "__foff", "header['nchans']": "__n", "header['freq_low']": "__low"}
                    return ast.copy_location(ast.Name(id=alias[t_], ctx=ast.Load()), node) if t_ in alias else self.generic_visit(node)

                def visit_Call(self, node):  # noqa: N802
                    self.generic_visit(node)
                    d_ = dotted(node.func)
                    if d_ == "abs" and len(node.args) == 1:
                        return node.args[0] if sign > 0 else ast.UnaryOp(op=ast.USub(), operand=node.args[0])
                    if d_ == "min" and len(node.args) == 2:
                        a_, b_ = PolyEnv(names).poly(node.args[0]), PolyEnv(names).poly(node.args[1])
                        diff = a_ - b_          # decide the smaller one from the sign of foff (nchans >= 1)
                        if diff == foff or diff == foff * n or diff == -(foff * n) or diff == -foff:
                            pos = diff == foff or diff == foff * n
                            smaller_is_b = pos if sign > 0 else not pos
                            return node.args[1] if smaller_is_b else node.args[0]
                    return node
            return PolyEnv(names).poly(T().visit(copy.deepcopy(e)))
        names = {"self.ftop": ftop, "self.fbottom": fbottom, "self.foff": foff, "self.fch1": fch1, "self.nchans": n,
                 "__foff": foff, "__n": n}
        try:
            low = subst(w[0].value, None)
            names2 = dict(names)
            names2["__low"] = low
            names = names2
            back = subst(r, low)
        except Exception as exc:  # noqa: BLE001
            bad.append(f"foff {'>' if sign > 0 else '<'} 0: not interpretable ({exc})")
            continue
        want_low = fch1 if sign > 0 else fch1 + foff * (n - Poly.const(1))
        if low != want_low:
            bad.append(f"foff {'>' if sign > 0 else '<'} 0: make_inf writes {low.canon()} as the lowest channel's centre, which is {want_low.canon()}")
        elif back != fch1:
            bad.append(f"foff {'>' if sign > 0 else '<'} 0: from_inffile rebuilds fch1 = {back.canon()}")
    (res.ok if not bad else res.bad)("R4", mk, w[0], "make_inf stores the centre of the lowest channel and from_inffile turns it back into fch1, for either sign of foff"
                                     if not bad else "; ".join(bad), construct="freq_low", key=key)


def _label_span(prog: Program, res: Result) -> None:
    sym = Poly.sym
    fch1, foff, nch = sym("self.header.fch1"), sym("self.header.foff"), sym("self.header.nchans")

    def ab(f: FuncInfo, d: dict, at: ast.AST, stop=()):
        """(alpha, beta) with new fch1 = fch1 + alpha*foff, new foff = beta*foff; None if not of that form."""
        flow = flow_of(f)
        env = PolyEnv(atom_hook=transparent_casts)
        from ..props import inline_props
        hdrcls = prog.cls(HEADER, "Header")

        def pol(e):
            ex = flow.expand(e, flow.cfg.node_for(at), stop=set(stop))
            # inline header properties (ftop = fch1 - 0.5*foff ...)
            class T(ast.NodeTransformer):
                def visit_Attribute(self, node):  # noqa: N802
                    self.generic_visit(node)
                    if norm(node.value) == "self.header":
                        from ..props import property_expr
                        pe = property_expr(prog, hdrcls, node.attr)
                        if pe is not None:
                            from ..dataflow import clone

                            class S(ast.NodeTransformer):
                                def visit_Name(self, n):  # noqa: N802
                                    if n.id == "self":
                                        return ast.Attribute(value=ast.Name(id="self", ctx=ast.Load()), attr="header", ctx=ast.Load())
                                    return n
                            return T().visit(S().visit(clone(pe)))
                    return node
            ex = ast.fix_missing_locations(T().visit(ex))
            return env.poly(ex)

        a = b = None
        if "fch1" in d:
            p = pol(d["fch1"])
            rest = p - fch1
            a = rest.coeff_of("self.header.foff")
            if not (rest - a * foff).is_zero():
                return None, None, f"new fch1 = {p.canon()} is not fch1 + a*foff"
        else:
            a = Poly.const(0)
        if "foff" in d:
            p = pol(d["foff"])
            b = p.coeff_of("self.header.foff")
            if not (p - b * foff).is_zero():
                return None, None, f"new foff = {p.canon()} is not b*foff"
        else:
            b = Poly.const(1)
        return a, b, ""

    def report(f, c, key, a, b, why, want_a, want_b, desc, between=None):
        if a is None:
            res.bad("R4", f, c, why, key=key)
            return
        ok_b = b == want_b
        if between is not None:
            k = between
            # 0 <= a <= k-1 decided for a = c0 + c1*k (rational c's)
            ok_a = _in_span(a, k)
        else:
            ok_a = a == want_a
        if ok_a and ok_b:
            res.ok("R4", f, c, f"{desc}: fch1' = fch1 + ({a.canon()})*foff, foff' = ({b.canon()})*foff", key=key)
        else:
            res.bad("R4", f, c, f"{desc}: fch1' = fch1 + ({a.canon()})*foff, foff' = ({b.canon()})*foff; expected "
                    f"a = {want_a.canon() if between is None else '[0, ' + between.canon() + '-1]'}, b = {want_b.canon()}", key=key)

    def site(modname, qual, kind):
        f = prog.func(modname, qual)
        ups = [(c, d) for c, d, k2, _ in _header_updates(f) if k2 == kind and d]
        return f, ups

    # invert_freq
    f, ups = site("sigpyproc.base", "Filterbank.invert_freq", "prep_outfile")
    for c, d in ups:
        a, b, why = ab(f, d, c)
        report(f, c, "invert_freq", a, b, why, nch - Poly.const(1), Poly.const(-1), "inversion (channel 0 of the output is the last input channel)")
    # downsample
    f, ups = site("sigpyproc.base", "Filterbank.downsample", "prep_outfile")
    for c, d in ups:
        a, b, why = ab(f, d, c)
        k = sym("ffactor")
        report(f, c, "downsample", a, b, why, None, k, "frequency decimation by ffactor", between=k)
    # block downsample
    f, ups = site("sigpyproc.block", "FilterbankBlock.downsample", "new_header")
    for c, d in ups:
        a, b, why = ab(f, d, c)
        k = sym("ffactor")
        report(f, c, "block.downsample", a, b, why, None, k, "block frequency decimation by ffactor", between=k)
    # subband
    f, ups = site("sigpyproc.base", "Filterbank.subband", "prep_outfile")
    for c, d in ups:
        # k is the number of channels summed per sub-band, nchans // nsub - whatever local holds it (also one half of a divmod)
        a, b, why = ab(f, d, c)
        k = PolyEnv().poly(ast.parse("self.header.nchans // nsub", mode="eval").body)
        report(f, c, "subband", a, b, why, None, k, "sub-banding (k = nchans // nsub channels summed per sub-band)", between=k)
        okk = not why and b == k
        (res.ok if okk else res.bad)("R4", f, c, "the sub-band width in the label is header.nchans // nsub" if okk else "sub-band width is not header.nchans // nsub",
                                     key="subband:k")
    # extract_bands
    f, ups = site("sigpyproc.base", "Filterbank.extract_bands", "prep_outfile")
    for c, d in ups:
        # position of this file inside its batch: the comprehension's enumerate index minus its start value
        comp = parent(c)
        while comp is not None and not isinstance(comp, (ast.ListComp, ast.GeneratorExp)):
            comp = parent(comp)
        ivar, start_p = "i", Poly.const(0)
        if comp is not None and comp.generators:
            g0 = comp.generators[0]
            if isinstance(g0.iter, ast.Call) and dotted(g0.iter.func) == "enumerate" and isinstance(g0.target, ast.Tuple) and isinstance(g0.target.elts[0], ast.Name):
                ivar = g0.target.elts[0].id
                st_ = g0.iter.args[1] if len(g0.iter.args) > 1 else next((k_.value for k_ in g0.iter.keywords if k_.arg == "start"), None)
                if st_ is not None:
                    start_p = PolyEnv().poly(st_)
        a, b, why = ab(f, d, c, stop=(ivar, "batch_start", "chanstart", "chanpersub"))
        want = sym("chanstart") + (sym("batch_start") + sym(ivar) - start_p) * sym("chanpersub")
        report(f, c, "extract_bands", a, b, why, want, Poly.const(1), "band selection (file i of a batch starts at channel chanstart+(batch_start+i)*chanpersub)")
    # single-channel selections
    f, ups = site("sigpyproc.base", "Filterbank.read_chan", "new_header")
    for c, d in ups:
        a, b, why = ab(f, d, c, stop=("ichan",))
        report(f, c, "read_chan", a, b, why, sym("ichan"), Poly.const(1), "single channel selection (reference frequency of the series)")
    f, ups = site("sigpyproc.base", "Filterbank.extract_chans", "prep_outfile")
    for c, d in ups:
        a, b, why = ab(f, d, c, stop=("chan",))
        # the comprehension variable naming the channel of each output file
        comp = parent(c)
        while comp is not None and not isinstance(comp, ast.ListComp):
            comp = parent(comp)
        chan_var = None
        if comp is not None:
            g = comp.generators[0]
            if isinstance(g.iter, ast.Call) and dotted(g.iter.func) == "zip" and isinstance(g.target, ast.Tuple):
                names = [norm(x) for x in g.iter.args]
                if "batch_chans" in names:
                    chan_var = norm(g.target.elts[names.index("batch_chans")])
        want = sym(chan_var) if chan_var else sym("<channel of this file>")
        if a is not None and chan_var and chan_var != "chan":
            a2, b2, why2 = ab(f, d, c, stop=(chan_var,))
            a, b, why = a2, b2, why2
        report(f, c, "extract_chans", a, b, why, want, Poly.const(1), "per-channel time series (reference frequency = the extracted channel)")


def _in_span(a: Poly, k: Poly) -> bool:
    """0 <= a <= k-1 for every integer k >= 1, for a = c0 + c1*k with rational c0, c1."""
    syms = a.symbols()
    ks = k.symbols()
    if not syms <= ks or len(ks) != 1:
        return a.is_zero()
    s = next(iter(ks))
    if a.degree_in(s) > 1:
        return False
    c1 = a.coeff_of(s).const_value() if a.coeff_of(s).is_const() else None
    c0 = a.without(s).const_value() if a.without(s).is_const() else None
    if c1 is None or c0 is None:
        return False
    # a(k) = c0 + c1*k; need a(1) = c0+c1 in [0,0] and slope in [0,1] => a(k) in [0,k-1]
    return c0 + c1 == 0 and 0 <= c1 <= 1 or (c0 == 0 and c1 == 0)


def _scaling_and_dm(prog: Program, res: Result) -> None:
    # downsample (file) : tsamp*tfactor, nchans//ffactor, foff*ffactor with the same two factors
    for modname, qual, kind in (("sigpyproc.base", "Filterbank.downsample", "prep_outfile"),
                                ("sigpyproc.block", "FilterbankBlock.downsample", "new_header")):
        f = prog.func(modname, qual)
        for c, d, k2, _ in _header_updates(f):
            if k2 != kind or not d:
                continue
            key = f"{qual}:scaling"
            ok = norm(d.get("tsamp", ast.Constant(None))) == "self.header.tsamp * tfactor" and \
                norm(d.get("nchans", ast.Constant(None))) == "self.header.nchans // ffactor" and \
                norm(d.get("foff", ast.Constant(None))) == "self.header.foff * ffactor"
            if ok:
                res.ok("R6", f, c, "tsamp*tfactor, nchans//ffactor, foff*ffactor", key=key)
            else:
                res.bad("R6", f, c, "decimated product's tsamp/nchans/foff are not scaled by (tfactor, ffactor, ffactor)", key=key)
    f = prog.func("sigpyproc.timeseries", "TimeSeries.downsample")
    for c, d, k2, _ in _header_updates(f):
        key = "TimeSeries.downsample:scaling"
        ok = d and norm(d.get("tsamp", ast.Constant(None))) == "self.header.tsamp * factor"
        (res.ok if ok else res.bad)("R6", f, c, "tsamp*factor" if ok else "tsamp is not scaled by the decimation factor", key=key)
    # dm recorded
    for qual in ("Filterbank.dedisperse", "Filterbank.subband"):
        f = prog.func("sigpyproc.base", qual)
        ups = [(c, d) for c, d, k2, _ in _header_updates(f) if d]
        key = f"{qual}:dm"
        ok = any(norm(d.get("dm", ast.Constant(None))) == "dm" for c, d in ups)
        (res.ok if ok else res.bad)("R6", f, ups[0][0] if ups else f.node, "the DM applied is recorded in the header" if ok else
                                    "the DM that was applied is not recorded under the header field \"dm\"", key=key, construct=qual)
    for modname, qual in (("sigpyproc.readers", "FilReader.read_dedisp_block"), ("sigpyproc.block", "FilterbankBlock.dedisperse")):
        f = prog.func(modname, qual)
        ctor = [c for c in calls_in_body(f.node) if (dotted(c.func) or "").endswith("FilterbankBlock")]
        key = f"{qual}:dm"
        ok = any((len(c.args) > 2 and norm(c.args[2]) == "dm") or any(k.arg == "dm" and norm(k.value) == "dm" for k in c.keywords) for c in ctor)
        (res.ok if ok else res.bad)("R6", f, ctor[0] if ctor else f.node, "the block records the DM it was dedispersed at" if ok else
                                    "the dedispersed block does not record its DM", key=key, construct=qual)

    # the DM a block reports is the DM its data are at: a further dedispersion shifts by what is left (F58) - shifting an
    # already dedispersed block by the full delays of the new DM leaves data at old + new under the label `new`
    from ..normalform import canon as _cn6, strip_ordinals as _so6
    for qual in ("FilterbankBlock.dedisperse", "FilterbankBlock.dmt_transform"):
        f = prog.func("sigpyproc.block", qual)
        fl6 = flow_of(f)
        gets = [c for c in calls_in_body(f.node) if (dotted(c.func) or "").endswith("get_dmdelays") and c.args]
        ctor = [c for c in calls_in_body(f.node) if (dotted(c.func) or "").split(".")[-1] in ("FilterbankBlock", "DMTBlock") and len(c.args) > 2]
        ok6 = len(gets) == 1 and len(ctor) >= 1
        why6 = "expected one get_dmdelays call and a block construction with a DM"
        if ok6:
            applied = _so6(_cn6(fl6.expand(gets[0].args[0], fl6.cfg.node_for(gets[0]))))
            for c in ctor:
                label = fl6.expand(c.args[2], fl6.cfg.node_for(c))
                want = _so6(_cn6(ast.BinOp(left=label, op=ast.Sub(), right=ast.parse("self.dm", mode="eval").body)))
                if applied != want:
                    ok6 = False
                    why6 = (f"the delays applied are those of `{norm(gets[0].args[0])}` while the result is labelled `{norm(c.args[2])}`: for a block that is already "
                            "dedispersed (self.dm != 0) the data end up at self.dm + dm under the label dm")
        (res.ok if ok6 else res.bad)("R6", f, gets[0] if gets else f.node, "the shift applied is that of (label - this block's DM): the label describes the data" if ok6 else
                                     f"{qual}: {why6}", key=f"{qual}:residual-dm", construct=qual)
    # a block read from a file is as dedispersed as the file says (F57): to_file records the *block's* DM as the reference
    # DM, so a block built from file samples without the file's DM loses it on the way back to disk
    for rq in ("FilReader.read_block", "PFITSReader.read_block"):
        f = prog.func("sigpyproc.readers", rq)
        ctor = [c for c in calls_in_body(f.node) if (dotted(c.func) or "").endswith("FilterbankBlock")]
        flow_r = flow_of(f)
        okr = bool(ctor)
        for c in ctor:
            arg = c.args[2] if len(c.args) > 2 else next((k.value for k in c.keywords if k.arg == "dm"), None)
            okr = okr and arg is not None and norm(flow_r.expand(arg, flow_r.cfg.node_for(c))) in ("self.header.dm", "self._header.dm")
        (res.ok if okr else res.bad)("R6", f, ctor[0] if ctor else f.node, "the block carries the file's reference DM" if okr else
                                     "the block is built from the file's samples without the file's DM: it reports DM 0 for a file written at a DM, "
                                     "and to_file then writes refdm 0 for the same data", key=f"{rq}:file-dm", construct=rq)
    # the DM stays with the data through every derived block and into the file (F40)
    blk = prog.cls("sigpyproc.block", "FilterbankBlock")
    base_blk = prog.cls("sigpyproc.block", "BaseBlock")
    for m in blk.methods.values():
        for c in calls_in_body(m.node):
            if (dotted(c.func) or "") != "FilterbankBlock":
                continue
            key = f"FilterbankBlock.{m.name}:ctor-dm"
            arg = c.args[2] if len(c.args) > 2 else next((k.value for k in c.keywords if k.arg == "dm"), None)
            ok = arg is not None and norm(arg) in ("dm", "self.dm", "self._dm")
            (res.ok if ok else res.bad)("R6", m, c, "the new block is given a DM (the one applied here, or this block's)" if ok else
                                        "a block built from this block's data is constructed without a DM: it reports DM 0 although its data are "
                                        "dedispersed", key=key)
    for m in base_blk.methods.values():
        for c in calls_in_body(m.node):
            if norm(c.func) == "self.__class__" and m.name != "_derived":
                res.bad("R6", m, c, f"BaseBlock.{m.name} rebuilds the block with self.__class__(data, header): what a subclass keeps beside the header "
                        "(the DM of a FilterbankBlock, the DM axis of a DMTBlock) is lost", key=f"BaseBlock.{m.name}:rebuild")
            elif norm(c.func) == "self._derived":
                res.ok("R6", m, c, "derived block built through _derived (subclasses carry their own attributes over)", key=f"BaseBlock.{m.name}:rebuild")
    dv = blk.methods.get("_derived")
    okd = dv is not None and any((dotted(c.func) or "") == "FilterbankBlock" for c in calls_in_body(dv.node))
    (res.ok if okd else res.bad)("R6", dv, dv.node if dv else blk.node, "FilterbankBlock._derived passes this block's DM on" if okd else
                                 "FilterbankBlock does not override _derived: normalise / pad_samples drop the DM", construct="_derived", key="FilterbankBlock._derived",
                                 where="sigpyproc.block::FilterbankBlock")
    tf = blk.methods["to_file"]
    ups = [(c, d) for c, d, k2, _ in _header_updates(tf) if d is not None]
    okf = any(norm(d.get("dm", ast.Constant(None))) in ("self.dm", "self._dm") for c, d in ups)
    (res.ok if okf else res.bad)("R6", tf, ups[0][0] if ups else tf.node, "to_file records the block's DM as the file's reference DM" if okf else
                                 "to_file writes the header's dm, not the DM of the block: a dedispersed block is written with refdm 0", key="FilterbankBlock.to_file:dm")
    # a valid-samples product begins after the samples that leading channels lack (F41)
    for qual, kern, dname in (("FilterbankBlock.dedisperse", "roll_block_valid", "delays"), ("FilterbankBlock.dmt_transform", "dmt_block_valid", "dm_delays")):
        f = prog.func("sigpyproc.block", qual)
        flow = flow_of(f)
        from ..normalform import canon, strip_ordinals
        from ..pathcond import path_conditions
        ok = False
        why = "no header update with tstart"
        for c, d, k2, _ in _header_updates(f):
            if not d or "tstart" not in d:
                continue
            ex = flow.expand(d["tstart"], flow.cfg.node_for(c))
            txt = strip_ordinals(canon(ex))
            D = "self.header.get_dmdelays"
            # the lead is chosen by the very flag that selects the valid-samples kernel
            forms = [f"max(0, -1*int(np.min({dname})))", f"max(0, -1*np.min({dname}))", f"max(0, int(np.max(-1*{dname})))", f"max(0, -1*int({dname}.min()))"]
            leads = [strip_ordinals(canon(flow.expand(ast.parse(t, mode="eval").body, flow.cfg.node_for(c)))) for t in forms]
            ok = any(l in txt for l in leads) and "only_valid_samples" in txt and txt.startswith("self.header.mjd_after_nsamps(")
            why = f"tstart is `{norm(d['tstart'])}`"
        (res.ok if ok else res.bad)("R2", f, f.node, f"with only_valid_samples the product's tstart is advanced by max(0, -min delay), the first column {kern} keeps"
                                    if ok else f"{qual}: {why}; the valid-samples product begins max(0, -min delay) samples after the block, "
                                    "so tstart must be advanced by that", construct=qual, key=f"{qual}:valid-tstart")
    # a padded block begins `offset` samples before the block it pads: wherever the original samples are stored at
    # column L of the new array, tstart moves back by L samples (F56)
    f = prog.func("sigpyproc.block", "BaseBlock.pad_samples")
    flow = flow_of(f)
    from ..normalform import canon as _canon, strip_ordinals as _strip
    stores = [s_ for s_ in body_walk(f.node) if isinstance(s_, ast.Assign) and len(s_.targets) == 1 and isinstance(s_.targets[0], ast.Subscript)
              and norm(s_.value) == "self.data" and isinstance(s_.targets[0].slice, ast.Tuple) and len(s_.targets[0].slice.elts) == 2
              and isinstance(s_.targets[0].slice.elts[1], ast.Slice) and s_.targets[0].slice.elts[1].lower is not None]
    ok, why = False, "pad_samples no longer stores the original samples at a column offset of the padded array"
    if len(stores) == 1:
        low = flow.expand(stores[0].targets[0].slice.elts[1].lower, flow.cfg.node_for(stores[0]))
        want = _strip(_canon(ast.Call(func=ast.parse("self.header.mjd_after_nsamps", mode="eval").body,
                                      args=[ast.UnaryOp(op=ast.USub(), operand=low)], keywords=[])))
        why = "the padded block's header keeps the tstart of the block it pads, although its first sample is `offset` samples earlier"
        for c, d, k2, _ in _header_updates(f):
            if d and "tstart" in d:
                got = _strip(_canon(flow.expand(d["tstart"], flow.cfg.node_for(c))))
                ok = got == want
                why = f"tstart is `{norm(d['tstart'])}`, not mjd_after_nsamps(-offset): the padded block begins `offset` samples before the block it pads"
    (res.ok if ok else res.bad)("R2", f, f.node, "the padded block's tstart is moved back by the column at which the original samples are stored" if ok else f"pad_samples: {why}",
                                construct="pad_samples", key="pad_samples:tstart")

B = "sigpyproc/base.py"
MUTANTS = [
    {"id": "c08-revert-F49-writer", "file": "sigpyproc/header.py", "expect": "C08.R4",
     "old": "        inf_dict[\"freq_low\"] = min(self.ftop, self.fbottom) + 0.5 * abs(self.foff)\n", "new": "        inf_dict[\"freq_low\"] = self.fbottom + 0.5 * abs(self.foff)\n"},
    {"id": "c08-revert-F49-reader", "file": "sigpyproc/header.py", "expect": "C08.R4",
     "old": "            - min(0, header[\"foff\"]) * (header[\"nchans\"] - 1),\n", "new": "            + header[\"foff\"] * header[\"nchans\"],\n"},
    {"id": "c08-revert-F40-downsample", "file": "sigpyproc/block.py", "expect": "C08.R6",
     "old": "        return FilterbankBlock(new_ar, self.header.new_header(changes), self.dm)\n", "new": "        return FilterbankBlock(new_ar, self.header.new_header(changes))\n"},
    {"id": "c08-revert-F40-tofile", "file": "sigpyproc/block.py", "expect": "C08.R6",
     "old": "        updates = {\"nbits\": 32, \"dm\": self.dm}\n", "new": "        updates = {\"nbits\": 32}\n"},
    {"id": "c08-revert-F40-normalise", "file": "sigpyproc/block.py", "expect": "C08.R6",
     "old": "        return self._derived(zscore_re.data, self.header.new_header())\n", "new": "        return self.__class__(zscore_re.data, self.header.new_header())\n"},
    {"id": "c08-revert-F41", "file": "sigpyproc/block.py", "expect": "C08.R2",
     "old": "            new_ar = kernels.roll_block_valid(self.data, -delays)\n            # The valid region begins after the samples that leading channels lack\n            lead = max(0, -int(np.min(delays)))\n",
     "new": "            new_ar = kernels.roll_block_valid(self.data, -delays)\n            lead = 0\n"},
    {"id": "c08-valid-lead-from-max", "file": "sigpyproc/block.py", "expect": "C08.R2",
     "old": "            lead = max(0, -int(np.min(dm_delays)))\n", "new": "            lead = max(0, int(np.max(dm_delays)))\n"},
    {"id": "c08-revert-F39-guard", "file": "sigpyproc/readers.py", "expect": "C08.R1",
     "old": "        if chan_start < 0 or nchans < 1 or chan_start + nchans > self.header.nchans:\n            msg = f\"requested block is out of range: fch1={fch1}, nchans={nchans}\"\n            raise ValueError(msg)\n        if start < 0 or start + nsamps > self.header.nsamples:\n            msg = f\"requested block is out of range: start={start}, nsamps={nsamps}\"\n            raise ValueError(msg)\n\n        self._file.seek",
     "new": "        if fch1 > self.header.fch1 or nchans > self.header.nchans:\n            msg = f\"requested block is out of range: fch1={fch1}, nchans={nchans}\"\n            raise ValueError(msg)\n        if start < 0 or start + nsamps > self.header.nsamples:\n            msg = f\"requested block is out of range: start={start}, nsamps={nsamps}\"\n            raise ValueError(msg)\n\n        self._file.seek"},
    {"id": "c08-revert-F39-label", "file": "sigpyproc/readers.py", "expect": "C08.R4",
     "old": "                \"nsamples\": nsamps_read,\n                \"fch1\": self.header.fch1 + chan_start * self.header.foff,", "new": "                \"nsamples\": nsamps_read,\n                \"fch1\": fch1,"},
    {"id": "c08-read-block-upper-bound-only", "file": "sigpyproc/readers.py", "expect": "C08.R1",
     "old": "        if chan_start < 0 or nchans < 1 or chan_start + nchans > self.header.nchans:\n            msg = f\"requested block is out of range: fch1={fch1}, nchans={nchans}\"\n            raise ValueError(msg)\n        if start < 0 or start + nsamps > self.header.nsamples:\n            msg = f\"requested block is out of range: start={start}, nsamps={nsamps}\"\n            raise ValueError(msg)\n\n        startsub",
     "new": "        if nchans < 1 or chan_start + nchans > self.header.nchans:\n            msg = f\"requested block is out of range: fch1={fch1}, nchans={nchans}\"\n            raise ValueError(msg)\n        if start < 0 or start + nsamps > self.header.nsamples:\n            msg = f\"requested block is out of range: start={start}, nsamps={nsamps}\"\n            raise ValueError(msg)\n\n        startsub"},
    {"id": "c08-dedisperse-tstart-without-lead", "file": "sigpyproc/base.py", "expect": "C08.R2",
     "old": "                    \"nsamples\": tim_len,\n                    \"tstart\": self.header.mjd_after_nsamps(start - min_delay),", "new": "                    \"nsamples\": tim_len,\n                    \"tstart\": self.header.mjd_after_nsamps(start + min_delay),"},
    {"id": "c08-dedisp-no-nsamples", "file": B, "expect": "C08.R1",
     "old": "                    \"dm\": dm,\n                    \"nsamples\": tim_len,\n", "new": "                    \"dm\": dm,\n"},
    {"id": "c08-downsample-foff-tfactor", "file": B, "expect": "C08.R",
     "old": "            \"foff\": self.header.foff * ffactor,\n            \"tstart\"", "new": "            \"foff\": self.header.foff * tfactor,\n            \"tstart\""},
    {"id": "c08-invert-fch1-unchanged", "file": B, "expect": "C08.R4",
     "old": "            \"fch1\": self.header.fch1 + (self.header.nchans - 1) * self.header.foff,\n", "new": ""},
    {"id": "c08-invert-off-by-one", "file": B, "expect": "C08.R4",
     "old": "self.header.fch1 + (self.header.nchans - 1) * self.header.foff", "new": "self.header.fch1 + self.header.nchans * self.header.foff"},
    {"id": "c08-bands-fch1-no-chanstart", "file": B, "expect": "C08.R4",
     "old": "        fstart = self.header.fch1 + chanstart * self.header.foff", "new": "        fstart = self.header.fch1"},
    {"id": "c08-readblock-int", "file": "sigpyproc/readers.py", "expect": "C08.R5",
     "old": "        # Channel whose centre is nearest to fch1 (the band may ascend or descend)\n        chan_start = round((fch1 - self.header.fch1) / self.header.foff)\n        nchans = nchans if nchans is not None else self.header.nchans - chan_start\n        if chan_start < 0 or nchans < 1 or chan_start + nchans > self.header.nchans:\n            msg = f\"requested block is out of range: fch1={fch1}, nchans={nchans}\"\n            raise ValueError(msg)\n        if start < 0 or start + nsamps > self.header.nsamples:\n            msg = f\"requested block is out of range: start={start}, nsamps={nsamps}\"\n            raise ValueError(msg)\n\n        self._file.seek",
     "new": "        chan_start = int((fch1 - self.header.fch1) / self.header.foff)\n        nchans = nchans if nchans is not None else self.header.nchans - chan_start\n        if chan_start < 0 or nchans < 1 or chan_start + nchans > self.header.nchans:\n            msg = f\"requested block is out of range: fch1={fch1}, nchans={nchans}\"\n            raise ValueError(msg)\n        if start < 0 or start + nsamps > self.header.nsamples:\n            msg = f\"requested block is out of range: start={start}, nsamps={nsamps}\"\n            raise ValueError(msg)\n\n        self._file.seek"},
    {"id": "c08-pad-no-nsamples", "file": "sigpyproc/block.py", "expect": "C08.R1",
     "old": "                    \"nsamples\": nsamps_final,\n", "new": ""},
    {"id": "c08-ts-downsample-tsamp", "file": "sigpyproc/timeseries.py", "expect": "C08.R6",
     "old": "hdr_changes = {\"tsamp\": self.header.tsamp * factor, \"nsamples\": len(tim_data)}", "new": "hdr_changes = {\"tsamp\": self.header.tsamp, \"nsamples\": len(tim_data)}"},
    {"id": "c08-dedisp-dm-dropped", "file": B, "expect": "C08.R6",
     "old": "                    \"nchans\": 1,\n                    \"dm\": dm,\n", "new": "                    \"nchans\": 1,\n"},
    {"id": "c08-bad-key", "file": B, "expect": "C08.R3",
     "old": "            updates={\"tstart\": self.header.mjd_after_nsamps(start)},\n            nbits=self.header.nbits,\n        )\n        for _, _, data", "new": "            updates={\"tstart_mjd\": self.header.mjd_after_nsamps(start)},\n            nbits=self.header.nbits,\n        )\n        for _, _, data"},
    {"id": "c08-extract-samps-no-tstart", "file": B, "expect": "C08.R2",
     "old": "            updates={\"tstart\": self.header.mjd_after_nsamps(start)},\n            nbits=self.header.nbits,\n        )\n        for _, _, data", "new": "            nbits=self.header.nbits,\n        )\n        for _, _, data"},
    {"id": "c08-readblock-tstart-nsamps", "file": "sigpyproc/readers.py", "expect": "C08.R2",
     "old": "        start_mjd = self.header.mjd_after_nsamps(start)\n        new_header = self.header.new_header(\n            {\n                \"tstart\": start_mjd,\n                \"nsamples\": nsamps_read,",
     "new": "        start_mjd = self.header.mjd_after_nsamps(nsamps)\n        new_header = self.header.new_header(\n            {\n                \"tstart\": start_mjd,\n                \"nsamples\": nsamps_read,"},
    {"id": "c08-block-downsample-nsamples", "file": "sigpyproc/block.py", "expect": "C08.R1",
     "old": "            \"nsamples\": self.header.nsamples // tfactor,", "new": "            \"nsamples\": self.header.nsamples // ffactor,"},
    {"id": "c08-mjd-no-tsamp", "file": "sigpyproc/header.py", "expect": "C08.R2",
     "old": "TimeDelta(nsamps * self.tsamp, format=\"sec\")", "new": "TimeDelta(nsamps, format=\"sec\")"},
]
MUTANTS += [
    {"id": "c08-container-check-dropped", "file": "sigpyproc/timeseries.py", "expect": "C08.R1",
     "old": "        if len(self.data) != self.header.nsamples:", "new": "        if len(self.data) > self.header.nsamples:"},
    {"id": "c08-chan-freqs-half", "file": "sigpyproc/header.py", "expect": "C08.R7",
     "old": "        return np.arange(self.nchans, dtype=np.float32) * self.foff + self.fch1", "new": "        return (np.arange(self.nchans, dtype=np.float32) + 0.5) * self.foff + self.fch1"},
    {"id": "c08-fcenter-no-half", "file": "sigpyproc/header.py", "expect": "C08.R7",
     "old": "        return self.ftop + 0.5 * self.foff * self.nchans", "new": "        return self.fch1 + 0.5 * self.foff * self.nchans"},
    {"id": "c08-dedispersed-header-dm", "file": "sigpyproc/header.py", "expect": "C08.R7",
     "old": "            {\"dm\": dm, \"nchans\": 1, \"data_type\": \"time series\", \"nbits\": 32},", "new": "            {\"nchans\": 1, \"data_type\": \"time series\", \"nbits\": 32},"},
    {"id": "c08-revert-F10-foff", "file": B, "expect": "C08.R",
     "old": "        new_foff = self.header.foff * subfactor\n", "new": "        new_foff = self.header.foff * self.header.nchans // nsub\n"},
    {"id": "c08-revert-F10-fch1", "file": B, "expect": "C08.R4",
     "old": "        new_fch1 = self.header.fch1 + (subfactor - 1) * self.header.foff / 2\n", "new": "        new_fch1 = self.header.ftop - new_foff / 2\n"},
    {"id": "c08-revert-F10-refdm", "file": B, "expect": "C08.R3",
     "old": "            \"dm\": dm,\n            \"nchans\": nsub,", "new": "            \"refdm\": dm,\n            \"nchans\": nsub,"},
    {"id": "c08-subband-fch1-edge", "file": B, "expect": "C08.R4",
     "old": "        new_fch1 = self.header.fch1 + (subfactor - 1) * self.header.foff / 2\n", "new": "        new_fch1 = self.header.fch1 + subfactor * self.header.foff\n"},
    {"id": "c08-revert-F11-downsample", "file": B, "expect": "C08.R2",
     "old": "            \"foff\": self.header.foff * ffactor,\n            \"tstart\": self.header.mjd_after_nsamps(start),\n", "new": "            \"foff\": self.header.foff * ffactor,\n"},
    {"id": "c08-revert-F26-readchan", "file": B, "expect": "C08.R4",
     "old": "                    \"fch1\": self.header.fch1 + ichan * self.header.foff,\n", "new": ""},
    {"id": "c08-extract-chans-label-batch-index", "file": B, "expect": "C08.R4",
     "old": "                    for filename, chan in zip(batch_files, batch_chans, strict=True)", "new": "                    for chan, filename in enumerate(batch_files)"},
    {"id": "c08-tstart-gulp", "file": B, "expect": "C08.R2",
     "old": "            updates={\"tstart\": self.header.mjd_after_nsamps(start)},\n            nbits=nbits_out,", "new": "            updates={\"tstart\": self.header.mjd_after_nsamps(gulp)},\n            nbits=nbits_out,"},
]
MUTANTS += [
    {"id": "c08-revert-F58-dedisperse", "file": "sigpyproc/block.py", "expect": "C08.R6",
     "old": "        delays = self.header.get_dmdelays(dm - self.dm, ref_freq=ref_freq)\n", "new": "        delays = self.header.get_dmdelays(dm, ref_freq=ref_freq)\n"},
    {"id": "c08-revert-F58-dmt", "file": "sigpyproc/block.py", "expect": "C08.R6",
     "old": "        dm_delays = self.header.get_dmdelays(dm_arr - self.dm, ref_freq=ref_freq)\n", "new": "        dm_delays = self.header.get_dmdelays(dm_arr, ref_freq=ref_freq)\n"},
    {"id": "c08-revert-F57-fil", "file": "sigpyproc/readers.py", "expect": "C08.R6",
     "old": "        return FilterbankBlock(data_block, new_header, dm=self.header.dm)\n\n    def read_dedisp_block(self, start: int, nsamps: int, dm: float) -> FilterbankBlock:\n        delays",
     "new": "        return FilterbankBlock(data_block, new_header)\n\n    def read_dedisp_block(self, start: int, nsamps: int, dm: float) -> FilterbankBlock:\n        delays"},
    {"id": "c08-revert-F56", "file": "sigpyproc/block.py", "expect": "C08.R2",
     "old": "                    \"tstart\": self.header.mjd_after_nsamps(-offset),\n", "new": ""},
    {"id": "c08-pad-tstart-forward", "file": "sigpyproc/block.py", "expect": "C08.R2",
     "old": "                    \"tstart\": self.header.mjd_after_nsamps(-offset),\n", "new": "                    \"tstart\": self.header.mjd_after_nsamps(offset),\n"},
]
TWINS = [
    {"id": "c08-twin-len", "file": B,
     "old": "                    \"dm\": dm,\n                    \"nsamples\": tim_len,\n", "new": "                    \"dm\": dm,\n                    \"nsamples\": len(tim_ar),\n"},
    {"id": "c08-twin-invert-commuted", "file": B,
     "old": "self.header.fch1 + (self.header.nchans - 1) * self.header.foff", "new": "self.header.foff * (self.header.nchans - 1) + self.header.fch1"},
]
